set -e
CF="-O1 -g -D__PTHREAD -DAdd_ -ISRC -DSLU_MT_VERIF -Dpthread_create=vf_thread_create -Dpthread_join=vf_thread_join -Dpthread_mutex_init=vf_mutex_init -Dpthread_mutex_destroy=vf_mutex_destroy -Dpthread_mutex_lock=vf_mutex_lock -Dpthread_mutex_unlock=vf_mutex_unlock $EXTRA"
mkdir -p obj
(ls SRC/*.c | grep -v sp_ienv; ls CBLAS/*.c | grep -v myblas2) > srcs.txt
cat srcs.txt | xargs -P16 -I{} sh -c 'f={}; o=obj/$(basename $(dirname $f))_$(basename $f .c).o; gcc '"$CF"' -w -c $f -o $o'
rm -f libslu.a; ar rcs libslu.a obj/*.o
