set -e
CF="-O1 -g -fsanitize=thread -mllvm -tsan-distinguish-volatile=1 -D__PTHREAD -DAdd_ -ISRC -DSLU_MT_VERIF -Dpthread_create=vf_thread_create -Dpthread_join=vf_thread_join -Dpthread_mutex_init=vf_mutex_init -Dpthread_mutex_destroy=vf_mutex_destroy -Dpthread_mutex_lock=vf_mutex_lock -Dpthread_mutex_unlock=vf_mutex_unlock"
mkdir -p objt
cat srcs.txt | xargs -P16 -I{} sh -c 'f={}; o=objt/$(basename $(dirname $f))_$(basename $f .c).o; clang '"$CF"' -w -c $f -o $o'
rm -f libslut.a; ar rcs libslut.a objt/*.o
