/* throw-away spike: baton scheduler + preemption-bounded DFS over hooked pdgstrf */
#define _GNU_SOURCE
#include <pthread.h>
#include <stdio.h>
#include <stdlib.h>
#include <string.h>
#include <math.h>
#include <time.h>
#include <unistd.h>
#include <fcntl.h>
#include "slu_mt_ddefs.h"

#define MAXT 8
#define MAXPTS 200000
enum { OP_NONE, OP_LOCK, OP_JOIN, OP_FLAG, OP_POLL };
typedef struct { int used, finished, started; pthread_t th; pthread_cond_t cv;
  int op; void *obj; int jtarget; long poll_version; long lc_version; void *(*fn)(void*); void *arg; } T;
static T th[MAXT]; static int nth; static int cur;
static pthread_mutex_t big = PTHREAD_MUTEX_INITIALIZER;
static __thread int me = 0;
static long version;            /* bumped on protocol writes */
static void *mtx_owner_key[64]; static int mtx_owner[64]; static int nmtx;

/* exploration state */
static int prefix[MAXPTS], prefix_len;
static int choice[MAXPTS], nenabled[MAXPTS], cost_at[MAXPTS], running_enabled[MAXPTS]; static int npts;
static int preempts; static long steps; static int deadlock;
static long total_points;

static struct {int t,kind; long a,b,c;} evlog[4096]; static int nev;
static int mslot(void *m){ for(int i=0;i<nmtx;i++) if(mtx_owner_key[i]==m) return i; mtx_owner_key[nmtx]=m; mtx_owner[nmtx]=-1; return nmtx++; }
static int is_enabled(int t){
  T*x=&th[t]; if(!x->used||x->finished) return 0;
  switch(x->op){ case OP_LOCK: return mtx_owner[mslot(x->obj)]<0;
    case OP_JOIN: return th[x->jtarget].finished;
    case OP_FLAG: return *(volatile int_t*)x->obj==0;
    case OP_POLL: return version!=x->poll_version;
    default: return 1; }
}
/* called with big held by the running thread `me`; decides who runs next; returns when me is scheduled again */
static void point(void){
  int en[MAXT], ne=0; steps++;
  if(npts>5000){ fprintf(stderr,"RUNAWAY me=%d ver=%ld lc=%ld\n",me,version,th[me].lc_version); for(int t=0;t<nth;t++) fprintf(stderr," t%d fin=%d op=%d pv=%ld lc=%ld\n",t,th[t].finished,th[t].op,th[t].poll_version,th[t].lc_version); for(int i=nev>40?nev-40:0;i<nev;i++) fprintf(stderr,"  ev t%d kind=%d a=%ld b=%ld c=%ld\n",evlog[i].t,evlog[i].kind,evlog[i].a,evlog[i].b,evlog[i].c); fprintf(stderr,"choices:"); for(int i=0;i<60;i++) if(choice[i]) fprintf(stderr," [%d]=%d",i,choice[i]); fprintf(stderr,"\n"); _exit(5);}
  if(is_enabled(me)) en[ne++]=me;
  for(int t=0;t<nth;t++) if(t!=me && is_enabled(t)) en[ne++]=t;
  if(ne==0){ int alive=0; for(int t=0;t<nth;t++) if(th[t].used&&!th[t].finished) alive++;
    if(alive){ deadlock=1; fprintf(stderr,"DEADLOCK at step %ld me=%d\n",steps,me); for(int t=0;t<nth;t++) fprintf(stderr," t%d used=%d fin=%d op=%d obj=%p val=%d jt=%d pv=%ld ver=%ld\n",t,th[t].used,th[t].finished,th[t].op,th[t].obj,(th[t].op==OP_FLAG)?(int)*(volatile int_t*)th[t].obj:-1,th[t].jtarget,th[t].poll_version,version); for(int i=0;i<nev;i++) fprintf(stderr,"  ev t%d kind=%d a=%ld b=%ld c=%ld\n",evlog[i].t,evlog[i].kind,evlog[i].a,evlog[i].b,evlog[i].c); fprintf(stderr,"choices:"); for(int i=0;i<npts;i++) if(choice[i]) fprintf(stderr," [%d]=%d",i,choice[i]); fprintf(stderr,"\n"); _exit(3);} return; }
  int c=0;
  if(npts<prefix_len){ c=prefix[npts]; if(c>=ne){fprintf(stderr,"replay divergence at %d: c=%d ne=%d\n",npts,c,ne); _exit(4);} }
  int re=(en[0]==me);
  if(npts<MAXPTS){ choice[npts]=c; nenabled[npts]=ne; cost_at[npts]=preempts; running_enabled[npts]=re; } npts++;
  int nxt=en[c]; if(re && nxt!=me) preempts++;
  if(nxt!=me){ cur=nxt; pthread_cond_signal(&th[nxt].cv); while(cur!=me) pthread_cond_wait(&th[me].cv,&big); }
}
static void *tramp(void*p){ int id=(int)(long)p; me=id; pthread_mutex_lock(&big); while(cur!=me) pthread_cond_wait(&th[me].cv,&big);
  th[me].started=1; pthread_mutex_unlock(&big);
  th[me].fn(th[me].arg);
  pthread_mutex_lock(&big); th[me].finished=1; th[me].op=OP_NONE; version++;
  /* hand over */
  { int en[MAXT],ne=0; for(int t=0;t<nth;t++) if(is_enabled(t)) en[ne++]=t;
    if(ne==0){ fprintf(stderr,"DEADLOCK at thread exit\n"); _exit(3);}
    int c=0; if(npts<prefix_len){ c=prefix[npts]; if(c>=ne){fprintf(stderr,"replay divergence(exit)\n"); _exit(4);} }
    if(npts<MAXPTS){ choice[npts]=c; nenabled[npts]=ne; cost_at[npts]=preempts; running_enabled[npts]=0; } npts++;
    cur=en[c]; pthread_cond_signal(&th[cur].cv); }
  pthread_mutex_unlock(&big); return 0; }

int vf_thread_create(pthread_t*t,const pthread_attr_t*a,void*(*fn)(void*),void*arg){
  pthread_mutex_lock(&big); int id=nth++; th[id].used=1; th[id].finished=0; th[id].op=OP_NONE; th[id].fn=fn; th[id].arg=arg; pthread_cond_init(&th[id].cv,0);
  *t=(pthread_t)(long)id; pthread_create(&th[id].th,0,tramp,(void*)(long)id);
  point(); pthread_mutex_unlock(&big); return 0; }
int vf_thread_join(pthread_t t,void**st){ int id=(int)(long)t; pthread_mutex_lock(&big); th[me].op=OP_JOIN; th[me].jtarget=id; point(); th[me].op=OP_NONE; pthread_mutex_unlock(&big); pthread_join(th[id].th,0); return 0; }
int vf_mutex_init(pthread_mutex_t*m,const void*a){ return 0; }
int vf_mutex_destroy(pthread_mutex_t*m){ return 0; }
int vf_mutex_lock(pthread_mutex_t*m){ if(nth<=1) return 0; pthread_mutex_lock(&big); th[me].op=OP_LOCK; th[me].obj=m; point(); th[me].op=OP_NONE; mtx_owner[mslot(m)]=me; pthread_mutex_unlock(&big); return 0; }
int vf_mutex_unlock(pthread_mutex_t*m){ if(nth<=1) return 0; pthread_mutex_lock(&big); mtx_owner[mslot(m)]=-1; pthread_mutex_unlock(&big); return 0; }

/* events */
static int swapper[64]; static int double_prune;
static int ev_newsuper_order[64], ev_lsub_order[64], n_ns, n_la;
void slu_mt_verif_ev(int kind,long a,long b,long c){
  if(nth<=1) return;
  pthread_mutex_lock(&big); if(nev>=4096) nev=0; if(nev<4096){evlog[nev].t=me;evlog[nev].kind=kind;evlog[nev].a=a;evlog[nev].b=b;evlog[nev].c=(kind==VE_SCHED_RET)?c:0;nev++;}
  switch(kind){
    case VE_FLAG_CHECK: th[me].op=OP_FLAG; th[me].obj=(void*)c; point(); th[me].op=OP_NONE; break;
    case VE_LOOP_CHECK: point(); th[me].lc_version=version; break;
    case VE_FRUITLESS: if(version==th[me].lc_version){ th[me].op=OP_POLL; th[me].poll_version=version; point(); th[me].op=OP_NONE; } else point(); break;
    case VE_PRUNE_SWAP: if(b>=0&&b<64){ if(swapper[b]&&swapper[b]!=me+1) double_prune=1; swapper[b]=me+1;} point(); version++; break;
    case VE_RELEASE: case VE_PANEL_DONE: case VE_PIVOT_REC: case VE_PRUNE_PUB: case VE_ROW_XCHG:
      point(); version++; break;
    case VE_SCHED_RET: if(b>=0) version++; break; /* inside critical section: no switch */
    case VE_NEWSUPER: if(n_ns<64) ev_newsuper_order[n_ns++]=(int)b; point(); break;
    case VE_LSUB_ALLOC: if(n_la<64) ev_lsub_order[n_la++]=(int)b; point(); break;
    default: point(); break;
  }
  pthread_mutex_unlock(&big);
}
void vf_reset(void){ nth=1; memset(th,0,sizeof th); th[0].used=1; th[0].started=1; pthread_cond_init(&th[0].cv,0); cur=0; me=0; nmtx=0; npts=0; preempts=0; version=0; n_ns=n_la=0; nev=0; memset(swapper,0,sizeof swapper); double_prune=0; }

/* ---------------- harness ---------------- */
static int W=1,R=1,MS=4;
int sp_ienv(int ispec){ switch(ispec){case 1:return W;case 2:return R;case 3:return MS;case 4:return 200;case 5:return 100;case 6:return -50;case 7:return -50;case 8:return -30;} return 0;}
static int N, NNZ; static double AV[256]; static int_t AI[256], AP[65];
static int run_once(int P, long *outhash){
  vf_reset();
  int n=N; double*a=doubleMalloc(NNZ); int_t*asub=intMalloc(NNZ),*xa=intMalloc(n+1);
  memcpy(a,AV,NNZ*sizeof(double)); memcpy(asub,AI,NNZ*sizeof(int_t)); memcpy(xa,AP,(n+1)*sizeof(int_t));
  SuperMatrix A,L,U,B; dCreate_CompCol_Matrix(&A,n,n,NNZ,a,asub,xa,SLU_NC,SLU_D,SLU_GE);
  int_t *perm_c=intMalloc(n),*perm_r=intMalloc(n); for(int i=0;i<n;i++) perm_c[i]=i;
  double *b=doubleMalloc(n),*x=doubleMalloc(n); for(int i=0;i<n;i++){x[i]=1+i%3;} for(int i=0;i<n;i++)b[i]=0;
  for(int j=0;j<n;j++) for(int k=AP[j];k<AP[j+1];k++) b[AI[k]]+=AV[k]*x[j];
  dCreate_Dense_Matrix(&B,n,1,b,n,SLU_DN,SLU_D,SLU_GE); int_t info;
  pdgssv(P,&A,perm_c,perm_r,&L,&U,&B,&info);
  int bad=0; double err=0; if(double_prune) bad|=4; for(int i=0;i<n;i++) err=fmax(err,fabs(b[i]-x[i])); if(info!=0||!(err<1e-9)) bad|=1;
  long h=1469598103934665603L;
  if(info==0){ SCPformat*Ls=L.Store; for(int k=0;k<=Ls->nsuper;k++){int f=Ls->sup_to_colbeg[k],e=Ls->sup_to_colend[k]; h=(h^f)*1099511628211L; h=(h^e)*1099511628211L; for(int c=f;c<e;c++) if(Ls->rowind[Ls->rowind_colbeg[f]+c-f]!=c) bad|=2;}
    for(int i=0;i<n;i++) h=(h^perm_r[i])*1099511628211L; }
  *outhash=h;
  Destroy_CompCol_Matrix(&A); Destroy_SuperMatrix_Store(&B); SUPERLU_FREE(b); SUPERLU_FREE(x);
  Destroy_SuperNode_SCP(&L); Destroy_CompCol_NCP(&U); SUPERLU_FREE(perm_r); SUPERLU_FREE(perm_c);
  return bad;
}
static long nexec, nviol, maxpts; static int bound; static long outcomes[64]; static int noutc; static int firstviol_printed;
static void explore(int *pre,int len,int P){
  memcpy(prefix,pre,len*sizeof(int)); prefix_len=len; long h;
  int bad=run_once(P,&h); nexec++; total_points+=npts; if(npts>maxpts) maxpts=npts;
  int k; for(k=0;k<noutc;k++) if(outcomes[k]==h) break; if(k==noutc&&noutc<64) outcomes[noutc++]=h;
  int np=npts; int *ch=malloc(np*sizeof(int)),*ne=malloc(np*sizeof(int)),*co=malloc(np*sizeof(int)),*re=malloc(np*sizeof(int));
  memcpy(ch,choice,np*sizeof(int)); memcpy(ne,nenabled,np*sizeof(int)); memcpy(co,cost_at,np*sizeof(int)); memcpy(re,running_enabled,np*sizeof(int));
  if(bad){ nviol++; if(!firstviol_printed){ firstviol_printed=1; fprintf(stderr,"VIOLATION kind=%d preempts=%d schedule(len %d):",bad,preempts,np); for(int i=0;i<np;i++) if(ch[i]) fprintf(stderr," [%d]=%d",i,ch[i]); fprintf(stderr,"\n  newsuper order:"); for(int i=0;i<n_ns;i++) fprintf(stderr," %d",ev_newsuper_order[i]); fprintf(stderr,"  lsub alloc offsets:"); for(int i=0;i<n_la;i++) fprintf(stderr," %d",ev_lsub_order[i]); fprintf(stderr,"\n"); } }
  for(int i=len;i<np;i++){ int cost=co[i]; if(re[i]) cost++; if(cost>bound) continue;
    for(int alt=1;alt<ne[i];alt++){ int *p2=malloc((i+1)*sizeof(int)); memcpy(p2,ch,i*sizeof(int)); p2[i]=alt; explore(p2,i+1,P); free(p2);} }
  free(ch);free(ne);free(co);free(re);
}
static void add(int i,int j,double v){ /* build column-major triplets sorted later */ static int cnt; }
int main(int argc,char**argv){
  const char*shape=argc>1?argv[1]:"k2"; int P=argc>2?atoi(argv[2]):2; bound=argc>3?atoi(argv[3]):1; W=argc>4?atoi(argv[4]):1; R=argc>5?atoi(argv[5]):1; MS=argc>6?atoi(argv[6]):4;
  /* dense pattern matrix D[i][j] */
  static double D[16][16]; int n=0;
  if(!strcmp(shape,"k2")){ n=3; D[0][0]=4;D[1][1]=4;D[2][2]=4; D[0][2]=1; D[1][2]=1; D[2][0]=0.5; D[2][1]=0.5; }
  else if(!strcmp(shape,"fork3")){ n=3; D[0][0]=4;D[1][1]=4;D[2][2]=4; D[0][2]=1; D[1][2]=1; }
  else if(!strcmp(shape,"fork5")){ n=5; for(int i=0;i<5;i++)D[i][i]=4; D[0][4]=1;D[1][4]=1;D[2][4]=1;D[3][4]=1; }
  else if(!strcmp(shape,"utree7")){ n=7; int par[7]={2,2,6,5,5,6,7}; for(int i=0;i<7;i++){D[i][i]=4; if(par[i]<7){D[i][par[i]]=1;}} }
  else if(!strcmp(shape,"chain4")){ n=4; for(int i=0;i<4;i++){D[i][i]=4; if(i+1<4){D[i][i+1]=1; D[i+1][i]=0.7;}} }
  else if(!strcmp(shape,"tree7")){ n=7; int par[7]={2,2,6,5,5,6,7}; for(int i=0;i<7;i++){D[i][i]=4; if(par[i]<7){D[i][par[i]]=1; D[par[i]][i]=0.5;}} }
  else if(!strcmp(shape,"dense4")){ n=4; for(int i=0;i<4;i++)for(int j=0;j<4;j++) D[i][j]= (i==j?1.0:2.0+0.3*i-0.2*j+((i*3+j)%4)); }
  else if(!strcmp(shape,"two")){ n=6; int par[6]={2,2,6,5,5,6}; for(int i=0;i<6;i++){D[i][i]=4; if(par[i]<6){D[i][par[i]]=1; D[par[i]][i]=0.5;}} }
  N=n; NNZ=0; for(int j=0;j<n;j++){AP[j]=NNZ; for(int i=0;i<n;i++) if(D[i][j]!=0){AI[NNZ]=i;AV[NNZ]=D[i][j];NNZ++;}} AP[n]=NNZ;
  int fd=open("/dev/null",O_WRONLY); dup2(fd,1);
  struct timespec t0,t1; clock_gettime(CLOCK_MONOTONIC,&t0);
  explore(NULL,0,P);
  clock_gettime(CLOCK_MONOTONIC,&t1); double s=(t1.tv_sec-t0.tv_sec)+(t1.tv_nsec-t0.tv_nsec)*1e-9;
  fprintf(stderr,"shape=%s n=%d P=%d bound=%d w=%d relax=%d maxsuper=%d: executions=%ld violations=%ld maxpoints=%ld avgpoints=%.1f outcomes=%d time=%.2fs (%.0f us/exec)\n",shape,n,P,bound,W,R,MS,nexec,nviol,maxpts,(double)total_points/nexec,noutc,s,1e6*s/nexec);
  return nviol?1:0;
}
