#include <stdio.h>
long acc_r, acc_w, acc_vr, acc_vw;
void __tsan_init(void){} void __tsan_func_entry(void*p){} void __tsan_func_exit(void){}
#define R(n) void __tsan_read##n(void*a){__atomic_fetch_add(&acc_r,1,__ATOMIC_RELAXED);} void __tsan_write##n(void*a){__atomic_fetch_add(&acc_w,1,__ATOMIC_RELAXED);}
R(1) R(2) R(4) R(8) R(16)
void __tsan_unaligned_read8(void*a){acc_r++;} void __tsan_unaligned_write8(void*a){acc_w++;}
void __tsan_unaligned_read4(void*a){acc_r++;} void __tsan_unaligned_write4(void*a){acc_w++;}
void __tsan_volatile_read4(void*a){__atomic_fetch_add(&acc_vr,1,__ATOMIC_RELAXED);} void __tsan_volatile_write4(void*a){__atomic_fetch_add(&acc_vw,1,__ATOMIC_RELAXED);}
void __tsan_volatile_read8(void*a){acc_vr++;} void __tsan_volatile_write8(void*a){acc_vw++;}
__attribute__((destructor)) static void fin(void){ fprintf(stderr,"accesses: reads %ld writes %ld volatile_reads %ld volatile_writes %ld\n",acc_r,acc_w,acc_vr,acc_vw); }
