/* throw-away spike: explicit-state search of the scheduling protocol, calling the REAL
   pxgstrf_relax_snode / ParallelInit / pxgstrf_scheduler / pxgstrf_mark_busy_descends */
#include <stdio.h>
#include <stdlib.h>
#include <string.h>
#include "slu_mt_ddefs.h"
int vf_mutex_init(void*m,void*a){return 0;} int vf_mutex_destroy(void*m){return 0;} int vf_mutex_lock(void*m){return 0;} int vf_mutex_unlock(void*m){return 0;}
int vf_thread_create(){return 0;} int vf_thread_join(){return 0;}
void slu_mt_verif_ev(int k,long a,long b,long c){}
int sp_ienv(int i){ return i==3?100:1; }

#define NMAX 10
#define PMAX 3
enum { PH_CHECK, PH_SCHED, PH_RELAX, PH_WAIT, PH_COL, PH_DONE, PH_EXIT };
typedef struct { signed char ph, jcol, bcol, kcol /*wait cursor*/, ksup, inner, ci, krep; unsigned short marked, consumed; } Wk;
typedef struct {
  /* protocol state (copied in/out of the real structures) */
  signed char state[NMAX+1], ukids[NMAX+1], fb[NMAX+1], spin[NMAX], q[NMAX]; signed char head, tail, count, tasks;
  signed char supno[NMAX], taken[NMAX], released[NMAX], done[NMAX];
  Wk w[PMAX];
} St;
static int n, P, W, RLX; static int etree[NMAX+1];
/* real structures */
static pxgstrf_shared_t sh; static GlobalLU_t glu; static Gstat_t gstat; static superlumt_options_t opt;
static int_t xsupA[NMAX+1], xsup_endA[NMAX+1], supnoA[NMAX+1], lbusy[NMAX+1], panel_histo[64];
static int_t size_of[NMAX+1], type_of[NMAX+1];
static void load(const St*s){ for(int i=0;i<=n;i++){ sh.pan_status[i].state=s->state[i]; sh.pan_status[i].ukids=s->ukids[i]; sh.fb_cols[i]=s->fb[i]; }
  for(int i=0;i<n;i++){ ((int_t*)sh.spin_locks)[i]=s->spin[i]; sh.taskq.queue[i]=s->q[i]; }
  sh.taskq.head=s->head; sh.taskq.tail=s->tail; sh.taskq.count=s->count; sh.tasks_remain=s->tasks;
  for(int i=0;i<n;i++){ supnoA[i]=s->supno[i]; } for(int i=0;i<=n;i++){xsupA[i]=i; xsup_endA[i]=i+1;} for(int i=0;i<n;i++) if(s->supno[i]>=0 && xsup_endA[s->supno[i]]<i+1) xsup_endA[s->supno[i]]=i+1; }
static void store(St*s){ for(int i=0;i<=n;i++){ s->state[i]=sh.pan_status[i].state; s->ukids[i]=sh.pan_status[i].ukids; s->fb[i]=sh.fb_cols[i]; }
  for(int i=0;i<n;i++){ s->spin[i]=sh.spin_locks[i]; s->q[i]=sh.taskq.queue[i]; }
  s->head=sh.taskq.head; s->tail=sh.taskq.tail; s->count=sh.taskq.count; s->tasks=sh.tasks_remain; }
/* hash set */
static St *tab; static unsigned char *used; static long cap, nstates, ntrans, nstutter; static St *queue_; static long qh, qt;
static unsigned long hsh(const St*s){ const unsigned char*p=(const void*)s; unsigned long h=1469598103934665603UL; for(size_t i=0;i<sizeof(St);i++){h^=p[i]; h*=1099511628211UL;} return h; }
static int wcmp(const void*a,const void*b){ return memcmp(a,b,sizeof(Wk)); }
static int insert(St*s){ qsort(s->w,P,sizeof(Wk),wcmp); unsigned long h=hsh(s)%cap; while(used[h]){ if(!memcmp(&tab[h],s,sizeof(St))) return 0; h=(h+1)%cap; } used[h]=1; tab[h]=*s; nstates++; queue_[qt++]=*s; return 1; }
static long viol[16]; static int printed;
static void fail(int k,const St*s,const char*msg){ viol[k]++; if(printed<5){ printed++; fprintf(stderr,"INVARIANT I%d violated: %s  (n=%d P=%d w=%d relax=%d etree:",k,msg,n,P,W,RLX); for(int i=0;i<n;i++) fprintf(stderr," %d",etree[i]); fprintf(stderr,")\n"); } }
static int is_desc(int a,int j){ /* a proper descendant of j? */ while(a<j) a=etree[a]; return a==j; }
static int lead(int c){ return size_of[c]>0? c : c+size_of[c]; }
static int unfin(const St*s,int L){ for(int c=L;c<L+size_of[L];c++) if(!s->released[c]) return 1; return 0; }
static void check_sched_result(const St*s,int jcol,int bcol){
  /* I1: all proper descendant panels of jcol's panel finished except one chain of BUSY panels */
  if(type_of[jcol]==RELAXED_SNODE) return;
  int w=size_of[jcol];
  /* descendants: columns c<jcol that are descendants of some column in panel; since panel is a chain, descendants of last col minus panel cols */
  int last=jcol+w-1; int nbusy=0; int deepest=-1;
  for(int c=0;c<jcol;c++){ if(!is_desc(c,last)) continue; int L=lead(c); if(L!=c) continue; /* panel leading col */
     if(s->taken[L]==0) { fail(1,s,"descendant panel not even taken"); return; }
     if(unfin(s,L)) { /* unfinished => must be on the chain */ nbusy++; if(deepest<0||L<deepest) deepest=L; } }
  /* chain check: unfinished panels must form a path: each unfinished panel's DADPANEL is either jcol's panel or another unfinished panel, and no two share a dad */
  int dads[NMAX+1]; memset(dads,0,sizeof dads);
  for(int c=0;c<jcol;c++){ if(!is_desc(c,last)) continue; if(lead(c)!=c||!unfin(s,c)) continue; int d=etree[c+size_of[c]-1]; d=lead(d); dads[d]++; if(dads[d]>1){ fail(1,s,"two unfinished child panels under one dad"); return; } if(d!=jcol && !unfin(s,d)) { fail(1,s,"unfinished panel below a finished one"); return; } }
  if(nbusy==0){ if(bcol!=jcol) { /* bcol may point to a finished-but-STATE-not-yet-DONE panel: conservative, allowed */ } }
  else { if(bcol>deepest) fail(1,s,"bcol is above the deepest unfinished panel"); }
}
static void expand(const St*s0){
  for(int wi=0;wi<P;wi++){
    if(wi>0 && !memcmp(&s0->w[wi],&s0->w[wi-1],sizeof(Wk))) continue; /* symmetric */
    St s=*s0; Wk*w=&s.w[wi];
    switch(w->ph){
    case PH_EXIT: continue;
    case PH_CHECK: if(s.tasks>0) w->ph=PH_SCHED; else w->ph=PH_EXIT; break;
    case PH_SCHED: { load(&s); int_t cur=w->jcol, b=-9; pxgstrf_scheduler(wi,n,etree,&cur,&b,&sh); store(&s);
        if(s.head<0||s.tail>n||s.head>s.tail||s.count!=s.tail-s.head) fail(5,&s,"queue bounds");
        if(cur==EMPTY){ w->jcol=EMPTY; w->ph=PH_CHECK; }
        else { if(s.taken[cur]) fail(4,&s,"panel returned twice"); s.taken[cur]=1; w->jcol=cur; w->bcol=b;
               int untaken=0; for(int c=0;c<n;c++) if(lead(c)==c && !s.taken[c]) untaken++; if(untaken!=s.tasks) fail(4,&s,"tasks_remain != untaken panels");
               check_sched_result(&s,cur,b);
               if(type_of[cur]==RELAXED_SNODE) w->ph=PH_RELAX;
               else { /* real mark_busy_descends */ load(&s); for(int i=0;i<=n;i++) lbusy[i]=-1; int_t bb=b; pxgstrf_mark_busy_descends(wi,cur,etree,&sh,&bb,lbusy);
                      /* I2: every unreleased descendant column must be marked */
                      int last=cur+size_of[cur]-1; for(int c=0;c<cur;c++) if(is_desc(c,last) && !s.released[c] && lbusy[c]!=cur) fail(2,&s,"unreleased descendant not marked busy");
                      /* remember marked set in a bitmask via w->polled? keep simple: recompute at wait end */
                      w->marked=0; w->consumed=0; for(int c=0;c<cur;c++) if(lbusy[c]==cur) w->marked|=(1u<<c); w->bcol=bb; w->kcol=bb; w->inner=0; w->krep=-1; w->ph=(bb<cur)?PH_WAIT:PH_COL; w->ci=0; } }
        break; }
    case PH_RELAX: { int j=w->jcol, ww=size_of[j]; for(int c=j;c<j+ww;c++){ s.supno[c]=j; s.spin[c]=0; s.released[c]=1; } w->ph=PH_DONE; break; }
    case PH_WAIT: { int j=w->jcol; int k=w->kcol; if(s.spin[k]) continue; /* blocked */
        if(!s.released[k]) fail(3,&s,"flag clear but column not released");
        int consume=0;
        if(!w->inner){ w->ksup=s.supno[k]; }
        else if(s.supno[k]!=w->ksup){ consume=1; }   /* left the supernode: krep is the saved one */
        if(!consume){ /* do-body start */ int krep=w->ksup; for(int c=0;c<n;c++) if(s.supno[c]==w->ksup && c>krep) krep=c; w->krep=krep;
            int nk=etree[k]; if(nk>=j) consume=1; else { w->kcol=nk; w->inner=1; } }
        if(consume){ for(int c=w->ksup;c<=w->krep;c++){ if(!s.released[c]) fail(3,&s,"consumed unreleased column"); w->consumed|=(1u<<c);} 
            int nk=etree[w->krep]; w->inner=0; if(nk>=j){ if(w->marked & ~w->consumed) fail(2,&s,"column marked busy but never waited for/consumed (I2b)"); w->ph=PH_COL; w->ci=0; } else w->kcol=nk; }
        break; }
    case PH_COL: { int j=w->jcol, c=j+w->ci;
        /* at first own column all descendants must be released */
        if(w->ci==0){ int last=j+size_of[j]-1; for(int d=0;d<j;d++) if(is_desc(d,last)&&!s.released[d]) fail(2,&s,"own column started with unreleased descendant"); }
        /* supernode choice: join c-1's supernode if c-1 is a child of c (etree[c-1]==c), else new; explore both when allowed */
        int canjoin = (c>0 && etree[c-1]==c && s.supno[c-1]>=0);
        for(int join=0; join<=canjoin; join++){ St t=s; Wk*tw=&t.w[wi]; t.supno[c]= join? t.supno[c-1] : c; t.spin[c]=0; t.released[c]=1; tw->ci++; if(tw->ci==size_of[j]) tw->ph=PH_DONE;
            ntrans++; insert(&t); }
        continue; }
    case PH_DONE: { s.state[w->jcol]=DONE; s.done[w->jcol]=1; w->ph=PH_CHECK; break; }
    }
    ntrans++;
    if(!insert(&s)) { /* seen */ }
  }
}
static long run_config(void){
  /* build real structures */
  opt.etree=etree; opt.panel_size=W; opt.relax=RLX; opt.nprocs=P; gstat.panel_histo=panel_histo; sh.Gstat=&gstat; sh.Glu=&glu; glu.xsup=xsupA; glu.xsup_end=xsup_endA; glu.supno=supnoA;
  pxgstrf_relax_t *rel=malloc((n+2)*sizeof*rel); pxgstrf_relax_snode(n,&opt,rel); ParallelInit(n,rel,&opt,&sh); free(rel);
  for(int i=0;i<=n;i++){ size_of[i]=sh.pan_status[i].size; type_of[i]=sh.pan_status[i].type; }
  St s; memset(&s,0,sizeof s); store(&s); for(int i=0;i<n;i++){ s.supno[i]=-1; } for(int i=0;i<P;i++){ s.w[i].ph=PH_CHECK; s.w[i].jcol=EMPTY; s.w[i].bcol=-1; s.w[i].kcol=-1; }
  memset(used,0,cap); nstates=0; qh=qt=0; long t0=ntrans; insert(&s);
  long finals=0, dead=0;
  while(qh<qt){ St cur=queue_[qh++]; long before=ntrans; long ns=nstates;
     int allexit=1; for(int i=0;i<P;i++) if(cur.w[i].ph!=PH_EXIT) allexit=0;
     if(allexit){ finals++; for(int c=0;c<n;c++){ if(!cur.released[c]) fail(7,&cur,"final state with unreleased column"); if(lead(c)==c&&!cur.done[c]) fail(7,&cur,"final state with panel not DONE"); } continue; }
     expand(&cur);
     if(ntrans==before) { dead++; fail(6,&cur,"deadlock: no enabled transition"); }
  }
  /* free real structures */
  free(sh.lu_locks); free((void*)sh.spin_locks); free(sh.pan_status); free(sh.fb_cols); free(sh.taskq.queue);
  return finals;
}
static long nforests, totstates;
static void gen(int k){ /* enumerate postordered forests: parent[j]>j with contiguous subtrees: build by stack */
  /* simple method: enumerate all parent arrays p[j] in (j, n], accept iff postordered (subtree of j is contiguous ending at j) */
  if(k==n){ int size[NMAX+1],first[NMAX+1]; for(int j=0;j<=n;j++){size[j]=1;first[j]=j;} for(int j=0;j<n;j++){ int p=etree[j]; size[p]+=size[j]; if(first[j]<first[p]) first[p]=first[j]; }
     for(int j=0;j<n;j++) if(first[j]!=j-size[j]+1) return;
     nforests++; run_config(); totstates+=nstates; return; }
  for(int p=k+1;p<=n;p++){ etree[k]=p; gen(k+1); }
}
int main(int argc,char**argv){ n=atoi(argv[1]); P=atoi(argv[2]); W=atoi(argv[3]); RLX=atoi(argv[4]); cap=1L<<23; tab=malloc(cap*sizeof(St)); used=malloc(cap); queue_=malloc(cap*sizeof(St));
  etree[n]=n; gen(0);
  fprintf(stderr,"n=%d P=%d w=%d relax=%d forests=%ld states=%ld transitions=%ld violations:",n,P,W,RLX,nforests,totstates,ntrans); for(int k=1;k<8;k++) fprintf(stderr," I%d=%ld",k,viol[k]); fprintf(stderr,"\n"); return 0; }
