import re,sys
def ins(path, anchor, line, before=True, occ='all', after_n=0):
    s=open(path).read().split('\n'); out=[]; n=0
    for l in s:
        if anchor in l:
            n+=1
            if occ=='all' or n in occ:
                if before: out.append(line); out.append(l)
                else: out.append(l); out.append(line)
                continue
        out.append(l)
    if n==0: print("ANCHOR NOT FOUND",path,anchor); sys.exit(1)
    open(path,'w').write('\n'.join(out))
H='SRC/'
# header
open(H+'slu_mt_verif.h','w').write('''#ifndef SLU_MT_VERIF_H
#define SLU_MT_VERIF_H
#ifdef SLU_MT_VERIF
extern void slu_mt_verif_ev(int kind, long a, long b, long c);
#define SLU_MT_VEV(k,a,b,c) slu_mt_verif_ev((k),(long)(a),(long)(b),(long)(c))
#else
#define SLU_MT_VEV(k,a,b,c) ((void)0)
#endif
enum { VE_LOOP_CHECK=1, VE_SCHED_RET, VE_PANEL_BEGIN, VE_COL_BEGIN, VE_MARK_BUSY, VE_DFS_PERMR, VE_DFS_VISIT,
 VE_FLAG_CHECK, VE_READ_SN_BEGIN, VE_READ_SN_END, VE_NEWSUPER, VE_LSUB_ALLOC, VE_LUSUP_ALLOC, VE_STORE_COL,
 VE_PIVOT_REC, VE_ROW_XCHG, VE_RELEASE, VE_PRUNE_CHECK, VE_PRUNE_SWAP, VE_PRUNE_PUB, VE_PANEL_DONE, VE_FRUITLESS };
#endif
''')
ins(H+'slu_mt_util.h','#include "slu_mt_machines.h"','#include "slu_mt_verif.h"',before=False)
t=H+'pdgstrf_thread.c'
ins(t,'while ( pxgstrf_shared->tasks_remain > 0 ) {','    SLU_MT_VEV(VE_LOOP_CHECK,pnum,0,0);')
ins(t,'} /* while there are more panels */','	SLU_MT_VEV(VE_LOOP_CHECK,pnum,jcol,0);')
ins(t,'	if ( jcol != EMPTY ) {','	if ( jcol == EMPTY ) SLU_MT_VEV(VE_FRUITLESS,pnum,0,0);')
ins(t,'	    w = pxgstrf_shared->pan_status[jcol].size;','	    SLU_MT_VEV(VE_PANEL_BEGIN,pnum,jcol,bcol);',before=False,occ=[1])
ins(t,'		    pxgstrf_shared->spin_locks[jj] = 0;','		    SLU_MT_VEV(VE_RELEASE,pnum,jj,&pxgstrf_shared->spin_locks[jj]);')
ins(t,'		    pxgstrf_shared->spin_locks[jj] = 0;','		    SLU_MT_VEV(VE_RELEASE,pnum,jj,&pxgstrf_shared->spin_locks[jj]);') if False else None
ins(t,'	    STATE( jcol ) = DONE; /* Release panel jcol. */','	    SLU_MT_VEV(VE_PANEL_DONE,pnum,jcol,0);')
ins(H+'pxgstrf_scheduler.c','    *cur_pan = jcol;','    SLU_MT_VEV(VE_SCHED_RET,pnum,jcol,*bcol);',before=False)
ins(H+'pdgstrf_panel_dfs.c','	    kperm = perm_r[krow];','	    SLU_MT_VEV(VE_DFS_PERMR,pnum,krow,&perm_r[krow]);')
ins(H+'pdgstrf_panel_dfs.c','				chperm = perm_r[kchild];','				SLU_MT_VEV(VE_DFS_PERMR,pnum,kchild,&perm_r[kchild]);')
ins(H+'pdgstrf_panel_dfs.c','		    if ( ispruned[krep] ) {','		    SLU_MT_VEV(VE_DFS_VISIT,pnum,krep,&ispruned[krep]);')
ins(H+'pdgstrf_panel_dfs.c','					if ( ispruned[krep] ) {','					SLU_MT_VEV(VE_DFS_VISIT,pnum,krep,&ispruned[krep]);')
ins(H+'pdgstrf_column_dfs.c','		if ( ispruned[krep] ) {','		SLU_MT_VEV(VE_DFS_VISIT,pnum,krep,&ispruned[krep]);')
ins(H+'pdgstrf_column_dfs.c','				    if ( ispruned[krep] ) {','				    SLU_MT_VEV(VE_DFS_VISIT,pnum,krep,&ispruned[krep]);')
ins(H+'pdgstrf_column_dfs.c','	xsup[nsuper] = jcol;','	SLU_MT_VEV(VE_NEWSUPER,pnum,jcol,nsuper);')
ins(H+'pdgstrf_column_dfs.c','	xlsub[jcol] = ito;','	SLU_MT_VEV(VE_LSUB_ALLOC,pnum,jcol,ito);',occ=[1])
ins(H+'pdgstrf_snode_dfs.c','    Glu->xsup[nsuper]     = jcol;','    SLU_MT_VEV(VE_NEWSUPER,pnum,jcol,nsuper);')
ins(H+'pdgstrf_snode_dfs.c','    xlsub[jcol] = ito;','    SLU_MT_VEV(VE_LSUB_ALLOC,pnum,jcol,ito);')
ins(H+'pdgstrf_panel_bmod.c','	if ( pxgstrf_shared->spin_locks[kcol] ) {','	SLU_MT_VEV(VE_FLAG_CHECK,pnum,kcol,&pxgstrf_shared->spin_locks[kcol]);')
ins(H+'pdgstrf_panel_bmod.c','	    if ( pxgstrf_shared->spin_locks[kcol] ) {','	    SLU_MT_VEV(VE_FLAG_CHECK,pnum,kcol,&pxgstrf_shared->spin_locks[kcol]);')
ins(H+'await.c','    while ( *status ) ;','    SLU_MT_VEV(VE_FLAG_CHECK,-1,-1,status);')
ins(H+'pdgstrf_pivotL.c','    perm_r[*pivrow] = jcol;','    SLU_MT_VEV(VE_PIVOT_REC,pnum,jcol,&perm_r[*pivrow]);',occ=[2])
ins(H+'pdgstrf_pivotL.c','	perm_r[*pivrow] = jcol;','	SLU_MT_VEV(VE_PIVOT_REC,pnum,jcol,&perm_r[*pivrow]);',occ=[1])
ins(H+'pdgstrf_pivotL.c','    if ( pivptr != nsupc ) {','    if ( pivptr != nsupc ) SLU_MT_VEV(VE_ROW_XCHG,pnum,jcol,fsupc);')
ins(H+'pxgstrf_pruneL.c','	if ( isupno == supno[irep1] ) continue;	/* Don\'t prune */','	SLU_MT_VEV(VE_PRUNE_CHECK,-1,irep,jcol);')
ins(H+'pxgstrf_pruneL.c','		        ktemp = lsub[kmin];','		        SLU_MT_VEV(VE_PRUNE_SWAP,-1,irep,jcol);')
ins(H+'pxgstrf_pruneL.c','	        xprune[irep] = kmin;	/* Pruning */','	        SLU_MT_VEV(VE_PRUNE_PUB,-1,irep,jcol);')
print("hooks ok")
