#!/usr/bin/env python3
"""Compile an engine source against a library variant (cached by content hash)."""
import os, sys, hashlib, subprocess, glob
sys.path.insert(0, os.path.dirname(os.path.abspath(__file__)))
import vlib

ROOT = vlib.ROOT
PREC = {'s': '-DPREC_S', 'd': '-DPREC_D', 'c': '-DPREC_C', 'z': '-DPREC_Z'}


def _hash_files(paths, extra):
    h = hashlib.sha256()
    for p in sorted(paths):
        h.update(p.encode()); h.update(open(p, 'rb').read())
    h.update(extra.encode())
    return h.hexdigest()[:16]


def build_engine(src, variant, prec, extra_flags=(), extra_srcs=(), opt='-O1'):
    """src: path relative to /verif/engines. returns path of the executable"""
    lib, inc, libflags, th = vlib.build(variant)
    cc, hflags = vlib.harness_flags(variant)
    srcp = os.path.join(ROOT, 'engines', src)
    deps = glob.glob(os.path.join(ROOT, 'engines', 'common', '*.h')) + glob.glob(os.path.join(os.path.dirname(srcp), '*.[ch]'))
    extra = [os.path.join(ROOT, 'engines', e) for e in extra_srcs]
    key = _hash_files(set(deps + [srcp] + extra), th + variant + prec + ' '.join(extra_flags) + opt)
    outd = os.path.join(vlib.BUILD, 'bin'); os.makedirs(outd, exist_ok=True)
    exe = os.path.join(outd, '%s-%s-%s-%s' % (os.path.basename(src)[:-2], variant, prec, key))
    if os.path.exists(exe):
        try: os.utime(exe, None)        # mark as in use: eviction goes by age
        except OSError: pass
        return exe
    olds = sorted((o for o in glob.glob(os.path.join(outd, '%s-%s-%s-*' % (os.path.basename(src)[:-2], variant, prec))) if '.tmp' not in o), key=os.path.getmtime)
    # evict only what is both beyond the 6 most recent builds and unused for 6 hours: a long-running check of an older source state may still execute it
    import time as _t
    for old in olds[:-6]:
        try:
            if _t.time() - os.path.getmtime(old) > 6 * 3600: os.unlink(old)
        except OSError: pass
    cmd = [cc, opt, '-g', '-w', '-fno-omit-frame-pointer', PREC[prec]] + hflags + list(extra_flags) + inc + \
          ['-I' + os.path.join(ROOT, 'engines', 'common'), srcp] + extra + [lib] + vlib.LINK_EXTRA.get(variant, []) + ['-lm', '-lpthread', '-ldl', '-rdynamic', '-o', exe + '.tmp%d' % os.getpid()]
    r = subprocess.run(cmd, stdout=subprocess.PIPE, stderr=subprocess.STDOUT, text=True)
    if r.returncode != 0:
        sys.stderr.write('vengine: build failed: %s\n%s\n' % (' '.join(cmd), r.stdout))
        raise SystemExit(2)
    os.rename(exe + '.tmp%d' % os.getpid(), exe)
    return exe


if __name__ == '__main__':
    print(build_engine(sys.argv[1], sys.argv[2], sys.argv[3]))
