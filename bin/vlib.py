#!/usr/bin/env python3
"""Build variants of the SuperLU_MT library from /repo's *working tree* for the
verification engines, with a content-hash cache under /verif/build.

Every check calls build(variant); an unchanged tree reuses the cached archive,
any edit under /repo/SRC or /repo/CBLAS gives a new hash and a full rebuild
(about 3-6 s on 16 cores).
"""
import hashlib, os, subprocess, sys, glob, shutil, concurrent.futures, json, time

REPO = os.environ.get('VERIF_REPO', '/repo')
ROOT = os.path.dirname(os.path.dirname(os.path.abspath(__file__)))
BUILD = os.path.join(ROOT, 'build')

PTHREAD_RENAMES = ['-Dpthread_create=vf_thread_create', '-Dpthread_join=vf_thread_join',
                   '-Dpthread_mutex_init=vf_mutex_init', '-Dpthread_mutex_destroy=vf_mutex_destroy',
                   '-Dpthread_mutex_lock=vf_mutex_lock', '-Dpthread_mutex_unlock=vf_mutex_unlock']
ALLOC_RENAMES = ['-Dmalloc=vf_malloc', '-Dcalloc=vf_calloc', '-Dfree=vf_free', '-Drealloc=vf_realloc']
BASE = ['-D__PTHREAD', '-DAdd_', '-w', '-g', '-fno-omit-frame-pointer']
ASAN = ['-fsanitize=address,undefined', '-fno-sanitize-recover=undefined', '-fno-common']

# variant -> (compiler, flags).  "guard on" == -DSLU_MT_VERIF
VARIANTS = {
    # Engine Q: sequential API, guard OFF, allocator observable, ASan+UBSan
    # (threads are routed to the harness, which runs each worker inline at creation: the legal schedule
    #  "worker 0 first"; this makes Engine Q deterministic and 5x faster than real pthread_create/join)
    'q':   ('gcc',   BASE + ['-O1'] + ASAN + ALLOC_RENAMES + PTHREAD_RENAMES),
    'qv':  ('gcc',   BASE + ['-O1', '-DUSE_VENDOR_BLAS'] + ASAN + ALLOC_RENAMES + PTHREAD_RENAMES),
    'ql':  ('gcc',   BASE + ['-O1', '-D_LONGINT'] + ASAN + ALLOC_RENAMES + PTHREAD_RENAMES),
    # real pthreads, free-running (configuration coverage only)
    'qt':  ('gcc',   BASE + ['-O1'] + ASAN + ALLOC_RENAMES),
    'qo':  ('gcc',   ['-D__OPENMP', '-fopenmp', '-DAdd_', '-w', '-g', '-O1'] + ASAN + ALLOC_RENAMES),
    # Engine Q with the event hooks compiled in (slot-bound oracle of C05/C16), real pthreads
    'qh':  ('gcc',   BASE + ['-O1', '-DSLU_MT_VERIF'] + ASAN + ALLOC_RENAMES + PTHREAD_RENAMES),
    # fast, no sanitizer (bulk enumeration where ASan is run on a sub-grid)
    'qf':  ('gcc',   BASE + ['-O2'] + ALLOC_RENAMES + PTHREAD_RENAMES),
    # Engine S: guard ON, threads/mutexes routed to the baton scheduler
    # exit() of the library's abort path is routed to the engine too: an execution that ends in the documented abort is an outcome, not a crash
    's':   ('gcc',   BASE + ['-O1', '-DSLU_MT_VERIF', '-Dexit=vf_lib_exit'] + ASAN + ALLOC_RENAMES + PTHREAD_RENAMES),
    'sf':  ('gcc',   BASE + ['-O2', '-DSLU_MT_VERIF', '-Dexit=vf_lib_exit'] + ALLOC_RENAMES + PTHREAD_RENAMES),
    # Engine S race build: clang TSan *instrumentation only*, linked against our own runtime
    'sr':  ('clang', BASE + ['-O1', '-DSLU_MT_VERIF', '-Dexit=vf_lib_exit', '-fsanitize=thread', '-mllvm', '-tsan-distinguish-volatile=1']
                     + ALLOC_RENAMES + PTHREAD_RENAMES),
    # Engine P: guard ON, real scheduler functions called from the explicit-state search
    'p':   ('gcc',   BASE + ['-O2', '-DSLU_MT_VERIF'] + ALLOC_RENAMES + PTHREAD_RENAMES),
}

NO_CBLAS = {'qv'}
LINK_EXTRA = {'qv': ['-lopenblas']}

EXCLUDE_SRC = {'sp_ienv.c', 'xerbla.c'}       # provided by the harness (documented override points)
EXCLUDE_CBLAS = {'smyblas2.c', 'dmyblas2.c', 'cmyblas2.c', 'zmyblas2.c'}  # duplicates of SRC/?myblas2.c


def sources():
    src = sorted(f for f in glob.glob(os.path.join(REPO, 'SRC', '*.c')) if os.path.basename(f) not in EXCLUDE_SRC)
    cbl = sorted(f for f in glob.glob(os.path.join(REPO, 'CBLAS', '*.c')) if os.path.basename(f) not in EXCLUDE_CBLAS)
    return src, cbl


def tree_hash(extra=''):
    h = hashlib.sha256()
    files = sorted(glob.glob(os.path.join(REPO, 'SRC', '*.[ch]')) + glob.glob(os.path.join(REPO, 'CBLAS', '*.[ch]')))
    for f in files:
        h.update(f.encode()); h.update(b'\0')
        with open(f, 'rb') as fh:
            h.update(fh.read())
        h.update(b'\0')
    h.update(extra.encode())
    return h.hexdigest()[:16]


def _cc(args):
    r = subprocess.run(args, stdout=subprocess.PIPE, stderr=subprocess.STDOUT, text=True)
    return r.returncode, ' '.join(args), r.stdout


def build(variant, quiet=True):
    """returns (libpath, include_flags, compile_flags, hash)"""
    cc, flags = VARIANTS[variant]
    th = tree_hash(variant + ' '.join(flags))
    d = os.path.join(BUILD, 'lib', '%s-%s' % (variant, th))
    lib = os.path.join(d, 'libslu.a')
    inc = ['-I' + os.path.join(REPO, 'SRC')]
    if os.path.exists(lib):
        try: os.utime(d, None)
        except OSError: pass
        return lib, inc, flags, th
    # drop stale builds of the same variant (keep the 3 most recent: parallel users may still link against them)
    olds = sorted((o for o in glob.glob(os.path.join(BUILD, 'lib', variant + '-*')) if '.tmp' not in o), key=os.path.getmtime)
    import time as _t
    for old in olds[:-6]:
        if _t.time() - os.path.getmtime(old) > 6 * 3600:
            shutil.rmtree(old, ignore_errors=True)
    tmp = d + '.tmp%d' % os.getpid()
    os.makedirs(tmp, exist_ok=True)
    src, cbl = sources()
    if variant in NO_CBLAS:
        cbl = []          # the "vendor BLAS" configuration links the system OpenBLAS, like /repo/_build does
    jobs = []
    for f in src:
        o = os.path.join(tmp, 'S_' + os.path.basename(f)[:-2] + '.o')
        jobs.append([cc] + flags + ['-I' + os.path.join(REPO, 'SRC'), '-c', f, '-o', o])
    for f in cbl:
        o = os.path.join(tmp, 'B_' + os.path.basename(f)[:-2] + '.o')
        jobs.append([cc] + flags + ['-I' + os.path.join(REPO, 'CBLAS'), '-c', f, '-o', o])
    t0 = time.time()
    with concurrent.futures.ThreadPoolExecutor(max_workers=16) as ex:
        res = list(ex.map(_cc, jobs))
    bad = [r for r in res if r[0] != 0]
    if bad:
        sys.stderr.write('vlib: compilation of /repo failed for variant %s:\n%s\n%s\n' % (variant, bad[0][1], bad[0][2]))
        shutil.rmtree(tmp, ignore_errors=True)
        raise SystemExit(2)
    objs = sorted(glob.glob(os.path.join(tmp, '*.o')))
    subprocess.check_call(['ar', 'rcs', os.path.join(tmp, 'libslu.a')] + objs)
    for o in objs:
        os.unlink(o)
    try:
        os.rename(tmp, d)
    except OSError:
        shutil.rmtree(tmp, ignore_errors=True)   # a parallel check built it first
    if not quiet:
        sys.stderr.write('vlib: built %s in %.1fs\n' % (lib, time.time() - t0))
    return lib, inc, flags, th


def harness_flags(variant):
    """flags a harness TU must be compiled with to match the library variant"""
    cc, flags = VARIANTS[variant]
    keep = [f for f in flags if f.startswith('-fsanitize') or f.startswith('-fno-sanitize') or f in ('-D_LONGINT', '-fopenmp', '-D__OPENMP', '-D__PTHREAD', '-DAdd_', '-DSLU_MT_VERIF')]
    if variant == 'sr':
        keep = [f for f in keep if f != '-fsanitize=thread']
    if variant in ('q', 'qv', 'ql', 'qh', 'qf'):
        keep.append('-DVF_INLINE_THREADS')
    return cc, keep


if __name__ == '__main__':
    for v in sys.argv[1:]:
        print(build(v, quiet=False)[0])
