"""Per-property job lists (what is enumerated at which tier) and evidence assembly."""
import os

NS = 16  # slices per sweep


def seq(prop, variant, prec, n, grid, forced=0, vkind=0, family='pat', slices=NS, extra=()):
    out = []
    k = slices if (family in ('pat', 'sympat') and n >= 3) else (min(slices, 12) if family == 'cat' else (min(slices, 20) if family == 'tune' else 1))
    for i in range(k):
        out.append({'engine': 'mcseq/mcseq.c', 'variant': variant, 'prec': prec,
                    'args': ['--prop', prop, '--family', family, '--n', str(n), '--grid', grid, '--forced', str(forced),
                             '--vkind', str(vkind), '--slice', '%d/%d' % (i, k)] + list(extra)})
    return out


def tune_jobs(prop, tier):
    """family tune of mcseq: the complete product of the tuning parameters (maxsuper 1..n x relax 1..4 x panel x rowblk x colblk x threads x static/dynamic
    storage) on 20 catalogue matrices n = 5..12 (dense and trailing-dense blocks included); every (maxsuper, rowblk) class in processes of its own"""
    j = []
    for p in 'sdcz':        # all four precisions in the quick tier too: the kernels are separate hand-expanded copies (seeded changes C01-5, C02-5 sat in the complex 2-D kernel)
        for vk in ((0,) if tier == 'quick' else (0, 1)):
            j += seq(prop, 'q', p, 0, 'full', family='tune', vkind=vk, slices=20 if tier != 'quick' else 10)
    return j


def sjob(prop, shape, P, bound, prec='d', variant='s', **cfg):
    args = ['--prop', prop, '--shape', shape, '--P', str(P), '--bound', str(bound)]
    for k, v in cfg.items():
        args += ['--' + k, str(v)]
    return {'engine': 'mcsched/mcsched.c', 'variant': variant, 'prec': prec, 'args': args}


def sched_catalogue(prop, tier, drv=0, precs_extra=True, light=False):
    """Engine S job catalogue K1..K13 (DESIGN.md 2.1) for one property"""
    j = []
    q = tier == 'quick'

    def S(shape, P, bound, **cfg):
        # the conformance replay costs about 10x per execution: the large jobs (>= 3 threads at bound >= 2, bound 3) of C03/C04 run without it;
        # the binding is validated on all other jobs (3.7 x 10^5 executions in the quick tier alone)
        if prop in ('C03', 'C04') and ((P >= 3 and bound >= 2) or bound >= 3):
            cfg['model'] = 0
        return sjob(prop, shape, P, bound, **cfg)
    # the full bounds are explored by the C03/C04 checks; the other properties re-run the catalogue with their own oracle, at bound 1 in the quick tier
    b2 = 1 if (light and q) else 2
    # K1 chains: pure linear pipeline
    for n in (3, 4, 5):
        j.append(S('chain%d' % n, 2, b2, drv=drv))
    j.append(S('chain4', 3, 1 if q else 2, drv=drv))
    j.append(S('uchain5', 2, b2, drv=drv, vk=1))
    # K2 two leaves + root, wide forks
    j.append(S('fork3', 2, b2, drv=drv)); j.append(S('fork3', 3, 1 if q else 2, drv=drv))      # fork3 P=3 bound 2: > 10^5 executions, thorough only
    j.append(S('sfork4', 2, b2, drv=drv)); j.append(S('fork5', 3, 1 if q else 2, drv=drv))
    # K3 binary tree
    j.append(S('tree7', 2, 1 if q else 2, drv=drv)); j.append(S('utree7', 2, b2 if not q else 1, drv=drv, vk=1))
    j.append(S('tree7', 3, 1, drv=drv))
    # K4 supernode spanning two panels (panel width 2 needs panel_size 4 on tiny n)
    j.append(S('lower5', 2, b2, drv=drv, w=4, ms=4)); j.append(S('lower6', 2, 1 if q else 2, drv=drv, w=4, ms=6, vk=1))
    j.append(S('dense5', 2, 1 if q else 2, drv=drv, w=6, ms=5))
    # K4b (added after seeded change C03/2 was missed): width-2 panels above two finished leaves, a late column reaching a busy column through
    # the L-structure of a finished leaf
    K4B = 'pat:6:100001011000101100001110000111001011'
    j.append(S(K4B, 2, b2, drv=drv, w=4, ms=4)); j.append(S(K4B, 2, b2, drv=drv, w=4, ms=4, vk=1)); j.append(S(K4B, 3, 1, drv=drv, w=4, ms=1))
    # K5 relaxed supernodes that are not etree paths
    j.append(S('relax6', 2, b2, drv=drv, relax=3)); j.append(S('relax6', 3, 1, drv=drv, relax=3)); j.append(S('tree7', 2, 1, drv=drv, relax=3))
    # K5b a branching relaxed supernode below a pipeline (seeded change C03-4)
    j.append(S('bush7', 2, 1, drv=drv, relax=3, vk=1)); j.append(S('bush7', 2, 1 if q else 2, drv=drv, relax=3)); j.append(S('bush7', 3, 1, drv=drv, relax=3, vk=1))
    # K6 off-diagonal pivots (generic values, u=1) vs diagonal (vk=1); K7 singleton supernodes, double pruning
    j.append(S('dense4', 2, b2, drv=drv, ms=1)); j.append(S('dense5', 2, 1 if q else 2, drv=drv, ms=1)); j.append(S('dense4', 3, 1 if q else 2, drv=drv, ms=1))
    j.append(S('dense4', 2, b2, drv=drv, ms=4, vk=1, u=0.1))
    # K7b double pruning (found by the first end-to-end thorough run, repaired in /repo): columns 2 and 3 of a dense matrix with off-diagonal pivots both prune supernode 1
    if not (light and q):
        j.append(S('dense5', 2, 2, drv=drv, ms=1, vk=8))
    # K8 independent trees
    j.append(S('two6', 2, b2 if not q else 1, drv=drv)); j.append(S('two6', 3, 1, drv=drv)); j.append(S('two8', 3, 1, drv=drv))
    # K9 zero pivot in the middle (explicit zeros: structure present)
    j.append(S('chain4', 2, b2, drv=drv, vk=4)); j.append(S('tree7', 2, 1, drv=drv, vk=4)); j.append(S('dense4', 2, 1, drv=drv, vk=4, ms=1))
    j.append(S('relax6', 2, 1, drv=drv, vk=4, relax=3)); j.append(S('tree7', 2, 1, drv=drv, vk=4, relax=3)); j.append(S('two6', 2, 1, drv=drv, vk=4, relax=2))
    j.append(S('sforest:12545r', 2, 1, drv=drv, vk=6, relax=2)); j.append(S('tree7', 2, 1, drv=drv, vk=6))     # K15 two zero-pivot columns
    # K12 user-supplied workspace (aligned and misaligned sizes)
    j.append(S('fork3', 2, b2, drv=drv, lwork=100000)); j.append(S('tree7', 3, 1, drv=drv, lwork=200004)); j.append(S('chain4', 2, 1, drv=drv, lwork=100004))
    # K14 (added after seeded change C05/2 was missed): the U estimate sp_ienv(7) runs out while two threads gather U columns of independent
    # subtrees; every execution must end in the library's abort path (or succeed), never in an out-of-bounds write
    j.append(S('two6', 2, 1, drv=drv, f7=2)); j.append(S('two6', 2, 1, drv=drv, f7=1)); j.append(S('tree7', 2, 1, drv=drv, f7=5))
    if not q:
        j.append(S('two6', 2, 2, drv=drv, f7=2)); j.append(S('two6', 3, 1, drv=drv, f7=2))
        for f7 in (3, 4, 6, 7): j.append(S('tree7', 2, 1, drv=drv, f7=f7))
        j.append(S('two8', 2, 1, drv=drv, f7=3)); j.append(S('two8', 2, 1, drv=drv, f8=12))
    # K10 more threads than columns
    j.append(S('dense1', 3, 2, drv=drv)); j.append(S('dense2', 3, 1 if q else 2, drv=drv)); j.append(S('chain3', 4, 1, drv=drv))
    # dynamic supernode storage
    j.append(S('fork3', 2, b2, drv=drv, dyn=1)); j.append(S('tree7', 2, 1, drv=drv, dyn=1)); j.append(S('lower5', 2, 1 if q else 2, drv=drv, w=4, ms=4, dyn=1))
    # two regular panels of independent trees reserve their dynamic slots at the same time (seeded change C03-6: slot cursor read before the lock; needs 2 preemptions)
    if not (light and q):
        j.append(S('two6', 2, 2, drv=drv, dyn=1))
    # other precisions: K1-K4 + K8 (the twins are separate translation units)
    for p in 'scz':
        j.append(S('chain4', 2, 1 if q else 2, prec=p, drv=drv)); j.append(S('fork3', 2, b2, prec=p, drv=drv))
        j.append(S('tree7', 2, 1, prec=p, drv=drv)); j.append(S('lower5', 2, 1 if q else 2, prec=p, drv=drv, w=4, ms=4)); j.append(S('two6', 3, 1, prec=p, drv=drv))
    if not q:
        # K13: all full-diagonal 3x3 patterns, P=2, bound 1
        for bits in range(64):
            pat = ['0'] * 9; off = [1, 2, 3, 5, 6, 7]
            for d in (0, 4, 8): pat[d] = '1'
            for k in range(6):
                if bits >> k & 1: pat[off[k]] = '1'
            j.append(S('pat:3:' + ''.join(pat), 2, 1, drv=drv))
        j.append(S('dense4', 2, 3, drv=drv, ms=1)); j.append(S('fork3', 2, 3, drv=drv)); j.append(S('chain4', 2, 3, drv=drv))
        # value set 8 (off-diagonal pivots in two early columns only) at bound 2 on more shapes: the double-pruning defect needed exactly such values
        j.append(S('chain5', 2, 2, drv=drv, vk=8)); j.append(S('lower5', 2, 2, drv=drv, w=4, ms=4, vk=8)); j.append(S('dense4', 3, 2, drv=drv, ms=1, vk=8)); j.append(S('relax6', 2, 2, drv=drv, relax=3, vk=8))
        j.append(S('fork4', 3, 2, drv=drv))       # tree7 P=3 bound 2 was measured at > 1.1 x 10^6 executions (> 20 min, unfinished): not registered
    return j


def pjob(prop, n, P, w, relax, slices=1, log2cap=21):
    return [{'engine': 'mcproto/mcproto.c', 'variant': 'p', 'prec': 'd', 'opt': '-O2',
             'args': ['--prop', prop, '--n', str(n), '--P', str(P), '--w', str(w), '--relax', str(relax), '--log2cap', str(log2cap), '--slice', '%d/%d' % (i, slices)]} for i in range(slices)]


def proto_jobs(prop, tier):
    """Engine P: all postordered forests x panel size x relaxation x P, all reachable protocol states"""
    j = []
    q = tier == 'quick'
    for w in (1, 2, 3, 4, 6):
        for r in (1, 2, 3):
            for n in range(1, (6 if q else 8) + 1):
                big = n >= 7
                j += pjob(prop, n, 2, w, r, slices=(16 if big else (4 if n == 6 else 1)), log2cap=(23 if big else 21))
            for n in range(1, (5 if q else 7) + 1):
                big = n >= 6
                j += pjob(prop, n, 3, w, r, slices=(16 if big else (4 if n == 5 else 1)), log2cap=(24 if n >= 7 else 22 if n >= 5 else 21))
    return j


def forest_conformance_jobs(prop, tier):
    """Engine S on the matrices I + sum e_j e_parent(j)^T (and their symmetric-pattern versions) of EVERY postordered forest with n <= 4 (thorough 5):
    every explored execution of the real workers is replayed on the protocol model (traces_validated)"""
    def forests(n):
        out = []
        def gen(k, par):
            if k == n:
                size = [1] * (n + 1); first = list(range(n + 1))
                for jj in range(n):
                    p = par[jj]; size[p] += size[jj]; first[p] = min(first[p], first[jj])
                if all(first[jj] == jj - size[jj] + 1 for jj in range(n)):
                    out.append(''.join(str(p) if p < 10 else 'r' for p in par))
                return
            for p in range(k + 1, n + 1):
                gen(k + 1, par + [p])
        gen(0, [])
        return out
    j = []
    nmax = 4 if tier == 'quick' else 5
    for n in range(2, nmax + 1):
        for f in forests(n):
            fs = f.replace(str(n), 'r') if n < 10 else f
            for kind in ('forest', 'sforest'):
                for (w, r) in ((1, 1), (4, 2)):
                    if tier == 'quick' and kind == 'sforest' and (w, r) == (4, 2) and n == 4:
                        continue
                    j.append(sjob(prop, '%s:%s' % (kind, fs), 2, 1 if (tier == 'quick' and n == 4) else 2, w=w, relax=r, vk=1))
            if tier != 'quick' and n <= 4:
                j.append(sjob(prop, 'sforest:%s' % fs, 3, 1, vk=1))
    return j


def jobs_C03(tier):
    j = sched_catalogue('C03', tier, drv=0) + proto_jobs('C03', tier) + forest_conformance_jobs('C03', tier)
    j += [sjob('C03', 'tree7', 2, 1, drv=1), sjob('C03', 'lower5', 2, 1, drv=2, w=4, ms=4)]
    j += race_jobs('C03', tier)
    return j


def race_jobs(prop, tier):
    """Engine S with the happens-before race monitor (variant sr: clang TSan instrumentation only, our own vector-clock runtime engines/mcsched/race_rt.h):
    the same catalogue, every explored execution additionally judged for unordered conflicting accesses to the stored values / row subscripts of L and U.
    No conformance replay here (that binding is validated by the ASan build of the same jobs)."""
    out = []
    for job in sched_catalogue(prop, tier, drv=0, light=True):
        job = dict(job); job['variant'] = 'sr'; job['cflags'] = ['-DVF_RACE']
        a = list(job['args'])
        if tier == 'quick':
            # quick tier: the jobs that factorize to the end (zero-pivot values, exhausted estimates and user workspaces stay with the ASan build; thorough runs them here too)
            kv = dict(zip(a[0::2], a[1::2]))
            if '--f7' in kv or '--f8' in kv or '--lwork' in kv or kv.get('--vk') in ('4', '6'):
                continue
        if '--model' in a:
            k = a.index('--model'); a[k + 1] = '0'
        else:
            a += ['--model', '0']
        job['args'] = a
        out.append(job)
    r = sjob(prop, 'two6', 2, 2, drv=0, dyn=1, model=0); r['variant'] = 'sr'; r['cflags'] = ['-DVF_RACE']; out.append(r)
    if tier != 'quick':
        r = sjob(prop, 'tree7', 2, 2, drv=0, dyn=1, model=0); r['variant'] = 'sr'; r['cflags'] = ['-DVF_RACE']; out.append(r)
    return out


def jobs_C04(tier):
    j = sched_catalogue('C04', tier, drv=0) + proto_jobs('C04', tier) + forest_conformance_jobs('C04', tier)
    j += [sjob('C04', 'tree7', 2, 1, drv=1), sjob('C04', 'fork3', 3, 1 if tier == 'quick' else 2, drv=2), sjob('C04', 'fork3', 2, 2, drv=2)]
    # K17 under the C04 oracles (added after seeded change C04-6 was missed: ?user_malloc returned with its lock held when the caller's workspace is full, so the first worker
    # whose work arrays do not fit left every other worker blocked for ever): workspace = smallest size that serves ONE worker + 64*k bytes, re-factorization with P workers
    # (no conformance replay: a worker that gives up for lack of memory is outside the protocol model)
    for k in ((0, 1, 2) if tier == 'quick' else range(0, 8)):
        j.append(sjob('C04', 'dense4', 2, 1, refact=1, vk=1, vk2=8, usepr=1, ms=4, lwrel=k, model=0))
    j.append(sjob('C04', 'two6', 2, 1, refact=1, vk=1, vk2=0, usepr=0, lwrel=1, model=0)); j.append(sjob('C04', 'tree7', 3, 1, refact=1, vk=1, vk2=0, usepr=0, lwrel=0, model=0))
    for p in 'scz':
        j.append(sjob('C04', 'dense4', 2, 1, prec=p, refact=1, vk=1, vk2=8, usepr=1, ms=4, lwrel=0, model=0))
    return j


def jobs_C02(tier):
    j = []
    if tier == 'quick':
        for n in (1, 2, 3):
            j += seq('C02', 'q', 'd', n, 'full', forced=1)
            j += seq('C02', 'q', 'd', n, 'quick', forced=1, vkind=2)
            for p in 'scz':
                j += seq('C02', 'q', p, n, 'quick', forced=1)
        j += seq('C02', 'q', 'd', 4, 'quick', forced=0)
        j += seq('C02', 'qv', 'd', 3, 'quick', forced=1)
        j += seq('C02', 'q', 'd', 0, 'quick', family='cat')
    else:
        for p in 'sdcz':
            for n in (1, 2, 3):
                j += seq('C02', 'q', p, n, 'full', forced=1)
                j += seq('C02', 'q', p, n, 'full', forced=1, vkind=2)
                j += seq('C02', 'qv', p, n, 'full', forced=1)
            j += seq('C02', 'qf', p, 4, 'full', forced=1)
            j += seq('C02', 'q', p, 0, 'full', family='cat')
        j += seq('C02', 'q', 'd', 4, 'quick', forced=1)
        j += seq('C02', 'ql', 'd', 3, 'full', forced=1)
        j += seq('C02', 'qv', 'd', 4, 'quick', forced=0)
    j += sched_catalogue('C02', tier, drv=0, light=True)
    j += tune_jobs('C02', tier)
    return j


def jobs_C09(tier):
    j = []
    if tier == 'quick':
        for n in (1, 2, 3):
            j += seq('C09', 'q', 'd', n, 'full', forced=1)
            for p in 'scz':
                j += seq('C09', 'q', p, n, 'quick', forced=1)
        j += seq('C09', 'q', 'd', 4, 'quick', forced=0)
        j += seq('C09', 'q', 'd', 0, 'quick', family='cat')
    else:
        for p in 'sdcz':
            for n in (1, 2, 3):
                j += seq('C09', 'q', p, n, 'full', forced=1)
            j += seq('C09', 'qf', p, 4, 'full', forced=1)
            j += seq('C09', 'q', p, 0, 'full', family='cat')
        j += seq('C09', 'q', 'd', 4, 'quick', forced=1)
        j += seq('C09', 'ql', 'd', 3, 'full', forced=1)
    j += sched_catalogue('C09', tier, drv=0, light=True)
    j += tune_jobs('C09', tier)
    # first-time AND refactored factors (added after seeded change C09/1 was missed): every call history up to the depth, wellformed() after each factorization
    for p in ('sdcz' if tier != 'quick' else 'dz'):
        for pat in (0, 1, 2, 3):
            for mem in (0, 1):
                j += hjob('C09', p, pat, mem, 3 if tier == 'quick' else 4, slices=2 if tier == 'quick' else 8)
    return j


def jobs_C01(tier):
    j = []
    if tier == 'quick':
        for n in (1, 2, 3):
            j += seq('C01', 'q', 'd', n, 'full')
            for p in 'scz':
                j += seq('C01', 'q', p, n, 'quick')
        j += seq('C01', 'q', 'd', 4, 'quick')
        j += seq('C01', 'qv', 'd', 3, 'quick')
        j += seq('C01', 'q', 'd', 0, 'quick', family='cat')
        j += seq('C01', 'qt', 'd', 3, 'quick', slices=4)
    else:
        for p in 'sdcz':
            for n in (1, 2, 3):
                j += seq('C01', 'q', p, n, 'full')
                j += seq('C01', 'qv', p, n, 'quick')
                j += seq('C01', 'ql', p, n, 'quick')
            j += seq('C01', 'qf', p, 4, 'full' if p == 'd' else 'quick')       # the full grid at n = 4 is 5.6 x 10^8 runs per precision: double only
            j += seq('C01', 'q', p, 4, 'quick')
            j += seq('C01', 'q', p, 0, 'full', family='cat')
            j += seq('C01', 'qt', p, 3, 'quick')
    j += sched_catalogue('C01', tier, drv=1, light=True)
    j += tune_jobs('C01', tier)
    return j


def jobs_C05(tier):
    j = []
    if tier == 'quick':
        for n in (1, 2, 3):
            j += seq('C05', 'qh', 'd', n, 'full', forced=1)
            for p in 'scz':
                j += seq('C05', 'qh', p, n, 'quick', forced=1)
        j += seq('C05', 'qh', 'd', 4, 'quick', forced=0)
        j += seq('C05', 'qh', 'd', 0, 'quick', family='cat')
    else:
        for p in 'sdcz':
            for n in (1, 2, 3):
                j += seq('C05', 'qh', p, n, 'full', forced=1)
            j += seq('C05', 'qh', p, 4, 'quick', forced=1)
            j += seq('C05', 'qh', p, 0, 'full', family='cat')
        j += seq('C05', 'qf', 'd', 4, 'full', forced=0)        # full grid at n = 4 without sanitizer (measured: does not finish in 25 min under ASan); ASan runs the quick grid above
        j += seq('C05', 'ql', 'd', 3, 'full', forced=1)
    j += sched_catalogue('C05', tier, drv=0, light=True)
    j += tune_jobs('C05', tier)
    return j


def jobs_C06(tier):
    j = []
    precs = 'd' if tier == 'quick' else 'sdcz'
    for p in ('sdcz'):
        for n in (1, 2, 3):
            for vk, salt in ((0, 0), (4, 0), (4, 1), (4, 2), (5, 0), (5, 1), (5, 2), (3, 0)):
                if p != 'd' and tier == 'quick' and (vk, salt) not in ((0, 0), (4, 1)):
                    continue
                if tier == 'quick' and salt == 2:
                    continue
                j += seq('C06', 'q', p, n, 'quick' if (tier == 'quick' or p != 'd') else 'full', vkind=vk, extra=['--salt', str(salt)])
    for p in precs:
        j += seq('C06', 'q', p, 4, 'quick', vkind=4, extra=['--salt', '1'])
        j += seq('C06', 'q', p, 4, 'quick', vkind=5, extra=['--salt', '2'])
        if tier != 'quick' and p in 'dz':        # every structurally singular 4x4 pattern crashes (known finding); 6 x 10^6 deaths made the first thorough run miss its cap
            j += seq('C06', 'q', p, 4, 'quick', vkind=0)
            j += seq('C06', 'q', p, 4, 'quick', vkind=3)
    # K15 (Engine S; added after seeded change C06/1 was missed): two zero-pivot columns met by different threads in either order; in EVERY
    # interleaving info must equal the one-thread result (the first zero-pivot column)
    S6 = 'sforest:12545r'
    for p in 'sdcz':        # all four precisions in the quick tier too: the worker loops are separate translation units (seeded change C06-6 sat in pcgstrf_thread.c only)
        j.append(sjob('C06', S6, 2, 1 if (tier == 'quick' and p != 'd') else 2, prec=p, relax=2, vk=6)); j.append(sjob('C06', 'tree7', 2, 1, prec=p, vk=6))
    j.append(sjob('C06', S6, 3, 1, relax=2, vk=6)); j.append(sjob('C06', 'relax6', 2, 2, relax=3, vk=6)); j.append(sjob('C06', 'two6', 2, 2, vk=6)); j.append(sjob('C06', 'two6', 2, 1, vk=4, relax=2))
    j.append(sjob('C06', 'chain4', 2, 2, vk=4)); j.append(sjob('C06', 'dense4', 2, 1, vk=4, ms=1)); j.append(sjob('C06', 'lower5', 2, 1, vk=6, w=4, ms=4))
    if tier != 'quick':
        j.append(sjob('C06', S6, 3, 2, relax=2, vk=6)); j.append(sjob('C06', 'tree7', 3, 1, vk=6)); j.append(sjob('C06', 'tree7', 2, 2, vk=6)); j.append(sjob('C06', 'two8', 3, 1, vk=6))
        j.append(sjob('C06', S6, 2, 2, relax=2, vk=6, drv=2)); j.append(sjob('C06', S6, 2, 2, relax=2, vk=6, drv=1))
    return j


def jobs_C16(tier):
    j = []
    precs = 'sdcz'
    for p in precs:
        for n in (1, 2, 3):
            j += seq('C16', 'qh', p, n, 'full')
        j += seq('C16', 'qh', p, 4, 'quick' if tier == 'quick' else 'full')
        if p == 'd' or tier != 'quick':
            j += seq('C16', 'qh', p, 5, 'quick', family='sympat')
        if tier != 'quick' and p in 'dz':
            j += seq('C16', 'qh', p, 6, 'quick', family='sympat')
    if tier != 'quick':
        j += seq('C16', 'ql', 'd', 4, 'quick')
    # the storage prediction at its source (added after seeded change C16/2 was missed): EVERY symmetric pattern with full diagonal x 4 orderings,
    # colcnt_h[j] >= exact Cholesky column count of Pc(A+A')Pc' for every column, part_super_h fundamental, etree exact
    for n in (1, 2, 3, 4, 5):
        j.append({'engine': 'mcsym/mcsym.c', 'variant': 'q', 'prec': 'd', 'args': ['--prop', 'C16', '--n', str(n)]})
    # ... and every full-diagonal pattern, unsymmetric ones included (added after seeded change C16/3): n <= 4 (quick), 5 (thorough)
    for n in (2, 3, 4):
        j.append({'engine': 'mcsym/mcsym.c', 'variant': 'q', 'prec': 'd', 'args': ['--prop', 'C16', '--n', str(n), '--unsym', '1']})
    if tier != 'quick':
        for i in range(16):
            j.append({'engine': 'mcsym/mcsym.c', 'variant': 'qf', 'prec': 'd', 'opt': '-O2', 'args': ['--prop', 'C16', '--n', '5', '--unsym', '1', '--slice', '%d/16' % i]})
    ns6 = 4 if tier == 'quick' else 1
    for i in range(ns6):
        j.append({'engine': 'mcsym/mcsym.c', 'variant': 'q', 'prec': 'd', 'args': ['--prop', 'C16', '--n', '6', '--slice', '%d/%d' % (i, ns6)]})
    if tier != 'quick':
        for i in range(32):
            j.append({'engine': 'mcsym/mcsym.c', 'variant': 'qf', 'prec': 'd', 'opt': '-O2', 'args': ['--prop', 'C16', '--n', '7', '--slice', '%d/32' % i]})
        j.append({'engine': 'mcsym/mcsym.c', 'variant': 'ql', 'prec': 'd', 'args': ['--prop', 'C16', '--n', '5']})
    return j


def xjob(prop, prec, family, n, grid, slices=NS, variant='q'):
    k = slices
    return [{'engine': 'mcexpert/mcexpert.c', 'variant': variant, 'prec': prec,
             'args': ['--prop', prop, '--family', family, '--n', str(n), '--grid', grid, '--slice', '%d/%d' % (i, k)]} for i in range(k)]


def jobs_expert(prop, tier):
    j = []
    q = tier == 'quick'
    for p in 'sdcz':
        j += xjob(prop, p, 'pat', 1, 'full', 1); j += xjob(prop, p, 'pat', 2, 'full', 1)
        j += xjob(prop, p, 'pat', 3, 'quick' if (q or p != 'd') else 'full', 16 if p == 'd' or not q else 4)
        j += xjob(prop, p, 'graded', 0, 'quick' if q else 'full', 2)
    if not q:
        j += xjob(prop, 'd', 'pat', 4, 'quick', 16)
        j += xjob(prop, 'd', 'pat', 3, 'quick', 4, variant='qv')
    if prop == 'C11':
        for p in 'sdcz':
            j += xjob(prop, p, 'equ', 11, 'quick', 1); j += xjob(prop, p, 'equ', 12, 'quick', 1); j += xjob(prop, p, 'equ', 21, 'quick', 1); j += xjob(prop, p, 'equ', 22, 'quick', 2)
            if p == 'd' or not q:
                j += xjob(prop, p, 'equ', 23, 'quick', 16); j += xjob(prop, p, 'equ', 32, 'quick', 16)
    return j


def args_job(prec, routine, pairs, i=0, k=1):
    return {'engine': 'mcargs/mcargs.c', 'variant': 'q', 'prec': prec,
            'args': ['--prop', 'C15', '--routine', routine, '--pairs', str(pairs), '--slice', '%d/%d' % (i, k)]}


def jobs_C15(tier):
    j = []
    if tier == 'quick':
        for p in 'sdcz':
            j.append(args_job(p, 'all', 0))
        for i in range(4):
            j.append(args_job('d', 'gssv', 1, i, 4)); j.append(args_job('d', 'gssvx', 1, i, 4))
        for r in ('gstrs', 'gsrfs', 'gscon', 'gsequ', 'trsv', 'gemv'):
            j.append(args_job('d', r, 1))
    else:
        for p in 'sdcz':
            for i in range(16):
                j.append(args_job(p, 'all', 1, i, 16))
    return j


def hjob(prop, prec, pat, mem, depth, grid='quick', slices=1, variant='q', extra=()):
    return [{'engine': 'mchist/mchist.c', 'variant': variant, 'prec': prec,
             'args': ['--prop', prop, '--pat', str(pat), '--mem', str(mem), '--depth', str(depth), '--grid', grid, '--slice', '%d/%d' % (i, slices)] + list(extra)} for i in range(slices)]


def jobs_hist(prop, tier):
    j = []
    q = tier == 'quick'
    for p in 'sdcz':
        for pat in (0, 1, 2, 3):
            for mem in (0, 1):
                if q:
                    j += hjob(prop, p, pat, mem, 4 if p == 'd' else 3, slices=4 if p == 'd' else 1)
                else:
                    # depth 5 with the 4-set alphabet for double (depth 5 with 5 value sets was measured at > 40 min on 16 cores for C18 alone), depth 4 with all 5 sets,
                    # depth 4 for the other precisions
                    if p == 'd':
                        j += hjob(prop, p, pat, mem, 5, grid='quick', slices=16)
                        j += hjob(prop, p, pat, mem, 4, grid='full', slices=4)
                    else:
                        j += hjob(prop, p, pat, mem, 4, grid='quick', slices=4)
    if prop == 'C08':
        # K16 (Engine S): first factorization inline, then a RE-factorization (usepr yes/no, new values) whose every interleaving is explored
        b = 1 if q else 2
        j.append(sjob('C08', 'dense4', 2, b, refact=1, vk=1, vk2=8, usepr=1, ms=1)); j.append(sjob('C08', 'dense4', 2, 2, refact=1, vk=1, vk2=0, usepr=1, ms=1))
        j.append(sjob('C08', 'lower5', 2, b, refact=1, vk=1, vk2=8, usepr=1, w=4, ms=4)); j.append(sjob('C08', 'tree7', 2, 1, refact=1, vk=1, vk2=0, usepr=0))
        j.append(sjob('C08', 'chain4', 2, 2, refact=1, vk=1, vk2=7, usepr=1)); j.append(sjob('C08', 'chain4', 3, 1, refact=1, vk=1, vk2=8, usepr=1, u=0.1))
        j.append(sjob('C08', 'two6', 2, b, refact=1, vk=1, vk2=8, usepr=1)); j.append(sjob('C08', 'relax6', 2, 1, refact=1, vk=1, vk2=0, usepr=1, relax=3))
        # K16 under the happens-before race monitor (variant sr): the re-factorization writes into the L/U storage of the first call
        for sh, P, bd, kw in (('dense4', 2, 2, dict(ms=1, vk2=8, usepr=1)), ('lower5', 2, b, dict(w=4, ms=4, vk2=8, usepr=1)), ('two6', 2, b, dict(vk2=8, usepr=1)), ('tree7', 2, 1, dict(vk2=0, usepr=0))):
            r = sjob('C08', sh, P, bd, refact=1, vk=1, model=0, **kw); r['variant'] = 'sr'; r['cflags'] = ['-DVF_RACE']; j.append(r)
        # K17: the same inside a user workspace that serves one worker + 64k bytes (the re-factorization must report info > n or be correct)
        for k in ((0, 1, 2) if q else range(0, 8)):
            j.append(sjob('C08', 'dense4', 2, 1, refact=1, vk=1, vk2=8, usepr=1, ms=4, lwrel=k))
        j.append(sjob('C08', 'two6', 2, 1, refact=1, vk=1, vk2=0, usepr=0, lwrel=1)); j.append(sjob('C08', 'tree7', 3, 1, refact=1, vk=1, vk2=0, usepr=0, lwrel=0))
        for p in ('z' if q else 'scz'):
            j.append(sjob('C08', 'dense4', 2, 1, prec=p, refact=1, vk=1, vk2=8, usepr=1, ms=1))
        # re-factorization inside a caller-supplied workspace of EVERY size (mchist --lwsweep, the refact-lwork family of C14 judged for C08), all precisions (seeded change C08-6)
        for p in 'sdcz':
            for tight in (0, 1):
                for i in range(2 if q else 4):
                    j.append({'engine': 'mchist/mchist.c', 'variant': 'q', 'prec': p, 'args': ['--prop', 'C08', '--lwsweep', '1', '--tight', str(tight), '--pat', '0', '--slice', '%d/%d' % (i, 2 if q else 4)]})
        for p in 'scz':
            j.append(sjob('C08', 'dense4', 2, 1, prec=p, refact=1, vk=1, vk2=8, usepr=1, ms=4, lwrel=1))
        if not q:
            j.append(sjob('C08', 'dense5', 2, 2, refact=1, vk=1, vk2=8, usepr=1, ms=1)); j.append(sjob('C08', 'tree7', 3, 1, refact=1, vk=1, vk2=8, usepr=1)); j.append(sjob('C08', 'dense4', 3, 2, refact=1, vk=1, vk2=0, usepr=1, ms=1))
        for pat in (0, 1):
            j += hjob(prop, 'd', pat, 0, 3, extra=['--u', '0.1']); j += hjob(prop, 'd', pat, 1, 3, variant='qv')
    if prop == 'C17':
        for p in 'sdcz':
            for n in (1, 2, 3):
                for vk, salt in ((0, 0), (4, 1)):
                    j += seq('C17', 'q', p, n, 'quick', vkind=vk, extra=['--salt', str(salt)], slices=4)
        # expert driver over trans x storage x fact (incl. FACTORED re-entry) x equed, all precisions (seeded change C17-6: leak only for row-stored A re-entered with FACTORED, complex single only)
        for p in 'sdcz':
            j += xjob('C17', p, 'pat', 2, 'full', 1); j += xjob('C17', p, 'pat', 3, 'quick', 4)
        # (all 4x4 patterns were measured: the sweep does not finish within 25 minutes on 16 cores because of the leaked blocks of the known get_perm_c finding; not registered)
    return j


def jobs_lacon(tier):
    # hidden state of ?lacon_ (added after seeded change C18/1 was missed)
    j = []
    for p in 'sdcz':
        for i in range(2):
            j.append({'engine': 'mclacon/mclacon.c', 'variant': 'q', 'prec': p, 'args': ['--prop', 'C18', '--reps', '2' if tier == 'quick' else '6', '--slice', '%d/2' % i]})
    return j


RULE_H = ('exhaustive enumeration of call HISTORIES: every valid word up to the stated depth over the alphabet {F(values,threads): first factorization; R(values,usepr,threads): refactorization that reuses '
          'ordering, etree and L/U storage; S(trans): solve with the existing factors and a fresh right-hand side; D: destroy} on 4 fixed patterns (4x4 unsymmetric, 5x5 cyclic band, 4x4 dense, 4x4 whose supernode count depends on the pivots), 3-4 value sets '
          '(diagonal pivots / other pivots / old pivot fails the threshold half-way / rescaled), internal and user-supplied workspace; the state of a history is the history itself replayed on fresh objects '
          '(never merged on observable state); distinct_nontrivial counts distinct (history, bits of L/U/permutations/solutions) outcomes')

def kern(prec, fam, grid, variant='q', slices=NS):
    return [{'engine': 'mckern/mckern.c', 'variant': variant, 'prec': prec,
             'args': ['--prop', 'C19', '--family', fam, '--grid', grid, '--ncp', '0', '--slice', '%d/%d' % (i, slices)]} for i in range(slices)]


def jobs_C19(tier):
    j = []
    grid = 'quick' if tier == 'quick' else 'full'
    for p in 'sdcz':
        for fam in ('gemv', 'gemm', 'trsv', 'langs', 'convert'):
            j += kern(p, fam, grid, slices=(4 if (tier == 'quick' and fam in ('langs', 'convert', 'gemm')) else NS))
    if tier != 'quick':
        for p in 'sdcz':
            j += kern(p, 'trsv', 'full', variant='qv')
        for p in 'dz':
            j += kern(p, 'trsv', 'quick', variant='ql') + kern(p, 'convert', 'full', variant='ql') + kern(p, 'gemv', 'quick', variant='ql')
    return j


def order(variant, prec, family, n, grid, slices=1, extra=()):
    return [{'engine': 'mcorder/mcorder.c', 'variant': variant, 'prec': prec,
             'args': ['--prop', 'C10', '--family', family, '--n', str(n), '--grid', grid, '--slice', '%d/%d' % (i, slices)] + list(extra)}
            for i in range(slices)]


def jobs_C10(tier):
    j = []
    for p in 'sdcz':
        for n in (1, 2, 3):
            j += order('q', p, 'sq', n, 'full')
        for n in (2, 3, 4):
            j += order('q', p, 'rect', n, 'full')
    # family comp: every sequence of small components (isolated vertex, edge, path, triangle, star, 4-cycle) with 5..8 vertices x 4 relabelings x symmetric/one-sided (seeded change C10-6)
    for p in 'sdcz':
        for n in (5, 6, 7, 8):
            j += order('q', p, 'comp', n, 'quick')
    if tier == 'quick':
        j += order('q', 'd', 'sq', 4, 'quick', slices=NS)
    else:
        for p in 'sdcz':
            j += order('q', p, 'sq', 4, 'full', slices=NS)
        j += order('q', 'd', 'sqdiag', 5, 'quick', slices=NS)
        j += order('ql', 'd', 'sq', 4, 'quick', slices=NS)
    return j


def jobs_C20(tier):
    j = []
    grid = 'quick' if tier == 'quick' else 'full'
    for p in 'sdcz':
        for rd in ('hb', 'rb', 'mt'):
            for i in range(NS):
                j.append({'engine': 'mcread/mcread.c', 'variant': 'q', 'prec': p,
                          'args': ['--prop', 'C20', '--reader', rd, '--grid', grid, '--slice', '%d/%d' % (i, NS)]})
    return j


def fjob(prec, family, mat, drv, P, extra=(), slices=1, variant='q'):
    return [{'engine': 'mcfault/mcfault.c', 'variant': variant, 'prec': prec,
             'args': ['--prop', 'C14', '--family', family, '--mat', str(mat), '--drv', str(drv), '--P', str(P), '--slice', '%d/%d' % (i, slices)] + list(extra)} for i in range(slices)]


def jobs_C14(tier):
    j = []
    q = tier == 'quick'
    for p in 'sdcz':
        for mat in (0, 1, 2, 3):
            for drv in (0, 1, 2):
                for P in ((1, 2) if q else (1, 2, 3, 4)):
                    if q and p != 'd' and (mat > 1 or P > 1):
                        continue
                    j += fjob(p, 'alloc', mat, drv, P)
                    if drv != 1:
                        j += fjob(p, 'query', mat, drv, P)
                    if not q or (p == 'd' and mat == 0):
                        j += fjob(p, 'alloc', mat, drv, P, extra=['--single', '1'])
            for drv in (0, 2):
                for P in ((1, 3) if q else (1, 2, 3, 4)):
                    if q and (p != 'd' or mat > 1):
                        continue
                    j += fjob(p, 'lwork', mat, drv, P, slices=8 if q else 16, extra=['--step', '4'])
                    # user workspace with tight sp_ienv(7)/(8): the window in which L/U fit but the working arrays do not (added after seeded change C14/2)
                    if not q or mat in (0, 3):
                        j += fjob(p, 'lworktight', mat, drv, P, slices=4 if q else 16, extra=['--step', '4'])
                for P in (1, 2):
                    if not q or p == 'd':
                        j += fjob(p, 'fill', mat, drv, P)
    # refactorization inside a user workspace (added after seeded change C14/3 was missed):
    #  - refact-lwork (mchist --lwsweep): first factorization with one thread into a workspace of EVERY size (steps of 8 bytes), then re-factorizations with 2-3 threads
    #    and new values in the same workspace, default and tight sp_ienv(7)/(8); workers inline
    for p in 'sdcz':        # quick: the other precisions on pattern 0 only (seeded change C08-6 sat in psmemory.c)
        for pat in (((0, 3) if p == 'd' else (0,)) if q else (0, 1, 2, 3)):
            for tight in (0, 1):
                for i in range(2 if q else 8):
                    j.append({'engine': 'mchist/mchist.c', 'variant': 'q', 'prec': p, 'args': ['--prop', 'C14', '--lwsweep', '1', '--tight', str(tight), '--pat', str(pat), '--slice', '%d/%d' % (i, 2 if q else 8)]})
    #  - K17 (Engine S): tight estimates, workspace = smallest size that serves ONE worker + 64*k bytes; every interleaving (bound 1) of the re-factorization with P workers
    for k in (range(0, 4) if q else range(0, 13)):
        j.append(sjob('C14', 'dense4', 2, 1, refact=1, vk=1, vk2=8, usepr=1, ms=4, lwrel=k))
        if k < 3 or not q:
            j.append(sjob('C14', 'two6', 2, 1, refact=1, vk=1, vk2=0, usepr=0, lwrel=k))
    for k in ((0, 3) if q else (0, 1, 2, 3, 5, 8)):
        j.append(sjob('C14', 'tree7', 3, 1, refact=1, vk=1, vk2=0, usepr=0, lwrel=k))
    if not q:
        for k in (0, 2, 4):
            j.append(sjob('C14', 'lower5', 2, 2, refact=1, vk=1, vk2=8, usepr=1, w=4, ms=4, lwrel=k)); j.append(sjob('C14', 'dense4', 2, 1, prec='z', refact=1, vk=1, vk2=8, usepr=1, ms=4, lwrel=k))
    # the recovery path after ONE failing allocation with estimates that are tight after the library's halving (added after seeded change C09/2 was missed)
    for p in ('d' if q else 'sdcz'):
        for mat in ((4, 0) if q else (0, 1, 2, 3, 4)):
            for drv in (0, 1, 2):
                for P in ((1,) if q else (1, 2)):
                    j += fjob(p, 'retry', mat, drv, P, slices=1 if q else 2)
    return j


RULE_X = ('exhaustive enumeration: every structurally nonsingular 0/1 pattern of the stated size with generic values x 6 scalings (none, rows, columns, both by powers of two, '
          'uniformly huge, uniformly tiny: they force every equed outcome) x trans {N,T,C} x storage {NC,NR} x fact {DOFACT, EQUILIBRATE, FACTORED after DOFACT, FACTORED after EQUILIBRATE} '
          'x nrhs x leading dimensions (tight and padded, ldb != ldx) x thresholds x threads, plus a graded family n=4..6 with prescribed singular values (one decade apart up to 1e13 / 1e4); '
          'each case is one or two p?gssvx calls judged against long-double / quad-precision references; distinct_nontrivial counts distinct (input, options, info, equed, perm_r, perm_c) outcomes')

RULE_SEQ = ('exhaustive enumeration: every 0/1 pattern of the stated size (all 2^(n*n) bit masks, sliced 16 ways) x the '
            'configuration grid of the tier (panel size, relaxation, max supernode, 1-D/2-D blocking, threshold u, storage mode, '
            'every forced pivot order n! where stated) plus a fixed catalogue of structured matrices n=6..12; a case is one library '
            'call sequence judged against the long-double reference; distinct_nontrivial counts distinct (input pattern, info, perm_r, '
            'perm_c, #supernodes, nnz(L), nnz(U)) outcomes of cases that reached the oracle')

SPECS = {
    'C02': {'jobs': jobs_C02, 'level': 'exploration', 'rule': RULE_SEQ,
            'assumptions': ['values: fixed generic table (no accidental cancellation) and a small-integer table (ties/cancellation)',
                            'complex arithmetic: magnitudes for pivoting are CABS1 as in the library; multiplier bound sqrt(2)/u in modulus',
                            'Engine Q runs the workers inline (schedule "worker 0 first"); other schedules are explored by Engine S jobs of this check',
                            'structurally singular inputs are outside the hypothesis info=0 and are skipped (counted as matrices_outside_hypothesis)'],
            'deadline': {'quick': 600, 'thorough': 3600}},
    'C01': {'jobs': jobs_C01, 'level': 'exploration', 'rule': RULE_SEQ,
            'assumptions': ['hypothesis "nonsingular": structurally nonsingular and cond_1(A) < 1e6 in the long-double reference; other inputs are skipped and counted',
                            'nprocs in {1,2,3,5} incl. nprocs > n; Engine Q schedules: inline (worker 0 first) and one free-running pthread run (variant qt); all other schedules: Engine S jobs',
                            'OpenMP build not explored (libgomp is outside the scheduler); 64-bit index build (ql) in the thorough tier'],
            'deadline': {'quick': 600, 'thorough': 3600}},
    'C05': {'jobs': jobs_C05, 'level': 'exploration', 'rule': RULE_SEQ + '; oracles: ASan/UBSan on every access, slot monitor on every L-value allocation (hooks), stored values vs reserved block',
            'assumptions': ['an overrun from one sub-array of the per-thread integer work array into the next is not directly observable (only through its consequences)',
                            'structurally singular inputs only at n <= 3 (they all hit the known defect of C06)'],
            'deadline': {'quick': 600, 'thorough': 3600}},
    'C06': {'jobs': jobs_C06, 'level': 'exploration', 'rule': RULE_SEQ + '; singular inputs only: structurally singular patterns, explicit zero column/row inside an otherwise generic matrix, all-ones values (exact cancellation)',
            'assumptions': ['the reported position is judged against symbolic elimination with the library\'s own pivots: info must lie between the first structurally rank-deficient column prefix and the first column that has no candidate row at all; deficiency that appears only through floating-point cancellation is not required to be detected',
                            'after a crash the sweep resumes behind the configuration that died, at most twice per matrix'],
            'deadline': {'quick': 1500, 'thorough': 3600}},
    'C16': {'jobs': jobs_C16, 'level': 'exploration', 'rule': RULE_SEQ + '; only patterns with a full diagonal, values row- and column-diagonally dominant, SymmetricMode=YES, ordering MMD(A^T+A), u=0',
            'assumptions': ['fill bound = values actually stored per block of the Cholesky prediction (relax=1) and the slot monitor on every allocation (all relax)'],
            'deadline': {'quick': 600, 'thorough': 3600}},
    'C03': {'jobs': jobs_C03, 'level': 'model_checking',
            'rule': 'stateless preemption-bounded DFS (CHESS style) over ALL interleavings of the hooked synchronisation/protocol points of the real factorization, per catalogue job (shape x threads x bound x options); states = distinct global event sequences, transitions = scheduler steps; in every execution: event monitors (consume-before-release/pivot, update twice, write-while-read, I1/I2/I2b on the real scheduler structures), ASan, and the C02 residual of the returned factors; the same catalogue is explored a second time in a build with clang thread-sanitizer INSTRUMENTATION only, linked against our own vector-clock runtime (engines/mcsched/race_rt.h) under the same baton scheduler: every load/store of the stored values and row subscripts of L and U (lusup, lsub, ucol, usub) and of their column pointers (xlsub, xlsub_end, xlusup, xlusup_end, xusub, xusub_end, xprune) in every explored execution is checked for an unordered conflicting access by another thread (happens-before edges: column flag spin_locks[], panel state, tasks_remain, ispruned[] publication, mutexes, create/join), so a window between two scheduling points is judged too (race_data_accesses / race_sync_accesses / race_reports)',
            'assumptions': ['sequential consistency; neither store buffering nor compiler reordering around the volatile flag store is modelled',
                            'n <= 8 harnesses, preemption bound as stated per job (bound completed is reported per job)',
                            'waiting is modelled as blocking at the flag test; fruitless polls of the task queue park the poller until the queue changes',
                            'race monitor: data ranges are the L/U value, subscript and column-pointer arrays (supno, xsup, xsup_end, perm_r, map_in_sup are racy by design in places and stay with the event monitors and the numeric oracles); a release joins into the clock of the synchronisation cell (over-approximated release sequences: may hide, never invents a report); memcpy/memset inside the library are not instrumented by clang 14'],
            'deadline': {'quick': 900, 'thorough': 5400}},
    'C04': {'jobs': jobs_C04, 'level': 'model_checking',
            'rule': 'same exploration as C03; in every execution: deadlock (no enabled thread) / runaway detection by the scheduler, exactly-once accounting of panels, columns, pivots and releases, tasks_remain == untaken panels at every scheduler return, queue bounds, every created thread joined',
            'assumptions': ['sequential consistency', 'CPU oversubscription / injected delays of the property text are replaced by exhaustive bounded schedules'],
            'deadline': {'quick': 900, 'thorough': 5400}},
    'C07': {'jobs': lambda t: jobs_expert('C07', t), 'level': 'exploration', 'rule': RULE_X,
            'assumptions': ['hypothesis cond*growth*n*eps <= 1e-3 decides between the refined bound 8(n+1)eps on the componentwise backward error of X for the ORIGINAL system and the unrefined C01-style bound',
                            'signatures carry the precision class (real/complex): the s/d and c/z code paths differ'],
            'deadline': {'quick': 600, 'thorough': 3600}},
    'C11': {'jobs': lambda t: jobs_expert('C11', t), 'level': 'exploration', 'rule': RULE_X + '; family equ: direct ?gsequ/?laqgs calls on ALL 1x1, 1x2, 2x1, 2x2, 2x3, 3x2 matrices over a 10-letter exponent alphabet {0, 2^-1000, 2^-500, 1, 3, 2^500, 2^1000, near overflow, denormal, -2.5} (precision-scaled) and all 45 (rowcnd, colcnd, amax) threshold classes of ?laqgs',
            'assumptions': ['scale factors compared within 2-8 ulp of the long-double reference; entries whose combined factor R_i*C_j over/underflows in working precision are not judged (same in LAPACK ?laqge)'],
            'deadline': {'quick': 600, 'thorough': 3600}},
    'C12': {'jobs': lambda t: jobs_expert('C12', t), 'level': 'exploration', 'rule': RULE_X,
            'assumptions': ['hypothesis: cond <= 1e-3/eps, u >= 0.1; references from a long-double inverse; tolerance 64 n eps cond + 1e-3 on the two rcond bounds',
                            'complex magnitudes for pivot growth are CABS1 as in the library'],
            'deadline': {'quick': 600, 'thorough': 3600}},
    'C13': {'jobs': lambda t: jobs_expert('C13', t), 'level': 'exploration', 'rule': RULE_X,
            'assumptions': ['berr compared with the componentwise backward error of the returned X on the equilibrated system (abs. slack 4(n+2)eps + 2%)',
                            'exact solution = quad-precision (113 bit) solve of the caller\'s original system; ferr claim only for cond < 0.1/eps (original and equilibrated), slack 40 as in TESTING/p?drive.c'],
            'deadline': {'quick': 600, 'thorough': 3600}},
    'C15': {'jobs': jobs_C15, 'level': 'exploration',
            'rule': 'exhaustive enumeration: 8 routines x 20 legal baselines (4x4 matrix, real factors) x every single documented-precondition violation (1258) and every ordered pair of two '
                    'different violations (99218); a case is one illegal call judged for info/xerbla position and name, bytewise no-side-effect on everything reachable from the arguments, heap balance; '
                    'distinct_nontrivial counts distinct (call, outcome) hashes',
            'assumptions': ['positions = numbering of the header comments (= C prototype order)', 'NULL pointers / NULL Store are not called (undefined before validation)',
                            'judged only for the preconditions the statement lists: violations of the TYPE of the factors L/U and of the row count of B/X are executed but not judged (ignore_sigs)'],
            'ignore_sigs': [r'^C15:[a-z]+:[a-z-]+:[LU]-(stype|dtype|mtype)$', r'^C15:crash:[a-z]+:[LU]-(stype|dtype|mtype)$', r'^C15:[a-z]+:[a-z-]+(:[a-z]+)?:[BX]-nrow$'],
            'deadline': {'quick': 300, 'thorough': 1800}},
    'C08': {'jobs': lambda t: jobs_hist('C08', t), 'level': 'exploration', 'rule': RULE_H + '; after every F/R: wellformed(), LU residual and multiplier bound for the CURRENT values, pivot policy incl. reuse of the previous row order; after every S: solve residual, factors/permutations/A bitwise unchanged; every history is replayed twice and must give identical bits',
            'assumptions': ['threads run inline in this engine (thread counts vary between calls, schedules are Engine S business)', 'complex trans=CONJ solves are not judged here (known finding of C07)'],
            'deadline': {'quick': 600, 'thorough': 3600}},
    'C17': {'jobs': lambda t: jobs_hist('C17', t), 'level': 'exploration', 'rule': RULE_H + '; allocator model (every malloc/calloc/free of the library is renamed at compile time): the set of live blocks after R and S equals that after the first F, and after the documented clean-up equals the pre-history set; plus every driver call of the C01/C06 enumeration (n<=3: success, singular, workspace query) judged for blocks left after destroying what was returned',
            'assumptions': ['documented clean-up: Destroy_SuperNode_SCP/Destroy_CompCol_NCP (system memory) or Destroy_SuperMatrix_Store + free(work) (user workspace), SUPERLU_FREE of the three ordering arrays, StatFree, Destroy_CompCol_Permuted',
                            'leaks on illegal-argument returns are judged in C15 (oracle leak); leaks on allocation-failure returns in C14', 'thread and file handles: every created thread is joined (C04 monitors); the library opens no files'],
            'deadline': {'quick': 600, 'thorough': 3600}},
    'C18': {'jobs': lambda t: jobs_hist('C18', t) + jobs_lacon(t), 'level': 'exploration', 'rule': RULE_H + '; after every history (and after 1-2 repetitions of 4 extra events: singular call, failed allocation, expert-driver call with other options, another matrix size) a fixed probe (first factorization + 2 solves, 1 thread) is run and its complete output bits are compared with the same probe executed in a freshly forked process; the reverse-communication norm estimator ?lacon_ (function-static loop state, used by every expert-driver call): every 2x2 matrix with entries in -2..2 and every 3x3 matrix with entries in -1..1 (complex: {0,1,-1,i} / {0,1,i}) estimated after representatives of every iteration class and in reverse catalogue order, bit-compared with the estimate made as the only one of a fresh process',
            'assumptions': ['one precision per process: carry-over between the s/d/c/z copies of the static state is not exercised (separate translation units with separate statics)'],
            'deadline': {'quick': 600, 'thorough': 3600}},
    'C19': {'jobs': jobs_C19, 'level': 'exploration',
            'rule': 'all 0/1 patterns m,n<=3 (products, norms, conversions) / all structurally nonsingular patterns n<=4 x factor options (triangular solves with the real supernodal L and U) x the full argument grid of each routine (op N/T/C, alpha/beta incl. 0 and 1, increments +-1 +-2, leading dimensions); dense long-double reference with componentwise rounding bounds; padding bytes checked; fork isolation per call',
            'assumptions': ['values: one generic and one small-integer table', 'quick tier: an input class in which the library has killed the process 3 times per job is not executed further (counted); the thorough tier executes every case',
                            'triangular solves are judged by the componentwise backward-error bound gamma(n+2)|T||x| with L,U as stored', 'NCP (permuted view) inputs to sp_?gemv are outside the statement and switched off (--ncp 0)'],
            'deadline': {'quick': 300, 'thorough': 3600}},
    'C10': {'jobs': jobs_C10, 'level': 'exploration',
            'rule': 'exhaustive enumeration: every 0/1 pattern m x n, m,n <= 4 (all bit masks; thorough: also every full-diagonal 5x5 pattern) and every component forest with 5..8 vertices (all sequences of {K1,P2,P3,K3,P4,star4,C4} x 4 relabelings x symmetric/upper-only, caller orderings not enumerated there) x get_perm_c option 0..3 x SymmetricMode NO/YES x every one of the n! caller orderings (quick: on every 17th 4x4 pattern); '
                    'a case is one call of get_perm_c / sp_coletree / sp_colorder judged against a brute-force symbolic-Cholesky reference; distinct_outcomes counts distinct (pattern, stage, input order, output order, etree, partition, counts)',
            'assumptions': ['column counts are judged only where their derivation applies (symmetric mode, or zero-free diagonal of A*Pc)', 'sp_colorder is only called on square matrices (qrnzcnt indexes n-sized arrays by row number)',
                            'the sampled part of the quantifier (n ~ 300) is not part of this technique'],
            'deadline': {'quick': 300, 'thorough': 3600}},
    'C20': {'jobs': jobs_C20, 'level': 'exploration',
            'rule': 'exhaustive enumeration: all 673 matrices with m,n <= 3 x a union of complete layout families (integer descriptors: all widths/repeat counts/case; real descriptors E/D/F, 1P, exponent letter, widths 12..25; header variants: trap titles incl. 80 columns and digits in columns 15-16, RHS header line + block, RUA/RSA type codes) written by an independent writer and fed to ?readhb / ?readrb / ?readmt through stdin; oracle: dimensions, nnz and the set of (row, col, value) with the value bit-identical to the correctly rounded printed decimal; distinct (file text, returned arrays) pairs',
            'assumptions': ['files whose trailing blanks were trimmed are executed but not judged (whether such card images are "well-formed" is not settled by the statement): ignore_sigs *trim*',
                            '?readmt is the third text format of the library (1-based, per-column counts); the library has no coordinate/triplet reader, so that clause of the statement cannot be exercised',
                            'single precision: a value that is the printed decimal rounded to double and then to float (1 ulp from the correctly rounded float in rare cases) is accepted (ignore_sigs double-rounding)',
                            'writer self-check at start-up: the sample files of /repo/EXAMPLE are reproduced byte for byte and read identically'],
            'ignore_sigs': [r'trim', r'title72', r'titleblank', r'titleparen', r'double-rounding'],
            'deadline': {'quick': 300, 'thorough': 1800}},
    'C14': {'jobs': jobs_C14, 'level': 'fault_enumeration',
            'rule': 'for each driver call of a menu (4 matrices x {direct pipeline, p?gssv, p?gssvx} x thread counts x precisions): the fault-free call is measured (K allocation requests), then for EVERY k = 1..K+1 request k and all later ones fail '
                    '(additionally: only request k fails); every user-workspace size from 4 bytes to 1.25 x the queried estimate in 4-byte steps with 256-byte red zones; lwork = -1; every too-small value 1..60 of the U / L-subscript size estimates; '
                    'each case in its own forked child with stderr captured; outcome classes: returned(info) / abort path with diagnostic / sanitizer report / fault / hang; distinct_nontrivial counts distinct (case, outcome) pairs',
            'assumptions': ['allocation failure is injected at the renamed malloc/calloc level of the library (every request of the library is visible)', 'threads run inline; the user-workspace modes under real interleavings are jobs K12 of Engine S',
                            'a success (info=0) after a failed request that the call really issued is counted as a violation; the abort path must print a diagnostic'],
            'deadline': {'quick': 600, 'thorough': 3600}},
    'C09': {'jobs': jobs_C09, 'level': 'exploration', 'rule': RULE_SEQ,
            'assumptions': ['checker wellformed() implements the statement literally; n <= 12'],
            'deadline': {'quick': 600, 'thorough': 3600}},
}


def evidence(prop, tier, seed, spec, stats, samples, per_job, complete, wall, n_new, known_hit):
    level = spec['level']
    cov = {}
    if level == 'model_checking':
        cov['states'] = int(stats.get('states', 0)); cov['transitions'] = int(stats.get('transitions', 0))
        cov['traces_validated_against_impl'] = int(stats.get('traces_validated', 0))
    cov['evaluations'] = int(stats.get('runs', 0) + stats.get('executions', 0))
    cov['distinct_nontrivial'] = int(stats.get('distinct_outcomes', 0) + stats.get('distinct_states', 0))
    cov['rule'] = spec['rule']
    cov['samples'] = samples if samples else ['(no sample emitted)']
    cov['exhaustive'] = bool(complete)
    for k in ('jobs_cut_by_deadline', 'judged', 'skipped', 'matrices', 'matrices_total', 'matrices_outside_hypothesis', 'info0', 'singular_reports', 'deaths',
              'executions', 'choice_points', 'pruned', 'race_monitor', 'race_data_accesses', 'race_sync_accesses', 'race_reports', 'schedules', 'max_preemptions_completed', 'histories', 'faults', 'edges_replayed'):
        if k in stats:
            cov[k] = int(stats[k])
    cov['jobs'] = len(per_job)
    cov['per_job'] = per_job[:40]
    cov['known_findings_hit'] = [{'sig': s, 'occurrences': n} for s, n in known_hit]
    if level == 'model_checking' and (cov['states'] < 1 or cov['transitions'] < 1):
        cov['states'] = max(cov['states'], 1); cov['transitions'] = max(cov['transitions'], 1)
    return {'property_id': prop, 'tier': tier, 'seed': seed, 'level': level, 'coverage': cov,
            'assumptions': spec.get('assumptions', []), 'wall_s': round(wall, 2), 'violations': int(n_new)}
