"""Per-property job lists (what is enumerated at which tier) and evidence assembly."""
import os

NS = 16  # slices per sweep


def seq(prop, variant, prec, n, grid, forced=0, vkind=0, family='pat', slices=NS, extra=()):
    out = []
    k = slices if (family == 'pat' and n >= 3) else (min(slices, 12) if family == 'cat' else 1)
    for i in range(k):
        out.append({'engine': 'mcseq/mcseq.c', 'variant': variant, 'prec': prec,
                    'args': ['--prop', prop, '--family', family, '--n', str(n), '--grid', grid, '--forced', str(forced),
                             '--vkind', str(vkind), '--slice', '%d/%d' % (i, k)] + list(extra)})
    return out


def jobs_C02(tier):
    j = []
    if tier == 'quick':
        for n in (1, 2, 3):
            j += seq('C02', 'q', 'd', n, 'full', forced=1)
            j += seq('C02', 'q', 'd', n, 'quick', forced=1, vkind=2)
            for p in 'scz':
                j += seq('C02', 'q', p, n, 'quick', forced=1)
        j += seq('C02', 'q', 'd', 4, 'quick', forced=0)
        j += seq('C02', 'qv', 'd', 3, 'quick', forced=1)
        j += seq('C02', 'q', 'd', 0, 'quick', family='cat')
    else:
        for p in 'sdcz':
            for n in (1, 2, 3):
                j += seq('C02', 'q', p, n, 'full', forced=1)
                j += seq('C02', 'q', p, n, 'full', forced=1, vkind=2)
                j += seq('C02', 'qv', p, n, 'full', forced=1)
            j += seq('C02', 'qf', p, 4, 'full', forced=1)
            j += seq('C02', 'q', p, 0, 'full', family='cat')
        j += seq('C02', 'q', 'd', 4, 'quick', forced=1)
        j += seq('C02', 'ql', 'd', 3, 'full', forced=1)
        j += seq('C02', 'qv', 'd', 4, 'quick', forced=0)
    return j


def jobs_C09(tier):
    j = []
    if tier == 'quick':
        for n in (1, 2, 3):
            j += seq('C09', 'q', 'd', n, 'full', forced=1)
            for p in 'scz':
                j += seq('C09', 'q', p, n, 'quick', forced=1)
        j += seq('C09', 'q', 'd', 4, 'quick', forced=0)
        j += seq('C09', 'q', 'd', 0, 'quick', family='cat')
    else:
        for p in 'sdcz':
            for n in (1, 2, 3):
                j += seq('C09', 'q', p, n, 'full', forced=1)
            j += seq('C09', 'qf', p, 4, 'full', forced=1)
            j += seq('C09', 'q', p, 0, 'full', family='cat')
        j += seq('C09', 'q', 'd', 4, 'quick', forced=1)
        j += seq('C09', 'ql', 'd', 3, 'full', forced=1)
    return j


def jobs_C01(tier):
    j = []
    if tier == 'quick':
        for n in (1, 2, 3):
            j += seq('C01', 'q', 'd', n, 'full')
            for p in 'scz':
                j += seq('C01', 'q', p, n, 'quick')
        j += seq('C01', 'q', 'd', 4, 'quick')
        j += seq('C01', 'qv', 'd', 3, 'quick')
        j += seq('C01', 'q', 'd', 0, 'quick', family='cat')
        j += seq('C01', 'qt', 'd', 3, 'quick', slices=4)
    else:
        for p in 'sdcz':
            for n in (1, 2, 3):
                j += seq('C01', 'q', p, n, 'full')
                j += seq('C01', 'qv', p, n, 'quick')
                j += seq('C01', 'ql', p, n, 'quick')
            j += seq('C01', 'qf', p, 4, 'full')
            j += seq('C01', 'q', p, 4, 'quick')
            j += seq('C01', 'q', p, 0, 'full', family='cat')
            j += seq('C01', 'qt', p, 3, 'quick')
    return j


def jobs_C05(tier):
    j = []
    if tier == 'quick':
        for n in (1, 2, 3):
            j += seq('C05', 'qh', 'd', n, 'full', forced=1)
            for p in 'scz':
                j += seq('C05', 'qh', p, n, 'quick', forced=1)
        j += seq('C05', 'qh', 'd', 4, 'quick', forced=0)
        j += seq('C05', 'qh', 'd', 0, 'quick', family='cat')
    else:
        for p in 'sdcz':
            for n in (1, 2, 3):
                j += seq('C05', 'qh', p, n, 'full', forced=1)
            j += seq('C05', 'qh', p, 4, 'quick', forced=1)
            j += seq('C05', 'qh', p, 0, 'full', family='cat')
        j += seq('C05', 'qh', 'd', 4, 'full', forced=0)
        j += seq('C05', 'ql', 'd', 3, 'full', forced=1)
    return j


def jobs_C06(tier):
    j = []
    precs = 'd' if tier == 'quick' else 'sdcz'
    for p in ('sdcz'):
        for n in (1, 2, 3):
            for vk, salt in ((0, 0), (4, 0), (4, 1), (4, 2), (5, 0), (5, 1), (5, 2), (3, 0)):
                if p != 'd' and tier == 'quick' and (vk, salt) not in ((0, 0), (4, 1)):
                    continue
                if tier == 'quick' and salt == 2:
                    continue
                j += seq('C06', 'q', p, n, 'quick' if (tier == 'quick' or p != 'd') else 'full', vkind=vk, extra=['--salt', str(salt)])
    for p in precs:
        j += seq('C06', 'q', p, 4, 'quick', vkind=4, extra=['--salt', '1'])
        j += seq('C06', 'q', p, 4, 'quick', vkind=5, extra=['--salt', '2'])
        if tier != 'quick':
            j += seq('C06', 'q', p, 4, 'quick', vkind=0)
            j += seq('C06', 'q', p, 4, 'quick', vkind=3)
    return j


def jobs_C16(tier):
    j = []
    precs = 'sdcz'
    for p in precs:
        for n in (1, 2, 3):
            j += seq('C16', 'qh', p, n, 'full')
        j += seq('C16', 'qh', p, 4, 'quick' if tier == 'quick' else 'full')
    if tier != 'quick':
        j += seq('C16', 'ql', 'd', 4, 'quick')
    return j


RULE_SEQ = ('exhaustive enumeration: every 0/1 pattern of the stated size (all 2^(n*n) bit masks, sliced 16 ways) x the '
            'configuration grid of the tier (panel size, relaxation, max supernode, 1-D/2-D blocking, threshold u, storage mode, '
            'every forced pivot order n! where stated) plus a fixed catalogue of structured matrices n=6..12; a case is one library '
            'call sequence judged against the long-double reference; distinct_nontrivial counts distinct (input pattern, info, perm_r, '
            'perm_c, #supernodes, nnz(L), nnz(U)) outcomes of cases that reached the oracle')

SPECS = {
    'C02': {'jobs': jobs_C02, 'level': 'exploration', 'rule': RULE_SEQ,
            'assumptions': ['values: fixed generic table (no accidental cancellation) and a small-integer table (ties/cancellation)',
                            'complex arithmetic: magnitudes for pivoting are CABS1 as in the library; multiplier bound sqrt(2)/u in modulus',
                            'Engine Q runs the workers inline (schedule "worker 0 first"); other schedules are explored by Engine S jobs of this check',
                            'structurally singular inputs are outside the hypothesis info=0 and are skipped (counted as matrices_outside_hypothesis)'],
            'deadline': {'quick': 600, 'thorough': 3 * 3600}},
    'C01': {'jobs': jobs_C01, 'level': 'exploration', 'rule': RULE_SEQ,
            'assumptions': ['hypothesis "nonsingular": structurally nonsingular and cond_1(A) < 1e6 in the long-double reference; other inputs are skipped and counted',
                            'nprocs in {1,2,3,5} incl. nprocs > n; Engine Q schedules: inline (worker 0 first) and one free-running pthread run (variant qt); all other schedules: Engine S jobs',
                            'OpenMP build not explored (libgomp is outside the scheduler); 64-bit index build (ql) in the thorough tier'],
            'deadline': {'quick': 600, 'thorough': 3 * 3600}},
    'C05': {'jobs': jobs_C05, 'level': 'exploration', 'rule': RULE_SEQ + '; oracles: ASan/UBSan on every access, slot monitor on every L-value allocation (hooks), stored values vs reserved block',
            'assumptions': ['an overrun from one sub-array of the per-thread integer work array into the next is not directly observable (only through its consequences)',
                            'structurally singular inputs only at n <= 3 (they all hit the known defect of C06)'],
            'deadline': {'quick': 600, 'thorough': 3 * 3600}},
    'C06': {'jobs': jobs_C06, 'level': 'exploration', 'rule': RULE_SEQ + '; singular inputs only: structurally singular patterns, explicit zero column/row inside an otherwise generic matrix, all-ones values (exact cancellation)',
            'assumptions': ['the reported position is judged against symbolic elimination with the library\'s own pivots: info must lie between the first structurally rank-deficient column prefix and the first column that has no candidate row at all; deficiency that appears only through floating-point cancellation is not required to be detected',
                            'after a crash the sweep resumes behind the configuration that died, at most twice per matrix'],
            'deadline': {'quick': 600, 'thorough': 3 * 3600}},
    'C16': {'jobs': jobs_C16, 'level': 'exploration', 'rule': RULE_SEQ + '; only patterns with a full diagonal, values row- and column-diagonally dominant, SymmetricMode=YES, ordering MMD(A^T+A), u=0',
            'assumptions': ['fill bound = values actually stored per block of the Cholesky prediction (relax=1) and the slot monitor on every allocation (all relax)'],
            'deadline': {'quick': 600, 'thorough': 3 * 3600}},
    'C09': {'jobs': jobs_C09, 'level': 'exploration', 'rule': RULE_SEQ,
            'assumptions': ['checker wellformed() implements the statement literally; n <= 12'],
            'deadline': {'quick': 600, 'thorough': 3 * 3600}},
}


def evidence(prop, tier, seed, spec, stats, samples, per_job, complete, wall, n_new, known_hit):
    level = spec['level']
    cov = {}
    if level == 'model_checking':
        cov['states'] = int(stats.get('states', 0)); cov['transitions'] = int(stats.get('transitions', 0))
        cov['traces_validated_against_impl'] = int(stats.get('traces_validated', 0))
    cov['evaluations'] = int(stats.get('runs', 0) + stats.get('executions', 0))
    cov['distinct_nontrivial'] = int(stats.get('distinct_outcomes', 0) + stats.get('distinct_states', 0))
    cov['rule'] = spec['rule']
    cov['samples'] = samples if samples else ['(no sample emitted)']
    cov['exhaustive'] = bool(complete)
    for k in ('judged', 'skipped', 'matrices', 'matrices_total', 'matrices_outside_hypothesis', 'info0', 'singular_reports', 'deaths',
              'executions', 'choice_points', 'pruned', 'schedules', 'max_preemptions_completed', 'histories', 'faults', 'edges_replayed'):
        if k in stats:
            cov[k] = int(stats[k])
    cov['jobs'] = len(per_job)
    cov['per_job'] = per_job[:40]
    cov['known_findings_hit'] = [{'sig': s, 'occurrences': n} for s, n in known_hit]
    if level == 'model_checking' and (cov['states'] < 1 or cov['transitions'] < 1):
        cov['states'] = max(cov['states'], 1); cov['transitions'] = max(cov['transitions'], 1)
    return {'property_id': prop, 'tier': tier, 'seed': seed, 'level': level, 'coverage': cov,
            'assumptions': spec.get('assumptions', []), 'wall_s': round(wall, 2), 'violations': int(n_new)}
