#!/bin/sh
# usage: try_seed.sh <patch.diff> <prop> [tier]   -- apply a seeded change to /repo, run the check, ALWAYS revert
p="$1"; prop="$2"; tier="${3:-quick}"
cd /repo || exit 2
if ! git apply --check "$p" 2>/dev/null; then echo "PATCH DOES NOT APPLY: $p"; exit 3; fi
git apply "$p"
cd /verif && bin/check "$prop" --tier "$tier" > /tmp/try_seed.out 2>&1; rc=$?
git -C /repo checkout -- . 
echo "rc=$rc"; grep "VIOLATION\|signature\|MACHINERY\|quick:\|thorough:" /tmp/try_seed.out | cut -c1-300 | head -20
exit $rc
