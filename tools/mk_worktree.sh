#!/bin/sh
# usage: mk_worktree.sh <dir>   -- scratch git worktree of /repo HEAD with a configured+built _build (ninja)
set -e
d="$1"
git -C /repo worktree add --detach -f "$d" HEAD >/dev/null 2>&1
cd "$d"
cmake -G Ninja -B _build -S . -DCMAKE_BUILD_TYPE=RelWithDebInfo -DCMAKE_C_FLAGS=-Wno-error >/dev/null 2>&1
cmake --build _build >/dev/null 2>&1
echo "worktree ready: $d"
