#!/usr/bin/env python3
"""Generate /verif/MANIFEST.json from the table below (kept next to bin/jobs.py: a property is claimed
only when its check exists there and has completed on the unchanged tree)."""
import json, os, sys
ROOT = os.path.dirname(os.path.dirname(os.path.abspath(__file__)))
sys.path.insert(0, os.path.join(ROOT, 'bin'))
import jobs

ALL = ['C%02d' % i for i in range(1, 21)]

Q_NOTE = ('Trusted base: the harness (engines/common/*.h: long-double reference elimination, wellformed(), allocator model), gcc/ASan/UBSan, '
          'the renaming of malloc/free/pthread_* at compile time. Bounds: n <= 4 exhaustively, fixed catalogue up to n = 12; values from fixed tables.')

CLAIMS = {
    'C01': dict(cat='exploration', tech='bounded-exhaustive input/configuration enumeration against a long-double reference model (+ preemption-bounded schedule exploration, Engine S)',
                text='Every 0/1 pattern up to n=4 (x storage orientation, nrhs 0..2, ordering, nprocs incl. > n, panel/relax/supernode grid, 4 precisions) is driven through the simple driver; '
                     'info, the componentwise residual bound of the statement (evaluated in long double from the returned factors) and bit-identity of A are checked on every run; B is also passed with leading dimension > n and several columns (padding rows must stay untouched).', ref='5 C01, 10'),
    'C02': dict(cat='exploration', tech='bounded-exhaustive enumeration of patterns x every forced pivot order x option grid against a long-double reference elimination',
                text='All 0/1 patterns n<=4 x all n! forced pivot orders x thresholds x panel/relax/supernode/blocking grid x kernels (built-in, OpenBLAS) x 4 precisions; '
                     'residual |PrAPc-LU| <= gamma_n|L||U|, multiplier bound and the pivot policy (replayed on a reference elimination with tie bands) on every run with info=0. Family tune: the complete product maxsuper 1..n x relax 1..4 x panel {1,2,3,4,6} x rowblk {1,2,200} x colblk {1,2,100} x threads x static/dynamic storage on 20 catalogue matrices n=5..12 (dense and trailing-dense blocks); every (maxsuper,rowblk) class in processes of its own because the 2-D kernels cache these values. Engine S: the schedule catalogue (bound 1 quick, 2 thorough) with the same oracles.', ref='5 C02, 10'),
    'C03': dict(cat='model_checking', engine='mcsched', tech='stateless preemption-bounded schedule exploration (CHESS-style DFS) of the real factorization under a controlled scheduler, with event monitors and a vector-clock happens-before race monitor (clang TSan instrumentation, own runtime) evaluated in every explored execution; explicit-state search of the scheduler protocol (Engine P)',
                text='Every interleaving with at most k preemptions (k per job, 1-3) of the hooked protocol points of the real p?gstrf on a catalogue of n<=8 matrices that force pipelining, parallel leaves, supernodes spanning panels, relaxed supernodes, off-diagonal pivots and double pruning, with 2-4 threads; monitors check on every event that no update uses an unreleased/unpivoted column, no update is applied twice, nobody alters a supernode another thread is reading, and the scheduler hand-out invariant (single busy chain, bcol) on the real structures; the returned factors must satisfy the C02 bound. The same catalogue is explored a second time in a build whose every load/store is instrumented (clang -fsanitize=thread instrumentation only) and checked by our own vector-clock runtime under the same scheduler: an unordered conflicting access to the stored values or row subscripts of L/U (happens-before from column flags, panel states, prune publication, locks, create/join) is a violation even when no scheduling point lies inside the window. In addition Engine P (engines/mcproto) searches breadth-first ALL reachable states of the scheduler protocol - the real pxgstrf_scheduler / ParallelInit / pxgstrf_relax_snode / pxgstrf_mark_busy_descends code called on shadow structures, worker steps from proto_model.h - for every postordered elimination forest with n<=6 (P=2) / n<=5 (P=3) (thorough: 8 / 7), panel sizes 1-6, relax 1-3, checking invariants I1-I7 (dependences of a handed-out panel are done or form the single busy chain, no double hand-out, no lost wake-up, progress rank decreases). The model is bound to the code in both directions: its transitions call the real scheduler functions, and every execution Engine S explores of the real workers is replayed event by event on the model (traces_validated_against_impl, divergence = machinery error).', ref='5 C03, 0.4, 10.2',
                note='Trusted base: the baton scheduler and monitors in engines/mcsched, the hook lines in /repo (add-only, guard SLU_MT_VERIF), ASan. Sequential consistency assumed. Bounds: catalogue shapes n<=8, preemption bound per job as reported in the evidence. Scheduling points: hooked protocol statements, lock, unlock, create, join, thread exit; races between two of them are visible only through their consequences. Thorough tier: the chain forests with n=8 (P=2) and n>=6 (P=3) exceed the state table of Engine P and are reported as not exhausted (state_table_full in the evidence); the Engine S jobs with >= 3 threads at bound >= 2 and with bound 3 run without the conformance replay.'),
    'C04': dict(cat='model_checking', engine='mcsched', tech='stateless preemption-bounded schedule exploration of the real factorization; deadlock = no enabled thread under the controlled scheduler',
                text='Same exploration as C03 (Engine S schedules + Engine P reachable-state search with deadlock-freedom, lost-wake-up and rank/termination checks in every model state). In every execution: the scheduler never finds all threads blocked (deadlock / lost wake-up), no execution exceeds the step horizon (livelock), each panel is handed out once, each column begun/pivoted/released once, tasks_remain equals the number of untaken panels at every scheduler return, the queue stays inside its n slots, every created thread is joined before the driver returns; includes singular inputs and more threads than columns.', ref='5 C04',
                note='Trusted base: as C03. The fruitless-poll rule parks a poller until the task queue changes; it is part of the scheduler model.'),
    'C05': dict(cat='exploration', tech='bounded-exhaustive enumeration under ASan/UBSan with a slot-bound monitor on every L-value allocation (source hooks)',
                text='The C02 enumeration (all patterns n<=4, every forced pivot order = adversarial pivot sequences, orderings 0..3, static/dynamic supernode storage) runs under ASan+UBSan; '
                     'every allocation from an H-supernode slot is checked against the slot end reconstructed from the preset map. Engine S additionally explores every interleaving (bound 1-2) of the catalogue, including jobs where the U estimate sp_ienv(7) runs out while two threads gather U columns (K14): each execution must end in success or in the library abort path, never in an out-of-bounds write.', ref='5 C05, 10'),
    'C06': dict(cat='exploration', tech='bounded-exhaustive enumeration of singular inputs in forked children with crash classification, judged by symbolic elimination',
                text='Every structurally singular pattern n<=3 (n=4 with explicit zero column/row), explicit zeros, exact cancellation, both drivers, nprocs 1..2, 4 precisions; '
                     'outcome must be a normal return with 0<info<=n at a position consistent with symbolic elimination, B/X untouched, objects destroyable; expert driver also with diag_pivot_thresh=0. Engine S (K15): matrices with two zero-pivot columns met by different threads - in EVERY interleaving (bound 1-2, 2-3 threads) info equals the one-thread result.', ref='5 C06, 10'),
    'C07': dict(cat='exploration', engine='mcexpert', tech='bounded-exhaustive enumeration of patterns x scalings x every trans/storage/fact/equed combination of the expert driver against long-double references',
                text='Every nonsingular pattern n<=3 (n=4 thorough) x scalings forcing each equed outcome x trans {N,T,C} x {NC,NR} x {DOFACT,EQUILIBRATE,FACTORED} x nrhs x leading dimensions x 4 precisions: info in {0,n+1}, X solves the ORIGINAL system (componentwise backward error), A_out/B_out equal the scalings the flag reports, padding untouched.', ref='5 C07'),
    'C11': dict(cat='exploration', engine='mcexpert', tech='bounded-exhaustive enumeration over an exponent alphabet (all small matrices) for ?gsequ/?laqgs, and of the driver wiring, against exact references',
                text='All matrices up to 2x3/3x2 over a 10-letter exponent alphabet spanning the whole range (zero rows/columns, denormals, near overflow) through ?gsequ and all threshold classes of ?laqgs; plus the expert-driver wiring on the C07 enumeration: factors, ratios, amax, zero row/column index, apply rule, A_out/B_out.', ref='5 C11'),
    'C12': dict(cat='exploration', engine='mcexpert', tech='bounded-exhaustive enumeration + graded family against a long-double inverse',
                text='rcond between 1/(|A||inv A|) and 1/(|A||inv(A)e/n|) in the norm the statement prescribes (1-norm / inf-norm by transpose option, whatever the storage), info=n+1 iff rcond<eps with X still returned, pivot growth recomputed from the returned factors; on the C07 enumeration and a graded family with prescribed singular values.', ref='5 C12'),
    'C13': dict(cat='exploration', engine='mcexpert', tech='bounded-exhaustive enumeration + graded family against quad-precision exact solutions',
                text='Returned berr equals the recomputed componentwise backward error of the returned X (on the equilibrated system), is O((n+1)eps) for cond<1/sqrt(eps); 40*ferr dominates the true relative error against the quad-precision exact solution of the original system; all trans/equed/precision combinations.', ref='5 C13'),
    'C14': dict(cat='fault_enumeration', engine='mcfault', tech='exhaustive fault enumeration: every allocation index k of every driver call, every user-workspace size, with crash classification in forked children',
                text='For each driver call of a menu (4 matrices x 3 entry paths x 1-4 threads x 4 precisions): request k and all later fail for EVERY k up to the measured number of requests (and single failures); every lwork in 4-byte steps up to 1.25 x the queried estimate with red zones (also with the smallest sufficient sp_ienv(7)/(8), so that the window where L/U fit but the work arrays do not is reached); lwork=-1; every too-small value 1..60 of each tunable estimate sp_ienv(6)/(7)/(8) alone and together; the recovery path of MemInit (estimates tight after the halving x every single failing request). Re-factorization inside a user workspace: first factorization with one thread into a workspace of every size (8-byte steps), then re-factorizations with 2-3 threads (inline workers; default and tight estimates), and under Engine S (K17) every interleaving at bound 1 of the re-factorization in a workspace that serves exactly one worker + 64k bytes. Outcome must be info>n or the abort path with a diagnostic, never a memory error, a hang, a bogus info or success; with a sufficient buffer L/U lie inside it and results equal the internal-memory run; a query creates no thread.', ref='5 C14',
                note='Trusted base: allocation failure injected at the renamed malloc level; outcome classes from exit status + captured stderr; ASan/UBSan. Threads run inline here; K12 jobs of Engine S cover user workspace under real interleavings.'),
    'C15': dict(cat='exploration', engine='mcargs', tech='bounded-exhaustive enumeration of every single and every ordered pair of documented-precondition violations on legal baselines, with bytewise side-effect and heap-balance oracles',
                text='8 routines x 20 legal baseline calls (real factors) x all 1258 single violations and 99218 ordered pairs, 4 precisions: info = -i and one xerbla_ call for the documented position of the first offender, every object reachable from the arguments bytewise unchanged, no allocation retained; crashes attributed per case.', ref='5 C15'),
    'C08': dict(cat='exploration', engine='mchist', tech='bounded-exhaustive enumeration of call histories (operation sequences up to a depth) against reference oracles after every call',
                text='Every valid history up to depth 4 (thorough 5) over {first factor, refactor(values, usepr, threads), solve-with-existing-factors(trans), destroy} on 4 patterns (one whose supernode count depends on the pivots) x value sets x internal/user workspace x 4 precisions; after every call the C02/C09 oracles for the values current at that call, pivot-reuse policy, solve residual, and bitwise immutability of A/L/U/permutations around solves.', ref='5 C08'),
    'C17': dict(cat='exploration', engine='mchist', tech='bounded-exhaustive enumeration of call histories and driver outcomes against an allocator model (plain map of live blocks)',
                text='All library allocations are observable (malloc/free renamed at compile time). For every history of C08 and every driver call outcome (success, singular, workspace query) on all patterns n<=3: live blocks after refactor/solve equal those after the first factorization; after the documented clean-up the heap equals its pre-history state.', ref='5 C17'),
    'C18': dict(cat='exploration', engine='mchist', tech='bounded-exhaustive enumeration of (prefix history, probe) pairs with a differential oracle against a fresh process',
                text='After every history of the C08 alphabet (depth<=4) and after singular / failed-allocation / expert-driver / other-size calls, a fixed probe (first factorization + solves) must produce bit-identical L, U, permutations and solutions to the same probe in a freshly forked process - in the memory mode of the history AND in the other one. The reverse-communication estimator ?lacon_ (function-static state): every 2x2/3x3 small-integer matrix estimated after a representative of every iteration class and in reverse catalogue order, bit-compared with the estimate made alone in a fresh process (engines/mclacon).', ref='5 C18, 10'),
    'C19': dict(cat='exploration', engine='mckern', tech='bounded-exhaustive enumeration of small matrices/factors x the full argument grid of each kernel against dense long-double definitions',
                text='sp_?gemv / sp_?gemm on all patterns m,n<=3 x op {N,T,C} x alpha/beta incl. 0,1 x increments +-1,+-2 x leading dimensions (padding checked); sp_?trsv for all (uplo,trans,diag) on the real supernodal factors of every nonsingular pattern n<=4 x factor options and of a catalogue of four 10x10 matrices whose factors have single-column supernodes in front of several multi-column ones; ?langs all norms; row-to-column conversion, copy and permuted-view constructors; 4 precisions; each call fork-isolated.', ref='5 C19'),
    'C10': dict(cat='exploration', engine='mcorder', tech='bounded-exhaustive enumeration of all small patterns x orderings against a brute-force symbolic-Cholesky reference',
                text='All 0/1 patterns m,n<=4 (thorough: all full-diagonal 5x5) x get_perm_c 0..3 x symmetric mode x every caller ordering: bijection, A*Pc shares and does not alter A, ordering changed only by a postorder, reported etree = etree of (A*Pc)^T(A*Pc) (or of Pc(A+A^T)Pc^T) with contiguous subtrees, partition into consecutive blocks.', ref='5 C10'),
    'C20': dict(cat='exploration', engine='mcread', tech='bounded-exhaustive enumeration of small matrices x file layouts written by an independent writer, read back through stdin',
                text='All matrices m,n<=3 x every integer/real edit descriptor family, exponent letters, header variants, RHS line, type codes, for ?readhb, ?readrb, ?readmt in 4 precisions: plus 7 full matrices with 10-30 entries (header card counts 1..30); same dimensions, nnz and (row, col, value) set with values equal to the printed decimals; hangs at end-of-file and crashes attributed per file.', ref='5 C20'),
    'C09': dict(cat='exploration', tech='bounded-exhaustive enumeration; the statement implemented literally as a checker on every returned factorization',
                text='wellformed(L,U,perm_r,perm_c) checks bijections, supernode partition/maps, row-list shape, U placement, extent disjointness, nnz fields and dependency order on every '
                     'successful factorization of the C02 enumeration, on every execution of the Engine S catalogue (bound 1 quick / 2 thorough), and after every first-time and REFACTORED factorization of every call history up to depth 3 (thorough 4) on the 4 patterns of C08.', ref='5 C09, 10'),
    'C16': dict(cat='exploration', tech='bounded-exhaustive enumeration of full-diagonal patterns in symmetric mode against reference + slot monitor',
                text='All 4096 full-diagonal patterns n<=4 with diagonally dominant values, SymmetricMode, MMD(A^T+A), u=0, static/dynamic storage, 1-2 threads, 4 precisions: C02 oracles, perm_r == perm_c, stored values within the Cholesky reservation; symmetric patterns n=5 (6 thorough). The reservation itself at its source (engines/mcsym): for EVERY symmetric pattern with full diagonal n<=6 (7 thorough) x 4 orderings, colcnt_h[j] >= exact column count of the symbolic Cholesky factor of Pc(A+A^T)Pc^T for every column, part_super_h fundamental, etree exact.', ref='5 C16, 10'),
}


def main():
    checks = []
    for pid in ALL:
        if pid in CLAIMS and pid in jobs.SPECS:
            c = CLAIMS[pid]
            checks.append({
                'property_id': pid,
                'quick_cmd': 'bin/check %s --tier quick' % pid,
                'thorough_cmd': 'bin/check %s --tier thorough' % pid,
                'evidence_file': '/verif/evidence/%s.json' % pid,
                'replay_cmd_template': 'bin/replay {path}',
                'engine': c.get('engine', 'mcseq'),
                'level_claimed': {'category': c['cat'], 'text': c['text'], 'design_ref': 'DESIGN.md section ' + c['ref']},
                'level_note': c.get('note', Q_NOTE),
                'technique': c['tech'],
            })
    na = []
    for pid in ALL:
        if not (pid in CLAIMS and pid in jobs.SPECS):
            na.append({'property_id': pid, 'reason': NOT_YET.get(pid, 'check not built yet (DESIGN.md section 9 gives the construction order); the technique applies')})
    hooks_commits = os.popen("git -C /repo log --format=%h --grep='^verif hooks' ").read().split()
    m = {
        'version': 1,
        'setup_cmd': 'bin/setup',
        'hooks': {
            'guard': 'SLU_MT_VERIF',
            'enable': 'checks compile /repo/SRC and /repo/CBLAS themselves (bin/vlib.py) with -DSLU_MT_VERIF for the hooked variants (s, sr, p, qh); variants q/qf/qv/ql/qt are built with the guard off',
            'baseline_off_cmd': 'bin/baseline_off',
            'source_commits': hooks_commits,
            'add_only': True,
        },
        'engines': [
            {'name': 'mcsym', 'path': 'engines/mcsym', 'serves_properties': ['C16'], 'kind_free_text': 'Engine Q: symmetric-mode column-count prediction (sp_colorder/cholnzcnt) vs symbolic Cholesky by definition, all symmetric patterns'},
            {'name': 'mclacon', 'path': 'engines/mclacon', 'serves_properties': ['C18'], 'kind_free_text': 'Engine Q: hidden state of the reverse-communication norm estimator ?lacon_, exhaustive small-integer catalogue, fresh-process differential oracle'},
            {'name': 'mcproto', 'path': 'engines/mcproto', 'serves_properties': ['C03', 'C04'], 'kind_free_text': 'Engine P: explicit-state breadth-first search of the panel-scheduler protocol over all postordered forests; transitions call the real scheduler functions on shadow structures; Engine S replays every explored execution on this model'},
            {'name': 'mcsched', 'path': 'engines/mcsched', 'serves_properties': ['C01', 'C02', 'C03', 'C04', 'C05', 'C06', 'C09'],
             'kind_free_text': 'Engine S: stateless preemption-bounded DFS over thread interleavings of the real factorization (baton scheduler over renamed pthread calls + source hooks), monitors and end-of-execution oracles in every execution, crash-resumable'},
            {'name': 'mcexpert', 'path': 'engines/mcexpert', 'serves_properties': ['C07', 'C11', 'C12', 'C13'], 'kind_free_text': 'Engine Q: expert-driver enumeration (trans x storage x fact x equed x scalings) against long-double / quad references'},
            {'name': 'mcargs', 'path': 'engines/mcargs', 'serves_properties': ['C15'], 'kind_free_text': 'Engine Q: illegal-argument enumeration (singles and ordered pairs) with side-effect / leak oracles'},
            {'name': 'mchist', 'path': 'engines/mchist', 'serves_properties': ['C08', 'C17', 'C18'], 'kind_free_text': 'Engine Q: call-history enumeration (first factor / refactor / solve / destroy) with per-call oracles, allocator model and fresh-process differential probe'},
            {'name': 'mckern', 'path': 'engines/mckern', 'serves_properties': ['C19'], 'kind_free_text': 'Engine Q: sparse kernels / norms / format conversions vs dense long-double definitions (delegated build, reviewed)'},
            {'name': 'mcorder', 'path': 'engines/mcorder', 'serves_properties': ['C10'], 'kind_free_text': 'Engine Q: orderings / etree / postorder / partition vs brute-force reference (delegated build, reviewed)'},
            {'name': 'mcread', 'path': 'engines/mcread', 'serves_properties': ['C20'], 'kind_free_text': 'Engine Q: file readers vs independent writer (delegated build, reviewed)'},
            {'name': 'mcfault', 'path': 'engines/mcfault', 'serves_properties': ['C14'], 'kind_free_text': 'Engine Q: allocation-fault and workspace-size enumeration, one forked child per case'},
            {'name': 'mcseq', 'path': 'engines/mcseq', 'serves_properties': ['C01', 'C02', 'C05', 'C06', 'C09', 'C16'],
             'kind_free_text': 'Engine Q: bounded-exhaustive enumeration of inputs, options, call histories and faults of the sequential API against long-double reference models, crash-isolated'},
        ],
        'checks': checks,
        'not_applicable': na,
        'notes': 'All checks rebuild the library from /repo\'s working tree (content-hash cache under /verif/build). known_findings.jsonl lists genuine defects that are recorded, not repaired.',
    }
    json.dump(m, open(os.path.join(ROOT, 'MANIFEST.json'), 'w'), indent=1)
    print('MANIFEST.json: %d checks, %d not claimed' % (len(checks), len(na)))


NOT_YET = {}

if __name__ == '__main__':
    main()
