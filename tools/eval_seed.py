#!/usr/bin/env python3
"""Confirm a seeded change produced by a sub-agent and run our checks against it.

usage: eval_seed.py <ID> <k> [--checks C03,C04] [--tier quick] [--skip-confirm]

1. scratch worktree of /repo HEAD under /tmp: build, demo must pass (exit 0);
   apply patch, rebuild, the 48 ctest entries must pass, demo must fail (non-zero).
2. apply the patch to /repo itself, run bin/check for the listed properties, ALWAYS revert.
3. write /verif/seeded/<ID>-<k>/{patch.diff, demo files, meta.json}.
"""
import sys, os, subprocess, json, shutil, argparse, time

ap = argparse.ArgumentParser()
ap.add_argument('pid'); ap.add_argument('k')
ap.add_argument('--checks', default=None); ap.add_argument('--tier', default='quick'); ap.add_argument('--skip-confirm', action='store_true')
ap.add_argument('--demo-timeout', type=int, default=900)
a = ap.parse_args()
src = '/tmp/seed_out/%s/%s' % (a.pid, a.k)
dst = '/verif/seeded/%s-%s' % (a.pid, a.k)
checks = (a.checks or a.pid).split(',')


def sh(cmd, cwd=None, timeout=3600):
    r = subprocess.run(cmd, shell=True, cwd=cwd, stdout=subprocess.PIPE, stderr=subprocess.STDOUT, timeout=timeout)
    return r.returncode, r.stdout.decode('utf-8', 'replace')


res = {'property': a.pid, 'seed': a.k, 'evaluated_at': time.strftime('%Y-%m-%d %H:%M:%S'), 'repo_head': sh('git -C /repo log --format=%h -1')[1].strip()}
agent_meta = {}
try:
    agent_meta = json.load(open(os.path.join(src, 'meta.json')))
except Exception as e:
    agent_meta = {'error': 'meta.json unreadable: %s' % e}
patch = os.path.join(src, 'patch.diff')

if not a.skip_confirm:
    wt = '/tmp/wt/eval_%s_%s' % (a.pid, a.k)
    sh('git -C /repo worktree remove --force %s' % wt)
    rc, out = sh('/verif/tools/mk_worktree.sh %s' % wt)
    conf = {}
    try:
        t0 = time.time()
        rc, out = sh('sh %s/demo.sh %s' % (src, wt), cwd=src, timeout=a.demo_timeout)
        conf['demo_unchanged_rc'] = rc; conf['demo_unchanged_tail'] = out[-600:]
        rc, out = sh('git apply --check %s && git apply %s' % (patch, patch), cwd=wt)
        conf['patch_applies'] = (rc == 0); conf['apply_msg'] = out[-300:]
        if rc == 0:
            rc, out = sh('cmake --build _build 2>&1 | tail -2', cwd=wt); conf['build_rc'] = rc
            oks = 0; runs = 3
            for i in range(runs):
                rc, out = sh('ctest --test-dir _build -j8 --timeout 900 2>&1 | tail -4', cwd=wt)
                if '100% tests passed' in out: oks += 1
            conf['ctest_runs'] = runs; conf['ctest_all_passed_runs'] = oks; conf['ctest_tail'] = out[-300:]
            rc, out = sh('sh %s/demo.sh %s' % (src, wt), cwd=src, timeout=a.demo_timeout)
            conf['demo_changed_rc'] = rc; conf['demo_changed_tail'] = out[-600:]
        conf['confirm_wall_s'] = round(time.time() - t0, 1)
    except subprocess.TimeoutExpired:
        conf['timeout'] = True
    finally:
        sh('git -C /repo worktree remove --force %s' % wt)
    conf['confirmed'] = bool(conf.get('patch_applies') and conf.get('demo_unchanged_rc') == 0 and conf.get('demo_changed_rc', 0) != 0 and conf.get('ctest_all_passed_runs', 0) >= 1)
    res['confirmation'] = conf
    print('confirmation:', json.dumps({k: v for k, v in conf.items() if not k.endswith('_tail')}))

# our checks against the change: in a scratch worktree (VERIF_REPO), so that /repo itself is never touched and several
# evaluations can run side by side; evidence goes to a scratch directory
det = {}
wt2 = '/tmp/wt/chk_%s_%s' % (a.pid, a.k)
sh('git -C /repo worktree remove --force %s' % wt2)
sh('git -C /repo worktree add --detach -f %s HEAD' % wt2)
rc, out = sh('git apply --check %s && git apply %s' % (patch, patch), cwd=wt2)
if rc != 0:
    det['error'] = 'patch does not apply to /repo HEAD: ' + out[-200:]
else:
    try:
        env = 'VERIF_REPO=%s VERIF_EVIDENCE_DIR=/tmp/ev_%s_%s' % (wt2, a.pid, a.k)
        for c in checks:
            t0 = time.time()
            rc, out = sh('%s bin/check %s --tier %s' % (env, c, a.tier), cwd='/verif', timeout=7200)
            lines = [l for l in out.splitlines() if l.startswith('VIOLATION') or 'signature:' in l or l.startswith('MACHINERY')]
            det[c] = {'rc': rc, 'detected': rc == 1, 'wall_s': round(time.time() - t0, 1), 'report': lines[:8]}
            print('check %s: rc=%d %s' % (c, rc, '; '.join(l.strip()[:160] for l in lines[:3])))
    finally:
        pass
sh('git -C /repo worktree remove --force %s' % wt2)
sh('rm -rf /tmp/ev_%s_%s' % (a.pid, a.k))
res['our_checks'] = {'tier': a.tier, 'results': det}
os.makedirs(dst, exist_ok=True)
for f in os.listdir(src):
    p = os.path.join(src, f)
    if os.path.isfile(p) and os.path.getsize(p) < 400000 and not f.endswith('.log'):
        shutil.copy(p, os.path.join(dst, f))
# merge with an earlier evaluation (keep history of which checks caught it)
mp = os.path.join(dst, 'meta.json')
meta = {'property': a.pid, 'breaks': a.pid, 'agent_meta': agent_meta}
meta['needs_to_manifest'] = agent_meta.get('needs_to_manifest')
meta['what_changed'] = agent_meta.get('what_changed')
old = None
if os.path.exists(os.path.join(dst, 'eval.json')):
    old = json.load(open(os.path.join(dst, 'eval.json')))
hist = (old or {}).get('history', [])
hist.append(res)
ev = {'history': hist}
if 'confirmation' in res:
    ev['confirmation'] = res['confirmation']
elif old:
    ev['confirmation'] = old.get('confirmation')
json.dump(ev, open(os.path.join(dst, 'eval.json'), 'w'), indent=1)
meta['confirmed_by_us'] = (ev.get('confirmation') or {}).get('confirmed')
meta['what_we_ran'] = 'tools/eval_seed.py %s %s (scratch worktree: build, demo, apply, rebuild, ctest x3, demo; then bin/check on /repo with the patch applied, reverted afterwards); details in eval.json' % (a.pid, a.k)
json.dump(meta, open(mp, 'w'), indent=1)
