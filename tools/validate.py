#!/usr/bin/env python3
import json, sys, glob, jsonschema
jsonschema.validate(json.load(open('/verif/MANIFEST.json')), json.load(open('/root/.vp/MANIFEST.schema.json'))); print('manifest valid')
for p in sorted(glob.glob('/verif/evidence/*.json')):
    try:
        jsonschema.validate(json.load(open(p)), json.load(open('/root/.vp/EVIDENCE.schema.json'))); print(p, 'valid')
    except Exception as e:
        print(p, 'INVALID', str(e)[:300])
