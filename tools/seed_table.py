#!/usr/bin/env python3
"""Markdown table of the seeded changes in /verif/seeded: confirmed?, first evaluation, latest evaluation, catching signature.
usage: tools/seed_table.py > table.md   (pasted into DESIGN.md section 10)"""
import json, os, glob, re
ROOT = os.path.dirname(os.path.dirname(os.path.abspath(__file__)))
rows = []
for d in sorted(glob.glob(os.path.join(ROOT, 'seeded', '*'))):
    name = os.path.basename(d)
    try:
        meta = json.load(open(os.path.join(d, 'meta.json'))); ev = json.load(open(os.path.join(d, 'eval.json')))
    except Exception:
        continue
    conf = (ev.get('confirmation') or {}).get('confirmed')
    hist = ev.get('history', [])

    def outcome(h):
        res = (h.get('our_checks') or {}).get('results') or {}
        out = []
        for c, r in res.items():
            if not isinstance(r, dict):
                continue
            if r.get('detected'):
                sig = ''
                for l in r.get('report', []):
                    m = re.search(r'signature: (\S+)', l)
                    if m:
                        sig = m.group(1); break
                out.append('%s: caught `%s`' % (c, sig))
            elif r.get('rc') == 0:
                out.append('%s: missed' % c)
            else:
                out.append('%s: rc=%s' % (c, r.get('rc')))
        if res.get('error'):
            out.append(str(res['error'])[:60])
        return '; '.join(out) or '-'
    first = outcome(hist[0]) if hist else '-'
    last = outcome(hist[-1]) if hist else '-'
    what = (meta.get('what_changed') or (meta.get('agent_meta') or {}).get('what_changed') or '').replace('\n', ' ').replace('|', '/')
    files = (meta.get('agent_meta') or {}).get('files_changed') or ''
    if isinstance(files, list):
        files = ', '.join(os.path.basename(f) for f in files)
    rows.append((name, 'yes' if conf else ('no' if conf is False else '?'), files, what[:170], first, last if len(hist) > 1 else '(same)'))
print('| seed | confirmed | file | change (abridged) | first evaluation | latest evaluation |')
print('|---|---|---|---|---|---|')
for r in rows:
    print('| %s | %s | %s | %s | %s | %s |' % r)
