#!/usr/bin/env python3
"""Insert the guarded SLU_MT_VEV(...) hook lines into a SuperLU_MT source tree.

usage: insert_hooks.py <SRC dir>

Every hook is one added line `SLU_MT_VEV(kind,a,b,c);` placed in front of an
existing statement (never between a brace-less control header and its body).
With SLU_MT_VERIF undefined the macro is ((void)0).  The tool is idempotent
(refuses to touch a file that already contains SLU_MT_VEV) and is kept only to
document how the hook commits in /repo were produced; checks never run it.
"""
import sys, os, re

SRC = sys.argv[1] if len(sys.argv) > 1 else '/repo/SRC'

HEADER = '''/*
 * Verification hooks (model-checking harness in /verif).  Everything in this
 * file and every SLU_MT_VEV(...) line in the sources is inert unless the
 * library is compiled with -DSLU_MT_VERIF.
 */
#ifndef SLU_MT_VERIF_H
#define SLU_MT_VERIF_H
#ifdef SLU_MT_VERIF
extern void slu_mt_verif_ev(int kind, long a, long b, long c);
#define SLU_MT_VEV(k,a,b,c) slu_mt_verif_ev((k),(long)(a),(long)(b),(long)(c))
#else
#define SLU_MT_VEV(k,a,b,c) ((void)0)
#endif
enum {
    VE_LOOP_CHECK = 1, /* (pnum, 0, &tasks_remain)   before each poll of tasks_remain   */
    VE_SCHED_RET,      /* (pnum, jcol, bcol)          end of scheduler critical section  */
    VE_SCHED_EMPTY,    /* (pnum, 0, 0)                scheduler returned EMPTY           */
    VE_PANEL_BEGIN,    /* (pnum, jcol, bcol)          worker starts panel jcol           */
    VE_COL_BEGIN,      /* (pnum, jj, jcol)            worker starts column jj of panel   */
    VE_MARK_BUSY,      /* (pnum, jcol, bcol)          entry of mark_busy_descends        */
    VE_MARK_BUSY_END,  /* (pnum, jcol, fsupc)         exit, adjusted bcol                */
    VE_DFS_PERMR,      /* (pnum, row, &perm_r[row])   racy read of perm_r in panel dfs   */
    VE_DFS_VISIT,      /* (pnum, krep, &ispruned[krep]) dfs is about to traverse krep    */
    VE_FLAG_CHECK,     /* (pnum, kcol, &spin_locks[kcol]) test / wait on a column flag   */
    VE_READ_SN_BEGIN,  /* (pnum, fsupc, krep)         numeric use of supernode begins    */
    VE_READ_SN_END,    /* (pnum, fsupc, krep)         ... ends                           */
    VE_NEWSUPER,       /* (pnum, jcol, nsuper)        supernode number handed out        */
    VE_LSUB_ALLOC,     /* (pnum, jcol, offset)        subscript storage handed out       */
    VE_LUSUP_ALLOC,    /* (jcol, num, &map_in_sup[fsupc]) values handed out from the H-slot */
    VE_STORE_COL,      /* (pnum, jcol, fsupc)         column values gathered into lusup  */
    VE_PIVOT_REC,      /* (pnum, jcol, &perm_r[pivrow]) pivot row recorded               */
    VE_ROW_XCHG,       /* (pnum, jcol, fsupc)         in-supernode row interchange       */
    VE_RELEASE,        /* (pnum, jcol, w)             spin_locks[jcol..jcol+w-1] = 0     */
    VE_PRUNE_CHECK,    /* (jcol, irep, &supno[irep+1])                                   */
    VE_PRUNE_SWAP,     /* (jcol, irep, kmin)          partition swap in pruned copy      */
    VE_PRUNE_PUB,      /* (jcol, irep, kmin)          xprune/ispruned published          */
    VE_PANEL_DONE,     /* (pnum, jcol, &state)        STATE(jcol) = DONE                 */
    VE_RACY_READ,      /* (pnum, what, addr)          declared racy-by-design read       */
    VE_THREAD_EXIT,    /* (pnum, info, 0)             worker leaves the main loop        */
    VE_PRESET_MAP,     /* (n, nextpos, map_in_sup)    static/dynamic L-supernode slot map built */
    VE_DYN_SETMAP,     /* (jcol, num, &nextlu)        dynamic mode: slot [nextlu,nextlu+num) for H-supernode jcol */
    VE_COL_SUPER       /* (pnum, jcol, nsuper)        column jcol is about to be entered into supernode nsuper (supno, xsup_end) */
};
#endif
'''

def die(msg):
    print("insert_hooks: " + msg, file=sys.stderr); sys.exit(1)

CONTROL = re.compile(r'^\s*(for|if|while|else)\b[^;{]*$')

def ins(fname, anchor, line, occ='all', after=False):
    path = os.path.join(SRC, fname)
    src = open(path).read().split('\n')
    out = []; n = 0; done = 0
    for i, l in enumerate(src):
        if anchor in l:
            n += 1
            if occ == 'all' or n in occ:
                ind = re.match(r'\s*', l).group(0)
                if after:
                    out.append(l); out.append(ind + line)
                else:
                    # refuse to become the body of a brace-less control statement
                    j = len(out) - 1
                    while j >= 0 and out[j].strip() == '': j -= 1
                    if j >= 0 and CONTROL.match(out[j]) and not out[j].rstrip().endswith('{'):
                        die("%s: anchor %r follows a brace-less control header" % (fname, anchor))
                    out.append(ind + line); out.append(l)
                done += 1
                continue
        out.append(l)
    if done == 0: die("%s: anchor not found: %r" % (fname, anchor))
    if occ != 'all' and done != len(occ): die("%s: anchor %r: wanted occurrences %s, file has %d" % (fname, anchor, occ, n))
    open(path, 'w').write('\n'.join(out))
    return done

def resub(fname, pat, rep, count):
    path = os.path.join(SRC, fname)
    t = open(path).read()
    t2, n = re.subn(pat, rep, t)
    if n != count: die("%s: pattern %r matched %d times, wanted %d" % (fname, pat, n, count))
    open(path, 'w').write(t2)

def main():
    if os.path.exists(os.path.join(SRC, 'slu_mt_verif.h')):
        die("already hooked (slu_mt_verif.h exists)")
    open(os.path.join(SRC, 'slu_mt_verif.h'), 'w').write(HEADER)
    ins('slu_mt_util.h', '#include "slu_mt_machines.h"', '#include "slu_mt_verif.h"', after=True)

    # ---- shared files
    f = 'pxgstrf_scheduler.c'
    ins(f, '    *cur_pan = jcol;', 'SLU_MT_VEV(VE_SCHED_RET, pnum, jcol, *bcol);', after=True)
    f = 'pxgstrf_mark_busy_descends.c'
    ins(f, '    bcol_reg = *bcol;', 'SLU_MT_VEV(VE_MARK_BUSY, pnum, jcol, *bcol);')
    ins(f, '\t*bcol = fsupc;', 'SLU_MT_VEV(VE_MARK_BUSY_END, pnum, jcol, *bcol);', after=True)
    f = 'pxgstrf_pruneL.c'
    ins(f, "\tif ( isupno == supno[irep1] ) continue;\t/* Don't prune */", 'SLU_MT_VEV(VE_PRUNE_CHECK, jcol, irep, &supno[irep1]);')
    ins(f, '\t    if ( ! ispruned[irep] ) {', 'SLU_MT_VEV(VE_RACY_READ, jcol, 2, &ispruned[irep]);')
    ins(f, '\t\t        ktemp = lsub[kmin];', 'SLU_MT_VEV(VE_PRUNE_SWAP, jcol, irep, kmin);')
    ins(f, '\t        xprune[irep] = kmin;\t/* Pruning */', 'SLU_MT_VEV(VE_PRUNE_PUB, jcol, irep, kmin);')
    f = 'pxgstrf_super_bnd_dfs.c'
    ins(f, 'if ( ispruned[krep] ) {', 'SLU_MT_VEV(VE_DFS_VISIT, pnum, krep, &ispruned[krep]);')
    f = 'pmemory.c'
    ins(f, '\t*prev_next = Glu->map_in_sup[fsupc];', 'SLU_MT_VEV(VE_LUSUP_ALLOC, jcol, num, &Glu->map_in_sup[fsupc]);')
    ins(f, '\tmap_in_sup[jcol] = nextlu;', 'SLU_MT_VEV(VE_DYN_SETMAP, jcol, num, &Glu->nextlu);')
    f = 'await.c'
    ins(f, '    while ( *status ) ;', 'SLU_MT_VEV(VE_FLAG_CHECK, -1, -1, status);')

    # ---- per-precision files
    for p in 'sdcz':
        t = 'p%sgstrf_thread.c' % p
        ins(t, '    while ( pxgstrf_shared->tasks_remain > 0 ) {', 'SLU_MT_VEV(VE_LOOP_CHECK, pnum, 0, &pxgstrf_shared->tasks_remain);')
        ins(t, '    } /* while there are more panels */', '    SLU_MT_VEV(VE_LOOP_CHECK, pnum, 1, &pxgstrf_shared->tasks_remain);')
        ins(t, '\tif ( jcol != EMPTY ) {', 'if ( jcol == EMPTY ) SLU_MT_VEV(VE_SCHED_EMPTY, pnum, 0, 0);')
        ins(t, '\t    w = pxgstrf_shared->pan_status[jcol].size;', 'SLU_MT_VEV(VE_PANEL_BEGIN, pnum, jcol, bcol);', occ=[1], after=True)
        # relaxed supernode: one RELEASE event in front of the (brace-less) release loop
        ins(t, '\t\tfor (jj = jcol; jj < jcol + w; ++jj) ', 'SLU_MT_VEV(VE_RELEASE, pnum, jcol, w);')
        ins(t, '\t\t    k = (jj - jcol) * m; /* index into w-wide arrays */', 'SLU_MT_VEV(VE_COL_BEGIN, pnum, jj, jcol);')
        ins(t, '\t\t    pxgstrf_shared->spin_locks[jj] = 0;', 'SLU_MT_VEV(VE_RELEASE, pnum, jj, 1);', occ=[2])
        ins(t, '\t    STATE( jcol ) = DONE; /* Release panel jcol. */', 'SLU_MT_VEV(VE_PANEL_DONE, pnum, jcol, &STATE( jcol ));')
        ins(t, '    *info = singular;', 'SLU_MT_VEV(VE_THREAD_EXIT, pnum, singular, 0);')
        f = 'p%sgstrf_panel_dfs.c' % p
        ins(f, '\t    kperm = perm_r[krow];', 'SLU_MT_VEV(VE_DFS_PERMR, pnum, krow, &perm_r[krow]);')
        ins(f, '\t\t\t\tchperm = perm_r[kchild];', 'SLU_MT_VEV(VE_DFS_PERMR, pnum, kchild, &perm_r[kchild]);')
        ins(f, 'if ( ispruned[krep] ) {', 'SLU_MT_VEV(VE_DFS_VISIT, pnum, krep, &ispruned[krep]);')
        f = 'p%sgstrf_column_dfs.c' % p
        ins(f, 'if ( ispruned[krep] ) {', 'SLU_MT_VEV(VE_DFS_VISIT, pnum, krep, &ispruned[krep]);')
        ins(f, '\txsup[nsuper] = jcol;', 'SLU_MT_VEV(VE_NEWSUPER, pnum, jcol, nsuper);')
        ins(f, '\txlsub[jcol] = ito;', 'SLU_MT_VEV(VE_LSUB_ALLOC, pnum, jcol, ito);', occ=[1])
        f = 'p%sgstrf_snode_dfs.c' % p
        ins(f, '    Glu->xsup[nsuper]     = jcol;', 'SLU_MT_VEV(VE_NEWSUPER, pnum, jcol, nsuper);')
        ins(f, '    xlsub[jcol] = ito;', 'SLU_MT_VEV(VE_LSUB_ALLOC, pnum, jcol, ito);')
        f = 'p%sgstrf_factor_snode.c' % p
        ins(f, '    nextu        = Glu->nextu;', 'SLU_MT_VEV(VE_RACY_READ, pnum, 1, &Glu->nextu);')
        f = 'p%sgstrf_panel_bmod.c' % p
        ins(f, 'if ( pxgstrf_shared->spin_locks[kcol] ) {', 'SLU_MT_VEV(VE_FLAG_CHECK, pnum, kcol, &pxgstrf_shared->spin_locks[kcol]);')
        f = 'p%sgstrf_pivotL.c' % p
        ins(f, 'perm_r[*pivrow] = jcol;', 'SLU_MT_VEV(VE_PIVOT_REC, pnum, jcol, &perm_r[*pivrow]);')
        ins(f, '    if ( pivptr != nsupc ) {', 'if ( pivptr != nsupc ) SLU_MT_VEV(VE_ROW_XCHG, pnum, jcol, fsupc);')
        ins('p%smemory.c' % p, '    free (marker);', 'SLU_MT_VEV(VE_PRESET_MAP, n, nextpos, map_in_sup);')
        f = 'p%sgstrf_column_bmod.c' % p
        ins(f, '\t    fsupc = xsup[ksupno];', 'SLU_MT_VEV(VE_READ_SN_BEGIN, pnum, fsupc, krep);', after=True)
        ins(f, '\t} /* if jsupno ... */', '    SLU_MT_VEV(VE_READ_SN_END, pnum, fsupc, krep);')
        ins(f, '    xlusup[jcol] = nextlu;', 'SLU_MT_VEV(VE_STORE_COL, pnum, jcol, fsupc);')
        f = 'p%sgstrf_panel_bmod.c' % p
        ins(f, '\tif ( nsupc >= colblk && nrow >= rowblk ) {', 'SLU_MT_VEV(VE_READ_SN_BEGIN, pnum, fsupc, krep);')
        resub(f, r'(\n\t\}[ \t]*\n[ \t]*\n)(#ifdef PREDICT_OPT\n\tpmod = Gstat->procstat\[pnum\]\.fcops - pmod;)',
              r'\1\tSLU_MT_VEV(VE_READ_SN_END, pnum, fsupc, krep);\n\2', 2)
    print("hooks inserted")

main()

# commit ac1395a (conformance replay of Engine S): in p?gstrf_column_dfs.c, before `supno[jcol] = nsuper;`
#     SLU_MT_VEV(VE_COL_SUPER, pnum, jcol, nsuper);
