/* Engine Q (part 1): bounded-exhaustive enumeration of inputs x configurations for the
 * factor/solve properties C01 C02 C05 C06 C09 C16, judged against long-double references.
 *
 * usage: mcseq --prop C02 --family pat --n 3 --grid full|quick [--slice i/k] [--forced 1] ...
 *        mcseq --prop C02 --one "<case string>"      (replay of one case, no enumeration)
 */
#include "../common/factor.h"

static const char *PROP = "C02";
/* all counters live in memory shared with the forked children */
typedef struct { long cfg_no, resume_cfg, resumes, cancel_only; long runs, judged, skipped, viol, info0, singular, deaths, distinct, hyp_skipped; int samples_left; unsigned long long dh[1 << 16]; } shared_counters_t;
static shared_counters_t *G;
#define n_runs G->runs
#define n_judged G->judged
#define n_skipped G->skipped
#define n_viol G->viol
#define n_info0 G->info0
#define n_singular G->singular
#define n_deaths G->deaths
#define n_distinct G->distinct
#define samples_left G->samples_left
#define distinct_hash G->dh
static int fail_fast = 0;

static void note_distinct(unsigned long long h) {
    unsigned k = (unsigned)(h >> 20) & 0xffff;
    for (int t = 0; t < 64; t++) { unsigned s = (k + t) & 0xffff; if (distinct_hash[s] == h) return; if (!distinct_hash[s]) { distinct_hash[s] = h; n_distinct++; return; } }
}
static unsigned long long hmix(unsigned long long h, unsigned long long v) { h ^= v + 0x9E3779B97F4A7C15ULL + (h << 6) + (h >> 2); return h; }

/* ---------- case description string: everything needed to replay ---------- */
static int case_str(const tmat_t *T, int salt, int vkind, const fcfg_t *c, char *b, size_t bl) {
    int o = snprintf(b, bl, "n=%d pat=", T->n);
    for (int i = 0; i < T->n; i++) for (int j = 0; j < T->n; j++) { int nz = 0; for (int k = T->colptr[j]; k < T->colptr[j + 1]; k++) if (T->rowind[k] == i) nz = 1; b[o++] = nz ? '1' : '0'; }
    o += snprintf(b + o, bl - o, " salt=%d vk=%d ", salt, vkind);
    o += fcfg_str(c, b + o, bl - o);
    return o;
}

/* value kinds: 0 generic, 1 diagonally dominant (row+column), 2 small integers (exact cancellation possible), 3 ones */
static ldc value_of(int vkind, int salt, int i, int j, int n) {
    switch (vkind) {
    case 1: return i == j ? (ld)(2 * n + 1 + ((i + salt) % 3)) : generic_value(i, j, salt) / 4;
    case 2: { static const int t[] = { 1, 2, -1, 3, 1, -2, 2, 1, 4, -1, 1, 2 }; int k = (i * 5 + j * 3 + salt) % 12; if (k < 0) k += 12; return (ld)t[k]; }
    case 3: return 1;
    case 4: return j == salt % (n > 0 ? n : 1) ? 0 : generic_value(i, j, salt);     /* explicit zero column */
    case 5: return i == salt % (n > 0 ? n : 1) ? 0 : generic_value(i, j, salt);     /* explicit zero row */
    default: return generic_value(i, j, salt);
    }
}
static void build_pattern_matrix(tmat_t *T, int n, unsigned long long bits, int vkind, int salt) {
    int pat[NMAX][NMAX]; ldc D[NMAX][NMAX];
    for (int i = 0; i < n; i++) for (int j = 0; j < n; j++) { pat[i][j] = (bits >> (i * n + j)) & 1; D[i][j] = value_of(vkind, salt, i, j, n); }
    tm_from_dense(T, n, n, pat, D);
}

/* ---------- judges ---------- */
#define VIOL(sig, ...) do { n_viol++; out_violation(PROP, sig, cs, __VA_ARGS__); if (fail_fast) { fflush(NULL); } } while (0)

static const char *sing_class(const tmat_t *T) {
    int n = T->n, rowcnt[NMAX] = { 0 }; int emptycol = 0, emptyrow = 0;
    for (int j = 0; j < n; j++) { if (T->colptr[j + 1] == T->colptr[j]) emptycol = 1; for (int k = T->colptr[j]; k < T->colptr[j + 1]; k++) rowcnt[T->rowind[k]]++; }
    for (int i = 0; i < n; i++) if (!rowcnt[i]) emptyrow = 1;
    return emptycol ? "empty-column" : emptyrow ? "empty-row" : "rank-deficient";
}

/* smallest k (1-based) such that the first k columns of A*Pc have structural rank < k; 0 if none */
static int predicted_singular_pos(const tmat_t *T, const int_t *perm_c) {
    int n = T->n, pat[NMAX][NMAX], cols[NMAX]; memset(pat, 0, sizeof pat);
    for (int j = 0; j < n; j++) for (int k = T->colptr[j]; k < T->colptr[j + 1]; k++) if (T->val[k] != 0) pat[T->rowind[k]][j] = 1;
    for (int j = 0; j < n; j++) cols[perm_c[j]] = j;
    for (int k = 1; k <= n; k++) if (struct_rank_prefix(n, pat, cols, k) < k) return k;
    return 0;
}

/* Symbolic elimination of the effective pattern (stored entries with nonzero value) in A*Pc column order, following the
 * library's own pivot rows: first step (1-based) at which the column has no candidate row at all; 0 if none; -1 if the
 * recorded pivots are not consistent with the structure (not judged). */
static int symbolic_first_empty(const tmat_t *T, const int_t *perm_r, const int_t *perm_c, int upto) {
    int n = T->n; unsigned S[NMAX]; unsigned pivoted = 0; int col_of[NMAX];
    for (int j = 0; j < n; j++) { if (perm_c[j] < 0 || perm_c[j] >= n) return -1; col_of[perm_c[j]] = j; }
    for (int k = 0; k < n; k++) { S[k] = 0; int j = col_of[k]; for (int q = T->colptr[j]; q < T->colptr[j + 1]; q++) if (T->val[q] != 0) S[k] |= 1u << T->rowind[q]; }
    for (int k = 0; k < n && k < upto; k++) {
        unsigned cand = S[k] & ~pivoted;
        if (!cand) return k + 1;
        int p = -1; for (int i = 0; i < n; i++) if (perm_r[i] == k) p = i;
        if (p < 0 || !(cand & (1u << p))) return -1;
        for (int c2 = k + 1; c2 < n; c2++) if (S[c2] & (1u << p)) S[c2] |= cand;
        pivoted |= 1u << p;
    }
    return 0;
}

static int has_isolated_vertex(const tmat_t *T) {
    int n = T->n, deg[NMAX] = { 0 };
    for (int j = 0; j < n; j++) for (int k = T->colptr[j]; k < T->colptr[j + 1]; k++) if (T->rowind[k] != j) { deg[j]++; deg[T->rowind[k]]++; }
    for (int j = 0; j < n; j++) if (!deg[j]) return 1;
    return 0;
}
static void judge(const tmat_t *T, const mref_t *m, int vkind, const fcfg_t *c, const fres_t *r, const char *cs)
{
    int n = T->n; char msg[400]; msg[0] = 0;
    const char *c16cls = has_isolated_vertex(T) ? ":isolated-vertices" : "";
    n_runs++;
    unsigned long long h = 1469598103934665603ULL;
    h = hmix(h, r->info); for (int i = 0; i < n; i++) { h = hmix(h, r->perm_r[i]); h = hmix(h, r->perm_c[i] * 31); } h = hmix(h, r->nsuper); h = hmix(h, r->Lnnz * 7 + r->Unnz);
    for (int j = 0; j < T->n; j++) h = hmix(h, T->colptr[j + 1] * 131 + j); for (int k = 0; k < T->nnz; k++) h = hmix(h, T->rowind[k]);
    note_distinct(h);
    if (r->info == 0) n_info0++; else if (r->info > 0 && r->info <= n) n_singular++;
    int generic = (vkind == 0 || vkind == 1 || vkind == 4 || vkind == 5);   /* nonzero entries never cancel exactly */

    if (!strcmp(PROP, "C09")) {
        if (r->info != 0) { n_skipped++; return; }
        n_judged++;
        if (r->wf) { char sig[64]; snprintf(sig, sizeof sig, "C09:wellformed:code%d", r->wf); VIOL(sig, "%s", r->wfmsg); }
        return;
    }
    if (!strcmp(PROP, "C02") || !strcmp(PROP, "C16")) {
        if (r->info != 0) { n_skipped++; if (!strcmp(PROP, "C02")) return; }
        if (r->info == 0 && r->wf) {       /* malformed factors: nothing to multiply; they cannot satisfy Pr A Pc = L U either */
            n_skipped++;
            if (!strcmp(PROP, "C02")) VIOL("C02:malformed-factors", "info=0 but the returned L/U are not well-formed: %s", r->wfmsg);
            if (!strcmp(PROP, "C16")) { char sg2[96]; snprintf(sg2, sizeof sg2, "C16:slot%s%s", c->dyn ? ":dynamic-store" : "", c16cls); if (r->slot_overflow) VIOL(sg2, "%s", r->slotmsg); char sig[96]; snprintf(sig, sizeof sig, "C16:wellformed:code%d%s%s", r->wf, c->dyn ? ":dynamic-store" : "", c16cls); VIOL(sig, "%s", r->wfmsg); }
            return; }
        if (r->info == 0) {
            n_judged++;
            ldc M[NMAX][NMAX]; ld ratio;
            permuted_A(r->A, n, r->perm_r, r->perm_c, M);
            char s1[96], s2[96], s3[96]; char sfxb[64]; snprintf(sfxb, sizeof sfxb, "%s%s", (!strcmp(PROP, "C16") && c->dyn) ? ":dynamic-store" : "", !strcmp(PROP, "C16") ? c16cls : ""); const char *sfx = sfxb;
            snprintf(s1, sizeof s1, "%s:residual%s", PROP, sfx); snprintf(s2, sizeof s2, "%s:multiplier%s", PROP, sfx); snprintf(s3, sizeof s3, "%s:policy%s%s", PROP, c->forced ? ":usepr" : "", sfx);
            if (check_lu_residual(M, r->Ld, r->Ud, n, &ratio, msg, sizeof msg)) VIOL(s1, "%s", msg);
            if (check_multipliers(r->Ld, n, c->u, msg, sizeof msg)) VIOL(s2, "%s", msg);
            int_t up[NMAX]; for (int i = 0; i < n; i++) up[i] = c->force_pos[i];
            int pp = check_pivot_policy(r->A, n, r->perm_r, r->perm_c, c->u, c->forced ? up : NULL, msg, sizeof msg);
            if (pp == 1) VIOL(s3, "%s", msg);
        }
        if (!strcmp(PROP, "C16")) {
            /* every pivot is the original diagonal entry; fill within the symmetric prediction; storage slot respected */
            if (r->info != 0) { VIOL("C16:info", "diagonally dominant input reported info=%d", r->info); return; }
            for (int i = 0; i < n; i++) if (r->perm_r[i] != r->perm_c[i]) { VIOL("C16:offdiag-pivot", "perm_r[%d]=%d != perm_c[%d]=%d", i, (int)r->perm_r[i], i, (int)r->perm_c[i]); break; }
            if (c->relax == 1) for (int j = 0; j < n; j++) if (r->part_super_h[j] > 0) {
                /* block j of the symmetric prediction reserves width*count values; the columns stored in it must fit */
                long used = 0; int wj = (int)r->part_super_h[j];
                for (int k = j; k < j + wj && k < n; k++) used += r->nsupr_of[k];
                if (used > (long)wj * r->colcnt_h[j]) { VIOL("C16:fill", "columns %d..%d of L store %ld values; the Cholesky prediction reserved %d x %d", j, j + wj - 1, used, wj, (int)r->colcnt_h[j]); break; }
            }
            { char sg2[96]; snprintf(sg2, sizeof sg2, "C16:slot%s%s", c->dyn ? ":dynamic-store" : "", c16cls); if (r->slot_overflow) VIOL(sg2, "%s", r->slotmsg); }
        }
        return;
    }
    if (!strcmp(PROP, "C01")) {
        /* hypothesis: numerically nonsingular and not ill-conditioned beyond 1e6 (so that "nonsingular" is not a rounding question) */
        if (!m->num_nonsing || !(m->cond1 < 1e6L)) { n_skipped++; return; }
        n_judged++;
        if (r->info != 0) { VIOL("C01:info", "nonsingular input (cond1=%.3Lg) but info=%d", m->cond1, r->info); return; }
        if (r->a_changed) VIOL("C01:A-modified", "A differs from the pristine copy (part %d)", r->a_changed);
        if (r->pad_touched) VIOL("C01:B-padding-touched", "rows n..ldb-1 of %s (leading dimension n+%d) were written", r->pad_touched == 1 ? "B" : "X", c->ldb_extra);
        if (r->wf) { n_skipped++; return; }
        ld ratio;
        if (c->nrhs > 0 && check_solve_residual(r->A, n, r->perm_r, r->perm_c, r->Ld, r->Ud, c->as_nr, r->B0, r->X, c->nrhs, n, &ratio, msg, sizeof msg))
            VIOL("C01:residual", "%s", msg);
        return;
    }
    if (!strcmp(PROP, "C06")) {
        /* hypothesis: singular input.  structurally singular, or (vkind 2/3) exact cancellation detected by the reference */
        /* R: first column prefix of A*Pc that is structurally rank deficient; E: first column that has no candidate row at all
         * when the library's own pivots are followed symbolically.  Exact zeros are guaranteed only at E (deficiency that shows
         * up through cancellation need not give an exactly zero pivot in floating point, and the statement does not ask for it). */
        int R = predicted_singular_pos(T, r->perm_c);
        if (R == 0 && m->num_nonsing) { n_skipped++; return; }
        const char *cls = m->struct_nonsing ? "explicit-zeros" : sing_class(T);
        if (generic) {
            if (r->info == 0 || (c->driver == DRV_GSSVX && r->info == n + 1)) {     /* n+1: "singular to working precision", the documented answer when no exact zero was met */
                int E = symbolic_first_empty(T, r->perm_r, r->perm_c, n);
                if (E > 0) { n_judged++; char sig[96]; snprintf(sig, sizeof sig, "C06:info-range:%s", cls); VIOL(sig, "column %d of A*Pc has no candidate pivot row at all, but info=%d", E, r->info); }
                else { n_skipped++; G->cancel_only++; }
            } else if (r->info > 0 && r->info <= n) {
                n_judged++;
                int E = symbolic_first_empty(T, r->perm_r, r->perm_c, r->info - 1);   /* steps before the reported one */
                char sig[96];
                if (R == 0 || r->info < R) { snprintf(sig, sizeof sig, "C06:info-position:%s", cls); VIOL(sig, "info=%d but the first %d columns of A*Pc have full structural rank (first deficient prefix: %d)", r->info, r->info, R); }
                else if (E > 0) { snprintf(sig, sizeof sig, "C06:info-position:%s", cls); VIOL(sig, "info=%d but column %d already had no candidate pivot row", r->info, E); }
            } else { n_judged++; char sig[96]; snprintf(sig, sizeof sig, "C06:info-range:%s", cls); VIOL(sig, "singular input (first deficient prefix %d) but info=%d", R, r->info); }
        } else if (m->struct_nonsing) {
            /* small integers: elimination is exact in both arithmetics only as long as quotients are exact; judged by range only */
            if (!m->num_nonsing) { n_judged++; if (!(r->info >= 0 && r->info <= n)) VIOL("C06:info-range:cancellation", "info=%d out of range", r->info); }
            else { n_skipped++; return; }
        } else {
            n_judged++;
            if (!(r->info >= 0 && r->info <= n)) { char sig[96]; snprintf(sig, sizeof sig, "C06:info-range:%s", cls); VIOL(sig, "info=%d out of range", r->info); }
        }
        if (r->info > 0 && r->info <= n) {
            if (c->driver == DRV_GSSV && r->b_changed) VIOL("C06:B-modified", "simple driver changed B although info=%d", r->info);
            if (c->driver == DRV_GSSVX) {
                /* X untouched: still the 0x55 fill */
                int touched = 0; for (int k = 0; k < n * c->nrhs; k++) { scalar_t s = L2S(r->X[k]); unsigned char *p = (unsigned char *)&s; for (size_t q = 0; q < sizeof s; q++) if (p[q] != 0x55) touched = 1; }
                if (touched) VIOL("C06:X-touched", "expert driver wrote X although info=%d", r->info);
                if (r->equed == NOEQUIL && r->b_changed) VIOL("C06:B-modified", "expert driver changed B without reporting equilibration (info=%d)", r->info);
            }
            for (int i = 0; i < n; i++) if (r->perm_c[i] < 0 || r->perm_c[i] >= n) { VIOL("C06:perm-range", "perm_c[%d]=%d", i, (int)r->perm_c[i]); break; }
        }
        if (r->bad_free) VIOL("C06:destroy", "%ld frees of unknown blocks while destroying the returned objects", r->bad_free);
        return;
    }
    if (!strcmp(PROP, "C17")) {
        /* after the documented clean-up of everything that was handed back, no library allocation may be left */
        n_judged++;
        const char *oc = r->info == 0 ? "ok" : (r->info > 0 && r->info <= n) ? "singular" : (c->lwork == -1 && r->info > n) ? "query" : r->info > n ? "memfail" : "illegal";
        /* get_perm_c takes a special path when the graph it orders has no edges: A'A (ordering 1) has none when no row holds two entries, A'+A (ordering 2) when A is diagonal */
        int coupled = 1;
        if (c->ordering == 1) { int rc[NMAX] = { 0 }; coupled = 0; for (int j = 0; j < n; j++) for (int k = T->colptr[j]; k < T->colptr[j + 1]; k++) if (++rc[T->rowind[k]] > 1) coupled = 1; }
        else if (c->ordering == 2) { coupled = 0; for (int j = 0; j < n; j++) for (int k = T->colptr[j]; k < T->colptr[j + 1]; k++) if (T->rowind[k] != j) coupled = 1; }
        if (r->leak_blocks > 0) { char sig[128]; snprintf(sig, sizeof sig, "C17:leak:drv%d:%s%s", c->driver, oc, coupled ? "" : ":get_perm_c-edgeless-graph"); VIOL(sig, "%d blocks still allocated after destroying what the call returned (allocation#:size %s)", r->leak_blocks, r->leak_desc); }
        /* (a negative balance is the echo of a leak reported for an earlier case: a block left behind then is released now) */
        if (r->bad_free) VIOL("C17:bad-free", "%ld frees of blocks the library never allocated", r->bad_free);
        return;
    }
    if (!strcmp(PROP, "C05")) {
        n_judged++;
        if (r->slot_overflow) VIOL("C05:slot", "%s", r->slotmsg);
        if (r->info == 0 && r->wf == 7) VIOL("C05:overlap", "%s", r->wfmsg);
        if (r->info == 0 && !r->wf && !c->symmetric) {
            /* predicted (Householder) bound dominates actual L: for the leader j of each H-supernode the count covers every column of the block */
            if (c->relax == 1) for (int j = 0; j < n; j++) if (r->part_super_h[j] > 0) {
                long used = 0; int wj = (int)r->part_super_h[j];
                for (int k = j; k < j + wj && k < n; k++) used += r->nsupr_of[k];
                if (used > (long)wj * r->colcnt_h[j]) { VIOL("C05:colcount", "columns %d..%d of L store %ld values; the Householder prediction reserved %d x %d", j, j + wj - 1, used, wj, (int)r->colcnt_h[j]); break; }
            }
        }
        if (r->bad_free) VIOL("C05:bad-free", "%ld frees of blocks the library never allocated", r->bad_free);
        return;
    }
}

/* ---------- isolated execution ---------- */
typedef struct { int n, vkind, salt; unsigned long long lo; const char *grid; int forced; int nslice, islice; } sweep_t;
static sweep_t SW;

/* configuration grids */
static const int WSET[3] = { 1, 4, 6 }, RSET[3] = { 1, 2, 3 };
static int ngrid(const char *g) {
    if (!strcmp(g, "full")) return 27 * 2;
    if (!strcmp(g, "quick")) return 3 * 2;
    if (!strcmp(g, "one")) return 1;
    return 1;
}
static void grid_cfg(const char *g, int k, int n, fcfg_t *c) {
    static const int MS[3] = { 1, 2, 99 };
    if (!strcmp(g, "full")) { int b = k % 2; k /= 2; c->w = WSET[k % 3]; c->relax = RSET[(k / 3) % 3]; c->maxsuper = MS[(k / 9) % 3]; if (c->maxsuper == 99) c->maxsuper = n > 1 ? n : 1; c->rowblk = b ? 200 : 1; c->colblk = b ? 100 : 1; }
    else if (!strcmp(g, "quick")) { static const int q[3][3] = { { 1, 1, 99 }, { 4, 2, 2 }, { 6, 3, 1 } }; int b = k % 2; k /= 2; c->w = q[k][0]; c->relax = q[k][1]; c->maxsuper = q[k][2] == 99 ? (n > 1 ? n : 1) : q[k][2]; c->rowblk = b ? 200 : 1; c->colblk = b ? 100 : 1; }
}
static int next_perm(int *p, int n) { int i = n - 2; while (i >= 0 && p[i] > p[i + 1]) i--; if (i < 0) return 0; int j = n - 1; while (p[j] < p[i]) j--; int t = p[i]; p[i] = p[j]; p[j] = t; for (int a = i + 1, b = n - 1; a < b; a++, b--) { t = p[a]; p[a] = p[b]; p[b] = t; } return 1; }

static int FIRST_CLASS_PASS = 1;
static int VF_RUN_TIMEOUT; static int GRID_CLASS = -2; static unsigned char CLASS_SEEN[48];
static void run_and_judge(const tmat_t *T, const mref_t *m, int vkind, int salt, const fcfg_t *c) {
    static fres_t r; char cs[600];
    /* after a death the sweep resumes behind the configuration that died (same matrix) */
    /* the kernels p?gstrf_bmod2D* cache sp_ienv(3) and sp_ienv(4) in function statics at their first call: a PROCESS must see one value
       of each (as a program with a fixed sp_ienv does).  The sweep is therefore done class by class - class = (maxsuper, rowblk) - each
       class in child processes of its own; GRID_CLASS = -1: dry run that only records which classes occur; -2: no filter (replay of one case). */
    { int cls = (c->maxsuper < 0 ? 0 : c->maxsuper > 15 ? 15 : c->maxsuper) * 3 + (c->rowblk >= 100 ? 2 : c->rowblk >= 2 ? 1 : 0);      /* rowblk takes the values 1, 2, 200 */
      if (GRID_CLASS == -1) { CLASS_SEEN[cls] = 1; return; }
      if (GRID_CLASS >= 0 && cls != GRID_CLASS) return; }
    G->cfg_no++;
    if (G->resume_cfg && G->cfg_no <= G->resume_cfg) return;
    case_str(T, salt, vkind, c, cs, sizeof cs);
    if (VF_RUN_TIMEOUT > 0) vf_case_timer(VF_RUN_TIMEOUT);        /* the limit is per library run (CPU time), not per matrix */
    if (vf_sh) { snprintf((char *)vf_sh->note, sizeof vf_sh->note, "%s", cs); }
    run_factor_case(T, c, &r);
    if (samples_left > 0 && (r.info == 0 || !strcmp(PROP, "C06")) && T->nnz > T->n) { samples_left--; out_sample(PROP, "%s -> info=%d nsuper=%d nnzL=%d nnzU=%d", cs, r.info, r.nsuper, r.Lnnz, r.Unnz); }
    judge(T, m, vkind, c, &r, cs);
}

/* the per-property configuration menu applied to one matrix */
static void cases_for_matrix(const tmat_t *T, int vkind, int salt) {
    static mref_t m; mref_compute(T, &m);
    int n = T->n; fcfg_t c;
    int ng = ngrid(SW.grid);
    /* C01/C02/C09 speak about runs that can end with info = 0: structurally singular inputs are C06's (and C05's) business */
    if (!strcmp(PROP, "C17") && !m.struct_nonsing) { { if (FIRST_CLASS_PASS) G->hyp_skipped++; } return; }
    if (!m.struct_nonsing && (!strcmp(PROP, "C01") || !strcmp(PROP, "C02") || !strcmp(PROP, "C09") || (!strcmp(PROP, "C05") && n > 3))) { { if (FIRST_CLASS_PASS) G->hyp_skipped++; } return; }
    if (!strcmp(PROP, "C02") || !strcmp(PROP, "C09") || !strcmp(PROP, "C05")) {
        static const double US[4] = { 1.0, 0.1, 0.5, 0.0 };
        int nu = !strcmp(SW.grid, "full") ? 4 : 2;
        int dynmax = !strcmp(PROP, "C02") ? 1 : 2;
        int ordmax = !strcmp(PROP, "C05") ? 4 : 1;
        for (int g = 0; g < ng; g++) for (int dyn = 0; dyn < dynmax; dyn++) for (int ord = 0; ord < ordmax; ord++) {
            for (int ui = 0; ui < nu; ui++) {
                fcfg_default(&c); grid_cfg(SW.grid, g, n, &c); c.u = US[ui]; c.dyn = dyn; c.ordering = ord;
                run_and_judge(T, &m, vkind, salt, &c);
            }
            if (SW.forced && m.struct_nonsing) {
                int p[NMAX]; for (int i = 0; i < n; i++) p[i] = i;
                do {
                    fcfg_default(&c); grid_cfg(SW.grid, g, n, &c); c.u = 0.0; c.dyn = dyn; c.ordering = ord; c.forced = 1;
                    for (int i = 0; i < NMAX; i++) c.force_pos[i] = i < n ? p[i] : -1;
                    run_and_judge(T, &m, vkind, salt, &c);
                } while (next_perm(p, n));
            }
        }
    } else if (!strcmp(PROP, "C01")) {
        static const int PS[4] = { 1, 2, 3, 5 };
        int np = !strcmp(SW.grid, "full") ? 4 : 2;
        int nord = !strcmp(SW.grid, "full") ? 4 : 2;
        /* (nrhs, padding rows below B): B with leading dimension > n and several columns exercises every stride of the triangular solves */
        static const int RH[5][2] = { { 0, 0 }, { 1, 0 }, { 2, 2 }, { 2, 0 }, { 1, 3 } };
        int nrh = !strcmp(SW.grid, "full") ? 5 : 3;
        for (int g = 0; g < ng; g++) for (int nr = 0; nr < 2; nr++) for (int rh = 0; rh < nrh; rh++) for (int oi = 0; oi < nord; oi++) for (int pi = 0; pi < np; pi++) {
            int nrhs = RH[rh][0];
            if (strcmp(SW.grid, "full") && nrhs == 0 && (g || oi)) continue;
            fcfg_default(&c); grid_cfg(SW.grid, g, n, &c); c.driver = DRV_GSSV; c.as_nr = nr; c.nrhs = nrhs; c.ldb_extra = RH[rh][1]; c.ordering = !strcmp(SW.grid, "full") ? oi : (oi ? 3 : 0); c.nprocs = PS[pi];
            run_and_judge(T, &m, vkind, salt, &c);
        }
    } else if (!strcmp(PROP, "C06")) {
        if (m.struct_nonsing && m.num_nonsing) return;
        /* the expert driver also with diag_pivot_thresh = 0 (a zero on the diagonal must still not be taken while the column has nonzero candidates) */
        for (int g = 0; g < ng; g++) for (int drv = 1; drv <= 2; drv++) for (int P = 1; P <= 2; P++) for (int ord = 0; ord < 2; ord++) for (int ui = 0; ui < (drv == DRV_GSSVX ? 2 : 1); ui++) {
            fcfg_default(&c); grid_cfg(SW.grid, g, n, &c); c.driver = drv; c.nprocs = P; c.ordering = ord ? 1 : 0; c.nrhs = 1; c.u = ui ? 0.0 : 1.0;
            if (drv == DRV_GSSVX) c.fact = (g & 1) ? EQUILIBRATE : DOFACT;
            run_and_judge(T, &m, vkind, salt, &c);
        }
    } else if (!strcmp(PROP, "C17")) {
        /* row-wise storage of A (the drivers build a column-format view of their own, which they must release) added after seeded change C17/3 was missed */
        for (int drv = 0; drv <= 2; drv++) for (int ord = 0; ord < 4; ord++) for (int P = 1; P <= 3; P += 2) for (int lw = 0; lw < 2; lw++) for (int g = 0; g < ng && g < 2; g++) for (int nr = 0; nr < (drv == DRV_DIRECT ? 1 : 2); nr++) {
            if (lw && drv == DRV_GSSV) continue;
            if (nr && (ord == 2 || P == 3)) continue;
            if (!m.struct_nonsing && vkind != 4 && vkind != 5) continue;          /* structurally singular inputs crash (known finding of C06) */
            fcfg_default(&c); grid_cfg(SW.grid, g, n, &c); c.driver = drv; c.ordering = ord; c.nprocs = P; c.lwork = lw ? -1 : 0; c.nrhs = 1; c.as_nr = nr;
            if (drv == DRV_GSSVX) c.fact = g ? EQUILIBRATE : DOFACT;
            run_and_judge(T, &m, vkind, salt, &c);
        }
    } else if (!strcmp(PROP, "C16")) {
        /* full diagonal patterns only, diagonally dominant values, symmetric mode, MMD on A'+A, u = 0 */
        for (int i = 0; i < n; i++) { int d = 0; for (int k = T->colptr[i]; k < T->colptr[i + 1]; k++) if (T->rowind[k] == i) d = 1; if (!d) return; }
        for (int g = 0; g < ng; g++) for (int dyn = 0; dyn < 2; dyn++) for (int P = 1; P <= 2; P++) {
            fcfg_default(&c); grid_cfg(SW.grid, g, n, &c); c.driver = DRV_DIRECT; c.symmetric = 1; c.ordering = 2; c.u = 0.0; c.dyn = dyn; c.nprocs = P;
            run_and_judge(T, &m, 1, salt, &c);
        }
    }
}

static int SYMPAT;
static unsigned long long sym_to_bits(int n, unsigned long long idx) {
    unsigned long long bits = 0; int k = 0;
    for (int i = 0; i < n; i++) { bits |= 1ULL << (i * n + i); for (int j = 0; j < i; j++, k++) if ((idx >> k) & 1) { bits |= 1ULL << (i * n + j); bits |= 1ULL << (j * n + i); } }
    return bits;
}
static void case_fn(long idx, void *ctx) {
    (void)ctx; static tmat_t T;
    G->cfg_no = 0;
    if (SYMPAT) idx = (long)sym_to_bits(SW.n, (unsigned long long)idx);
    build_pattern_matrix(&T, SW.n, (unsigned long long)idx, SW.vkind, SW.salt);
    cases_for_matrix(&T, SW.vkind, SW.salt);
}
static void death_fn(long idx, int kind, int code, const char *note, void *ctx) {
    (void)ctx; n_deaths++; n_viol++;
    static tmat_t T; build_pattern_matrix(&T, SW.n, SYMPAT ? sym_to_bits(SW.n, (unsigned long long)idx) : (unsigned long long)idx, SW.vkind, SW.salt);
    static mref_t m; mref_compute(&T, &m);
    char sig[200], cd[128]; vf_crash_desc(kind, code, cd, sizeof cd);
    const char *site = strchr(cd, '@'); /* the same wild read either faults or is caught by the sanitizer: the signature keeps only the site */
    snprintf(sig, sizeof sig, "%s:crash:%s:%s%s%s", PROP, site ? site : cd, m.struct_nonsing ? "nonsingular" : sing_class(&T), (note && strstr(note, "dyn=1") && strstr(note, "sym=1")) ? ":symmetric+dynamic-store" : "", (!strcmp(PROP, "C16") && has_isolated_vertex(&T)) ? ":isolated-vertices" : "");
    out_violation(PROP, sig, note, "process died (%s) while running this case", cd);
}

/* ---------- structured catalogue (n = 6..12) ---------- */
static int cat_build(int id, tmat_t *T, char *name, size_t nl) {
    int pat[NMAX][NMAX]; ldc D[NMAX][NMAX]; memset(pat, 0, sizeof pat); int n = 0;
    switch (id) {
    case 0: n = 8; snprintf(name, nl, "chain8"); for (int i = 0; i < n; i++) { pat[i][i] = 1; if (i + 1 < n) { pat[i][i + 1] = pat[i + 1][i] = 1; } } break;
    case 1: n = 8; snprintf(name, nl, "star8"); for (int i = 0; i < n; i++) { pat[i][i] = 1; pat[i][n - 1] = pat[n - 1][i] = 1; } break;
    case 2: n = 9; snprintf(name, nl, "arrow9-first"); for (int i = 0; i < n; i++) { pat[i][i] = 1; pat[i][0] = pat[0][i] = 1; } break;
    case 3: n = 10; snprintf(name, nl, "band10-2"); for (int i = 0; i < n; i++) for (int j = 0; j < n; j++) if (abs(i - j) <= 2) pat[i][j] = 1; break;
    case 4: n = 9; snprintf(name, nl, "grid3x3"); for (int a = 0; a < 3; a++) for (int b = 0; b < 3; b++) { int i = a * 3 + b; pat[i][i] = 1; if (a) pat[i][i - 3] = pat[i - 3][i] = 1; if (b) pat[i][i - 1] = pat[i - 1][i] = 1; } break;
    case 5: n = 12; snprintf(name, nl, "grid3x4"); for (int a = 0; a < 3; a++) for (int b = 0; b < 4; b++) { int i = a * 4 + b; pat[i][i] = 1; if (a) pat[i][i - 4] = pat[i - 4][i] = 1; if (b) pat[i][i - 1] = pat[i - 1][i] = 1; } break;
    case 6: n = 7; snprintf(name, nl, "bintree7-unsym"); { int par[7] = { 2, 2, 6, 5, 5, 6, 7 }; for (int i = 0; i < 7; i++) { pat[i][i] = 1; if (par[i] < 7) pat[i][par[i]] = 1; } } break;
    case 7: n = 8; snprintf(name, nl, "zero-diag-cycle8"); for (int i = 0; i < n; i++) { pat[i][(i + 1) % n] = 1; pat[i][(i + 3) % n] = 1; } break;
    case 8: n = 10; snprintf(name, nl, "two-blocks10"); for (int i = 0; i < 5; i++) for (int j = 0; j < 5; j++) { if ((i + j) % 2 == 0 || i == j) pat[i][j] = 1; pat[5 + i][5 + j] = (i <= j) || i == j + 1; } break;
    case 9: n = 6; snprintf(name, nl, "dense6"); for (int i = 0; i < n; i++) for (int j = 0; j < n; j++) pat[i][j] = 1; break;
    case 10: n = 12; snprintf(name, nl, "wide-forest12"); for (int i = 0; i < n; i++) { pat[i][i] = 1; if (i % 3 != 2) pat[i][i - i % 3 + 2] = 1; } break;
    case 11: n = 11; snprintf(name, nl, "dense-row-col11"); for (int i = 0; i < n; i++) { pat[i][i] = 1; pat[5][i] = 1; pat[i][7] = 1; } break;
    /* 12..19: dense and trailing-dense blocks (added after seeded change C02/3 was missed): supernodes as wide as the tuning parameters allow */
    case 12: case 13: case 14: case 15: case 16: case 17: { static const int DN[6] = { 5, 7, 8, 9, 10, 12 }; n = DN[id - 12]; snprintf(name, nl, "dense%d", n); for (int i = 0; i < n; i++) for (int j = 0; j < n; j++) pat[i][j] = 1; } break;
    case 18: n = 10; snprintf(name, nl, "chain4+dense6"); for (int i = 0; i < n; i++) { pat[i][i] = 1; if (i < 4) pat[i][i + 1] = pat[i + 1][i] = 1; } for (int i = 4; i < n; i++) for (int j = 4; j < n; j++) pat[i][j] = 1; break;
    case 19: n = 11; snprintf(name, nl, "two-dense-blocks+border11"); for (int i = 0; i < 5; i++) for (int j = 0; j < 5; j++) { pat[i][j] = 1; pat[5 + i][5 + j] = 1; } for (int i = 0; i < n; i++) { pat[10][i] = pat[i][10] = 1; } break;
    default: return 0;
    }
    for (int i = 0; i < n; i++) for (int j = 0; j < n; j++) D[i][j] = value_of(SW.vkind, SW.salt + id, i, j, n);
    tm_from_dense(T, n, n, pat, D);
    return n;
}
/* family tune: the COMPLETE product of the tuning parameters on one catalogue matrix: maxsuper 1..n x relax 1..4 x panel 1,2,3,4,6 x rowblk {1,2,200} x colblk {1,2,100}
   x threads {1,2}; direct driver (simple driver for C01) */
static int TUNE;
static void tune_cases(const tmat_t *T, int vkind, int salt) {
    static mref_t m; mref_compute(T, &m); int n = T->n; fcfg_t c;
    if (!m.struct_nonsing || !m.num_nonsing) { if (FIRST_CLASS_PASS) G->hyp_skipped++; return; }
    static const int WS[5] = { 1, 2, 3, 4, 6 }, RB[3] = { 1, 2, 200 }, CB[3] = { 1, 2, 100 };
    for (int ms = 1; ms <= n; ms++) for (int rl = 1; rl <= 4; rl++) for (int wi = 0; wi < 5; wi++) for (int rb = 0; rb < 3; rb++) for (int cb = 0; cb < 3; cb++) for (int P = 1; P <= 2; P++) {
        if (P == 2 && (rb != 0 || cb != 0)) continue;
      for (int dyn = 0; dyn < (P == 1 && rb < 2 ? 2 : 1); dyn++) {
        fcfg_default(&c); c.dyn = dyn; c.maxsuper = ms; c.relax = rl; c.w = WS[wi]; c.rowblk = RB[rb]; c.colblk = CB[cb]; c.nprocs = P; c.driver = !strcmp(PROP, "C01") ? DRV_GSSV : DRV_DIRECT; c.nrhs = 1;
        run_and_judge(T, &m, vkind, salt, &c);
      }
    }
}
static void cat_case_fn(long idx, void *ctx) { (void)ctx; static tmat_t T; char nm[40]; if (cat_build((int)idx, &T, nm, sizeof nm)) { if (TUNE) tune_cases(&T, SW.vkind, SW.salt + (int)idx); else cases_for_matrix(&T, SW.vkind, SW.salt + (int)idx); } }
static void cat_death_fn(long idx, int kind, int code, const char *note, void *ctx) {
    (void)ctx; n_deaths++; n_viol++; char sig[200], cd[128]; vf_crash_desc(kind, code, cd, sizeof cd); snprintf(sig, sizeof sig, "%s:crash:%s:catalogue%ld", PROP, cd, idx);
    out_violation(PROP, sig, note, "process died (%s) while running this case", cd);
}

/* ---------- replay of one case string ---------- */
static int replay_one(const char *s) {
    static tmat_t T; fcfg_t c; fcfg_default(&c); int n = 0, salt = 0, vk = 0; char pat[200] = "", force[32] = "";
    const char *p;
#define GETI(key, var) if ((p = strstr(s, key "="))) var = atoi(p + strlen(key) + 1)
    GETI("n", n); GETI("salt", salt); GETI("vk", vk); GETI("drv", c.driver); GETI("nr", c.as_nr); GETI("nrhs", c.nrhs); GETI("ldbx", c.ldb_extra); GETI("ord", c.ordering);
    GETI(" P", c.nprocs); GETI(" w", c.w); GETI("rlx", c.relax); GETI("ms", c.maxsuper); GETI("rb", c.rowblk); GETI("cb", c.colblk);
    GETI("sym", c.symmetric); GETI("dyn", c.dyn); GETI("tr", c.trans); GETI("fact", c.fact); GETI("f7", c.fill7); GETI("f8", c.fill8);
    if ((p = strstr(s, " u="))) c.u = atof(p + 3);
    if ((p = strstr(s, "lwork="))) c.lwork = atol(p + 6);
    if ((p = strstr(s, "pat="))) sscanf(p + 4, "%199[01]", pat);
    if ((p = strstr(s, "force="))) { sscanf(p + 6, "%31[0-9]", force); c.forced = 1; for (int i = 0; i < NMAX; i++) c.force_pos[i] = i < (int)strlen(force) ? force[i] - '0' : -1; }
    if (n <= 0 || n > NMAX || (int)strlen(pat) != n * n) { fprintf(stderr, "bad case string\n"); return 2; }
    int P[NMAX][NMAX]; ldc D[NMAX][NMAX];
    for (int i = 0; i < n; i++) for (int j = 0; j < n; j++) { P[i][j] = pat[i * n + j] == '1'; D[i][j] = value_of(vk, salt, i, j, n); }
    tm_from_dense(&T, n, n, P, D);
    static mref_t m; mref_compute(&T, &m);
    SW.vkind = vk; SW.salt = salt;
    run_and_judge(&T, &m, vk, salt, &c);
    return n_viol ? 1 : 0;
}

int main(int argc, char **argv) {
    out_init();
    G = mmap(NULL, sizeof *G, PROT_READ | PROT_WRITE, MAP_SHARED | MAP_ANONYMOUS, -1, 0);
    samples_left = 3;
    PROP = arg_str(argc, argv, "--prop", "C02");
    const char *one = arg_str(argc, argv, "--one", NULL);
    if (one) { int rc = replay_one(one); out_stats(PROP, "\"runs\":%ld,\"violations\":%ld", n_runs, n_viol); return rc; }
    const char *family = arg_str(argc, argv, "--family", "pat");
    SW.n = arg_int(argc, argv, "--n", 3); SW.vkind = arg_int(argc, argv, "--vkind", 0); SW.salt = arg_int(argc, argv, "--salt", 0);
    SW.grid = arg_str(argc, argv, "--grid", "quick"); SW.forced = arg_int(argc, argv, "--forced", 0);
    const char *sl = arg_str(argc, argv, "--slice", "0/1"); sscanf(sl, "%d/%d", &SW.islice, &SW.nslice);
    int timeout = arg_int(argc, argv, "--timeout", 20); VF_RUN_TIMEOUT = timeout;
    double deadline = atof(arg_str(argc, argv, "--deadline", "1e9")); double t0 = now_s();
    long total = 0, done = 0; int complete = 1;
    if (!strcmp(family, "sympat")) { SYMPAT = 1; family = "pat"; }
    if (!strcmp(family, "pat")) {
        unsigned long long npat = SYMPAT ? 1ULL << (SW.n * (SW.n - 1) / 2) : 1ULL << (SW.n * SW.n);
        unsigned long long per = (npat + SW.nslice - 1) / SW.nslice, lo = per * SW.islice, hi = lo + per; if (hi > npat) hi = npat;
        total = (long)(hi - lo);
        /* chunks, so that a deadline can stop between chunks */
        /* dry run (no library call): which (maxsuper, rowblk) classes does the configuration menu of this job contain? */
        for (unsigned long long a = lo; a < hi; a += 4096) {
            if (now_s() - t0 > deadline) { complete = 0; break; }
            unsigned long long b = a + 4096 < hi ? a + 4096 : hi;
            /* dry run over the chunk (no library call): which (maxsuper, rowblk) classes do the configuration menus of its matrices contain? */
            memset(CLASS_SEEN, 0, sizeof CLASS_SEEN); GRID_CLASS = -1; FIRST_CLASS_PASS = 0; for (unsigned long long i = a; i < b; i++) case_fn((long)i, NULL);
            int ncls = 0, clsv[48]; for (int q = 0; q < 48; q++) if (CLASS_SEEN[q]) clsv[ncls++] = q;
            if (ncls == 0) { GRID_CLASS = 0; FIRST_CLASS_PASS = 1; for (unsigned long long i = a; i < b; i++) case_fn((long)i, NULL); }   /* nothing to run: count the skipped matrices */
          for (int ci = 0; ci < ncls; ci++) {
            GRID_CLASS = clsv[ci]; FIRST_CLASS_PASS = (ci == 0); G->resume_cfg = 0; G->resumes = 0;
            unsigned long long next = a;
            while (next < b) {
                if (!vf_sh) vf_sh = mmap(NULL, sizeof *vf_sh, PROT_READ | PROT_WRITE, MAP_SHARED | MAP_ANONYMOUS, -1, 0);
                vf_sh->cur = (long)next; vf_sh->done = 0; vf_sh->where[0] = 0; fflush(NULL); vf_err_prepare();
                pid_t pid = fork();
                if (pid == 0) {
                    vf_err_child(); signal(SIGALRM, vf_alarm); vf_install_fault_handlers();
                    for (unsigned long long i = next; i < b; i++) { vf_sh->cur = (long)i; vf_case_timer(timeout); case_fn((long)i, NULL); G->resume_cfg = 0; G->resumes = 0; }
                    vf_sh->done = 1; fflush(NULL); _exit(0);
                }
                int st = 0; waitpid(pid, &st, 0); vf_last_child = pid;
                if (WIFEXITED(st) && WEXITSTATUS(st) == 0 && vf_sh->done) break;
                long bad = vf_sh->cur; int kind, code;
                if (WIFSIGNALED(st)) { kind = VF_SIGNAL; code = WTERMSIG(st); } else if (WEXITSTATUS(st) == 99) { kind = VF_ASAN; code = 99; }
                else if (WEXITSTATUS(st) == 97) { kind = VF_TIMEOUT; code = 97; } else if (WEXITSTATUS(st) == 98) { kind = VF_FAULT; code = 98; } else { kind = VF_EXIT; code = WEXITSTATUS(st); }
                death_fn(bad, kind, code, (const char *)vf_sh->note, NULL);
                if (G->cfg_no > G->resume_cfg && G->resumes < (FIRST_CLASS_PASS ? 2 : 0)) {      /* resuming behind a death: in the first (maxsuper,rowblk) class only; a matrix that kills the library there is run once per further class */ G->resume_cfg = G->cfg_no; G->resumes++; next = (unsigned long long)bad; }   /* same matrix again, behind the configuration that died (at most twice) */
                else { G->resume_cfg = 0; G->resumes = 0; next = (unsigned long long)bad + 1; }
            }
          }
            done += (long)(b - a);
        }
    } else if (!strcmp(family, "cat") || !strcmp(family, "tune")) {
        TUNE = !strcmp(family, "tune"); long ncat = TUNE ? 20 : 12;
        for (long i = SW.islice; i < ncat; i += SW.nslice) { total++;
            memset(CLASS_SEEN, 0, sizeof CLASS_SEEN); GRID_CLASS = -1; FIRST_CLASS_PASS = 0; cat_case_fn(i, NULL); int firstc = 1;
            for (int q = 0; q < 48; q++) if (CLASS_SEEN[q]) { GRID_CLASS = q; FIRST_CLASS_PASS = firstc; firstc = 0; vf_run_isolated(i, i + 1, cat_case_fn, cat_death_fn, NULL, timeout * 10); }
            done++; }
    }
    out_stats(PROP, "\"family\":\"%s\",\"n\":%d,\"grid\":\"%s\",\"forced\":%d,\"vkind\":%d,\"slice\":\"%d/%d\",\"matrices\":%ld,\"matrices_total\":%ld,\"complete\":%s,"
              "\"cancellation_only_unjudged\":%ld,\"matrices_outside_hypothesis\":%ld,\"runs\":%ld,\"judged\":%ld,\"skipped\":%ld,\"violations\":%ld,\"info0\":%ld,\"singular_reports\":%ld,\"distinct_outcomes\":%ld,\"deaths\":%ld,\"wall_s\":%.2f",
              family, SW.n, SW.grid, SW.forced, SW.vkind, SW.islice, SW.nslice, done, total, complete ? "true" : "false",
              G->cancel_only, G->hyp_skipped, n_runs, n_judged, n_skipped, n_viol, n_info0, n_singular, n_distinct, n_deaths, now_s() - t0);
    return 0;
}
