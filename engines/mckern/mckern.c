/* Engine K (mckern): bounded-exhaustive enumeration for property C19
 * "Sparse kernels and format utilities agree with their dense definitions".
 *
 * Families (one per run):
 *   gemv     sp_?gemv   all m x n 0/1 patterns (m,n<=3) x 2 value tables x trans{N,T,C} x alpha,beta{0,1,-1,2.5(+0.5i)} x incx,incy{1,2,-1,-2}
 *                       (+ the documented NCP input type with every column permutation, unit strides)
 *   gemm     sp_?gemm   same matrices x trans x alpha,beta x 1..2 columns x tight/padded ldb, ldc
 *   trsv     sp_?trsv   every structurally nonsingular pattern n<=4, generic values, factored by p?gstrf with
 *                       panel_size{1,4} x relax{1,2} x maxsuper{1,2,n} (quick: 3 of these 12 at n=4); (uplo,trans,diag) in (L,*,U),(U,*,N),
 *                       trans{N,T,C}; 2 right-hand sides
 *   langs    ?langs     same matrices x norm{M,1,O,I,F,E and lower case}
 *   convert  ?CompRow_to_CompCol, ?Copy_CompCol_Matrix, ?Create_CompCol/CompRow/Dense_Matrix, ?Create_CompCol_Permuted (all column
 *                       permutations), sp_colorder (square patterns, all initial perm_c)
 *
 * usage: mckern --prop C19 --family gemv|gemm|trsv|langs|convert --grid quick|full [--slice i/k] [--deadline s] [--death-cap k]
 *        mckern --prop C19 --one "<case string>"         (replays one case in an isolated child; exit 1 if it violates)
 *
 * Every library call happens in a forked child; the case being run is kept in shared memory so that an abort
 * (SUPERLU_ABORT -> exit(-1)), a sanitizer report or a fault is attributed to exactly one case and the sweep continues behind it.
 */
#include "../common/common.h"
#include <fcntl.h>
#include <ctype.h>

#define XCreate_CompRow_Matrix   FN(,Create_CompRow_Matrix)
#define XCreate_CompCol_Permuted FN(,Create_CompCol_Permuted)
extern real_t Xlangs(char *, SuperMatrix *);      /* declared in no header of the library (p?gssvx.c declares it locally) */
extern void XCreate_CompRow_Matrix(SuperMatrix *, int_t, int_t, int_t, scalar_t *, int_t *, int_t *, Stype_t, Dtype_t, Mtype_t);

static const char *PROP = "C19";
enum { F_GEMV, F_GEMM, F_TRSV, F_LANGS, F_CONVERT, F_N };
static const char *FAMN[F_N] = { "gemv", "gemm", "trsv", "langs", "convert" };
#define PAD 6                      /* guard elements on both sides of every vector / dense matrix handed to the library */
static const char TRCH[3] = { 'N', 'T', 'C' };
static const int INCS[4] = { 1, 2, -1, -2 };
static const char *NORMS[11] = { "M", "m", "1", "O", "o", "I", "i", "F", "f", "E", "e" };
enum { OP_R2C, OP_COPY, OP_CREATE, OP_PERMUTED, OP_COLORDER, OP_N };
static const char *OPN[OP_N] = { "r2c", "copy", "create", "permuted", "colorder" };

typedef struct {
    int fam, m, n; unsigned bits; int vt;
    int trans, ai, bi, incx, incy;     /* gemv / gemm */
    int store, perm;                   /* gemv: 0 = NC, 1/2 = NCP view with column permutation number perm (2: slack entry in colbeg/colend) */
    int nc, ldbx, ldcx;                /* gemm: columns, ldb - rows(B), ldc - rows(C) */
    int w, rlx, ms, uplo, rhs;         /* trsv: factor options, 0 = L (unit) / 1 = U (non-unit), right-hand side table */
    int norm;                          /* langs: index into NORMS */
    int op, var;                       /* convert: operation, variant (row order / permutation number) */
} kcase_t;

#define NSIG 96
#define NCLS 16384
typedef struct {
    long cfg_no, resume_cfg; int in_case;
    long runs, judged, skipped, viol, deaths, aborts, distinct, factorizations;
    long skip_dead_class, skip_no_factors, units_outside_hyp;
    int samples_left;
    long class_deaths[NCLS];
    struct { char sig[128]; long count; } sigs[NSIG];
    kcase_t cur;
    unsigned long long dh[1 << 21];
} shared_counters_t;
static shared_counters_t *G;
static int print_cap = 5, death_cap = 0, errfd = -1;

/* ------------------------------------------------------------------ bookkeeping */
static void note_distinct(unsigned long long h) {
    const unsigned M = (1u << 21) - 1; unsigned k = (unsigned)(h >> 17) & M;
    if (!h) h = 1;
    for (int t = 0; t < 64; t++) { unsigned s = (k + t) & M; if (G->dh[s] == h) return; if (!G->dh[s]) { G->dh[s] = h; G->distinct++; return; } }
}
static unsigned long long hmix(unsigned long long h, unsigned long long v) { h ^= v + 0x9E3779B97F4A7C15ULL + (h << 6) + (h >> 2); return h; }
static unsigned long long hbytes(unsigned long long h, const void *p, size_t n) { const unsigned char *b = p; for (size_t i = 0; i < n; i++) h = (h ^ b[i]) * 1099511628211ULL; return h; }
static unsigned long long hcase(const kcase_t *c) { return hbytes(1469598103934665603ULL, c, sizeof *c); }

static int case_str(const kcase_t *c, char *b, size_t bl) {
    int o = snprintf(b, bl, "fam=%s m=%d n=%d pat=", FAMN[c->fam], c->m, c->n);
    if (c->n > 5) o += snprintf(b + o, bl - o, "cat%u", c->bits);      /* factor catalogue: the matrix is named, not spelled out */
    else for (int i = 0; i < c->m; i++) for (int j = 0; j < c->n; j++) b[o++] = ((c->bits >> (i * c->n + j)) & 1) ? '1' : '0';
    o += snprintf(b + o, bl - o, " vt=%d", c->vt);
    switch (c->fam) {
    case F_GEMV: o += snprintf(b + o, bl - o, " tr=%c a=%d b=%d incx=%d incy=%d st=%d pm=%d", TRCH[c->trans], c->ai, c->bi, c->incx, c->incy, c->store, c->perm); break;
    case F_GEMM: o += snprintf(b + o, bl - o, " tr=%c a=%d b=%d nc=%d ldbx=%d ldcx=%d", TRCH[c->trans], c->ai, c->bi, c->nc, c->ldbx, c->ldcx); break;
    case F_TRSV: o += snprintf(b + o, bl - o, " w=%d rlx=%d ms=%d uplo=%c tr=%c rhs=%d", c->w, c->rlx, c->ms, c->uplo ? 'U' : 'L', TRCH[c->trans], c->rhs); break;
    case F_LANGS: o += snprintf(b + o, bl - o, " norm=%s", NORMS[c->norm]); break;
    case F_CONVERT: o += snprintf(b + o, bl - o, " op=%s var=%d", OPN[c->op], c->var); break;
    }
    return o;
}
static void viol(const char *sig, const char *fmt, ...) {
    char detail[1200], cs[400]; va_list ap; va_start(ap, fmt); vsnprintf(detail, sizeof detail, fmt, ap); va_end(ap);
    G->viol++;
    int k; for (k = 0; k < NSIG - 1 && G->sigs[k].sig[0]; k++) if (!strcmp(G->sigs[k].sig, sig)) break;
    if (!G->sigs[k].sig[0]) snprintf(G->sigs[k].sig, sizeof G->sigs[k].sig, "%s", k == NSIG - 1 ? "(more signatures)" : sig);
    if (++G->sigs[k].count <= print_cap) { case_str(&G->cur, cs, sizeof cs); out_violation(PROP, sig, cs, "%s", detail); }
}
/* coarse input class of a case: used for the per-class cap on deaths (quick tier) */
static int class_of(const kcase_t *c) {
    int k = c->fam;
    switch (c->fam) {
    case F_GEMV: { int ix = 0, iy = 0; for (int q = 0; q < 4; q++) { if (INCS[q] == c->incx) ix = q; if (INCS[q] == c->incy) iy = q; }
        k = k * 3 + c->store; k = k * 3 + c->trans; k = k * 4 + ix; k = k * 4 + iy; k = k * 2 + (c->ai == 0); break; }
    case F_GEMM: k = (k * 3 + c->trans) * 2 + (c->ai == 0); break;
    case F_TRSV: k = (k * 2 + c->uplo) * 3 + c->trans; break;
    case F_LANGS: k = k * 16 + c->norm; break;
    case F_CONVERT: k = k * 8 + c->op; break;
    }
    return 1000 * c->fam + k % 1000 < NCLS ? 1000 * c->fam + k % 1000 : 0;
}

/* ------------------------------------------------------------------ values */
static ldc rnd(ldc v) { return S2L(L2S(v)); }           /* what the library sees */
static ldc kval(int fam, int vt, int i, int j) {
    if (fam == F_TRSV) return rnd(generic_value(i, j, vt));          /* vt = salt */
    if (vt == 1) {
        static const int t[12] = { 1, 2, -1, 3, 1, -2, 2, 1, 4, -1, 1, 2 };
        ld re = t[(i * 5 + j * 3) % 12], im = IS_COMPLEX ? t[(i * 7 + j * 2 + 3) % 12] : 0;
        return re + im * 1.0iL;
    }
    return rnd(generic_value(i, j, 0));
}
static ldc cpx(ld re, ld im) { return IS_COMPLEX ? re + im * 1.0iL : re; }
static ldc xval(int vt, int i, int col) {
    static const int tr[4] = { 2, 0, -1, 3 }, ti[4] = { 1, 0, -2, 1 };
    if (vt == 1) return cpx(tr[(i + 2 * col) % 4], ti[(i + col) % 4]);
    return rnd(generic_value(i, 9 + col, 2));
}
static ldc yval(int vt, int i, int col) {
    static const int tr[4] = { -3, 1, 2, -1 }, ti[4] = { 2, -1, 0, 1 };
    if (vt == 1) return cpx(tr[(i + col) % 4], ti[(i + 3 * col) % 4]);
    return rnd(generic_value(i, 4 + col, 5));
}
static ldc scal_tab(int k) { return k == 0 ? 0 : k == 1 ? 1 : k == 2 ? -1 : cpx(2.5L, 0.5L); }
static ldc poison(int k) { return cpx(9001.5L + k, 77 + k); }
static scalar_t snan(void) { return L2S(cpx(NAN, NAN)); }

static void build_matrix(tmat_t *T, ldc D[NMAX][NMAX], int fam, int m, int n, unsigned bits, int vt) {
    int pat[NMAX][NMAX];
    for (int i = 0; i < NMAX; i++) for (int j = 0; j < NMAX; j++) { pat[i][j] = 0; D[i][j] = 0; }
    if (fam == F_TRSV && n > 5) {
        /* factor catalogue (n = 10; added after the defect repaired by 2f9b9cd turned out to be unreachable with n <= 4 factors): a single-column supernode in
           front of several multi-column supernodes that still have rows below them (the blocks are split by maxsuper 2 / 3) */
        for (int i = 0; i < n; i++) pat[i][i] = 1;
        switch (bits) {
        case 0: for (int i = 0; i < 4; i++) pat[i][i + 1] = pat[i + 1][i] = 1; for (int i = 4; i < n; i++) for (int j = 4; j < n; j++) pat[i][j] = 1; break;          /* chain of 4 + dense 6 */
        case 1: pat[5][0] = pat[9][0] = pat[0][5] = 1; for (int i = 1; i < 5; i++) for (int j = 1; j < 5; j++) pat[i][j] = 1; for (int i = 5; i < n; i++) for (int j = 5; j < n; j++) pat[i][j] = 1; pat[4][5] = pat[5][4] = 1; break;
        case 2: for (int i = 0; i < 4; i++) for (int j = 0; j < 4; j++) { pat[i][j] = 1; pat[4 + i][4 + j] = 1; } for (int i = 0; i < n; i++) { pat[8][i] = pat[i][8] = pat[9][i] = pat[i][9] = 1; } break;
        default: pat[9][0] = pat[0][9] = 1; for (int i = 1; i < n; i++) for (int j = 1; j <= i; j++) pat[i][j] = 1; for (int i = 1; i + 1 < n; i++) pat[i][i + 1] = 1; break;   /* singleton + lower Hessenberg */
        }
        for (int i = 0; i < n; i++) for (int j = 0; j < n; j++) if (pat[i][j]) D[i][j] = kval(fam, vt, i, j);
        tm_from_dense(T, m, n, pat, D); return;
    }
    for (int i = 0; i < m; i++) for (int j = 0; j < n; j++) { pat[i][j] = (bits >> (i * n + j)) & 1; if (pat[i][j]) D[i][j] = kval(fam, vt, i, j); }
    tm_from_dense(T, m, n, pat, D);
}
static int next_perm(int *p, int n) { int i = n - 2; while (i >= 0 && p[i] > p[i + 1]) i--; if (i < 0) return 0; int j = n - 1; while (p[j] < p[i]) j--; int t = p[i]; p[i] = p[j]; p[j] = t; for (int a = i + 1, b = n - 1; a < b; a++, b--) { t = p[a]; p[a] = p[b]; p[b] = t; } return 1; }
static int nfact(int n) { int f = 1; for (int i = 2; i <= n; i++) f *= i; return f; }
static void nth_perm(int n, int k, int *p) { for (int i = 0; i < n; i++) p[i] = i; while (k-- > 0) next_perm(p, n); }
static ldc opA(const ldc D[NMAX][NMAX], int trans, int i, int j) { return trans == 0 ? D[i][j] : trans == 1 ? D[j][i] : conjl(D[j][i]); }
static int bits_equal(const scalar_t *a, const scalar_t *b) { return !memcmp(a, b, sizeof(scalar_t)); }

/* strided vector in a guarded buffer (BLAS convention: a negative increment stores element 0 at the highest address) */
typedef struct { scalar_t *buf, *copy; int len, inc, total; } vbuf_t;
static void vb_make(vbuf_t *v, int len, int inc) {
    int a = abs(inc); v->len = len; v->inc = inc; v->total = (len - 1) * a + 1 + 2 * PAD;
    v->buf = malloc(sizeof(scalar_t) * v->total); v->copy = malloc(sizeof(scalar_t) * v->total);
    for (int k = 0; k < v->total; k++) v->buf[k] = L2S(poison(k));
}
static int vb_pos(const vbuf_t *v, int i) { int a = abs(v->inc); return PAD + (v->inc > 0 ? i * a : (v->len - 1 - i) * a); }
static int vb_is_elem(const vbuf_t *v, int k) { for (int i = 0; i < v->len; i++) if (vb_pos(v, i) == k) return 1; return 0; }
static void vb_snap(vbuf_t *v) { memcpy(v->copy, v->buf, sizeof(scalar_t) * v->total); }
static void vb_free(vbuf_t *v) { free(v->buf); free(v->copy); }

/* y (logical, length leny) against alpha*op(D)*x + beta*y0.  returns 0 ok / 1 and a message for the worst component */
static int judge_axpby(const ldc D[NMAX][NMAX], int trans, int lenx, int leny, ldc alpha, ldc beta, const ldc *x, const ldc *y0, const ldc *y, char *msg, size_t ml) {
    ld g = GAMMA(lenx + 3); int rc = 0;
    for (int i = 0; i < leny; i++) {
        ldc s = 0; ld S = 0;
        for (int j = 0; j < lenx; j++) { ldc a = opA(D, trans, i, j); s += a * x[j]; S += ABSL(a) * ABSL(x[j]); }
        ldc ref = alpha * s; ld mag = ABSL(alpha) * S;
        if (beta != 0) { ref += beta * y0[i]; mag += ABSL(beta) * ABSL(y0[i]); }
        ld err = ABSL(y[i] - ref), allow = g * mag + (ld)(lenx + 3) * 0x1p-62L * mag;
        if (!(err <= allow)) { if (!rc) snprintf(msg, ml, "component %d: computed %.17Lg%+.17Lgi, dense definition %.17Lg%+.17Lgi, |diff|=%.3Le > gamma(%d)*(|alpha||op(A)||x|+|beta||y|)=%.3Le", i, creall(y[i]), cimagl(y[i]), creall(ref), cimagl(ref), err, lenx + 3, g * mag); rc = 1; }
    }
    return rc;
}
static const char *sgn(int inc) { return inc > 0 ? ">0" : "<0"; }

/* common post-call checks */
static void check_side_effects(const char *fam, const char *cls, const amat_t *am, long nlive0, long badfree0) {
    char sig[160];
    if (vf_xerbla_calls) { snprintf(sig, sizeof sig, "C19:%s:xerbla-on-legal-call:%s", fam, cls); viol(sig, "%s reported argument %d as illegal", vf_xerbla_name, vf_xerbla_info); }
    if (am) { int ch = am_unchanged(am); if (ch) { snprintf(sig, sizeof sig, "C19:%s:A-modified", fam); viol(sig, "input matrix differs from its pristine copy (part %d)", ch); } }
    if (vf_nlive != nlive0) { snprintf(sig, sizeof sig, "C19:%s:leak", fam); viol(sig, "%ld allocation(s) of the call still live on return", vf_nlive - nlive0); }
    if (vf_bad_free != badfree0) { snprintf(sig, sizeof sig, "C19:%s:bad-free", fam); viol(sig, "%ld free(s) of blocks that were never allocated", vf_bad_free - badfree0); }
}

/* ------------------------------------------------------------------ gemv */
static void run_gemv(const tmat_t *T, const ldc D0[NMAX][NMAX], const kcase_t *c) {
    int m = T->m, n = T->n, notran = c->trans == 0;
    int lenx = notran ? n : m, leny = notran ? m : n;
    amat_t am; am_build(&am, T, 0);
    SuperMatrix V = am.A; NCPformat ncp; int_t *cb = NULL, *ce = NULL;
    ldc D[NMAX][NMAX]; memcpy(D, D0, sizeof D);
    if (c->store) {               /* NCP view A*P: column p[j] of the view is column j of A.  store 1: colbeg/colend have n entries, as sp_colorder
                                     allocates them; store 2: one slack entry behind each (= nnz), so that reading "colptr[ncol]" stays in bounds */
        int p[NMAX]; nth_perm(n, c->perm, p);
        cb = malloc(sizeof(int_t) * (n + c->store - 1)); ce = malloc(sizeof(int_t) * (n + c->store - 1));
        if (c->store == 2) cb[n] = ce[n] = am.nnz;
        for (int j = 0; j < n; j++) { cb[p[j]] = am.ptr[j]; ce[p[j]] = am.ptr[j + 1]; for (int i = 0; i < m; i++) D[i][p[j]] = D0[i][j]; }
        ncp.nnz = am.nnz; ncp.nzval = am.val; ncp.rowind = am.ind; ncp.colbeg = cb; ncp.colend = ce;
        V.Stype = SLU_NCP; V.Store = &ncp;
    }
    ldc alpha = scal_tab(c->ai), beta = scal_tab(c->bi), x[NMAX], y0[NMAX], y[NMAX];
    vbuf_t X, Y; vb_make(&X, lenx, c->incx); vb_make(&Y, leny, c->incy);
    for (int i = 0; i < lenx; i++) { x[i] = xval(c->vt, i, 0); X.buf[vb_pos(&X, i)] = L2S(x[i]); }
    for (int i = 0; i < leny; i++) { y0[i] = yval(c->vt, i, 0); Y.buf[vb_pos(&Y, i)] = c->bi == 0 ? snan() : L2S(y0[i]); }   /* beta = 0: y need not be set */
    vb_snap(&X); vb_snap(&Y);
    char tr[2] = { TRCH[c->trans], 0 };
    vf_xerbla_calls = 0; long nl0 = vf_nlive, bf0 = vf_bad_free;
    sp_Xgemv(tr, L2S(alpha), &V, X.buf + PAD, c->incx, L2S(beta), Y.buf + PAD, c->incy);
    G->judged++;
    char cls[96], sig[200], msg[600];
    if (c->store) snprintf(cls, sizeof cls, "store=NCP,trans=%c", TRCH[c->trans]);
    else snprintf(cls, sizeof cls, "trans=%c,incx%s,incy%s", TRCH[c->trans], sgn(c->incx), sgn(c->incy));
    check_side_effects("gemv", cls, c->store ? NULL : &am, nl0, bf0);
    if (c->store && am_unchanged(&am)) viol("C19:gemv:A-modified", "input arrays differ from their pristine copy");
    if (memcmp(X.buf, X.copy, sizeof(scalar_t) * X.total)) { snprintf(sig, sizeof sig, "C19:gemv:x-modified:%s", cls); viol(sig, "the input vector x (or its guard elements) was written"); }
    for (int k = 0; k < Y.total; k++) if (!vb_is_elem(&Y, k) && !bits_equal(&Y.buf[k], &Y.copy[k])) {
        snprintf(sig, sizeof sig, "C19:gemv:padding-touched:%s", cls); viol(sig, "element %d of the y buffer (offset %d from y) is not an element of the strided vector but was written", k, k - PAD); break; }
    for (int i = 0; i < leny; i++) y[i] = S2L(Y.buf[vb_pos(&Y, i)]);
    if (judge_axpby(D, c->trans, lenx, leny, alpha, beta, x, y0, y, msg, sizeof msg)) {
        if (IS_COMPLEX && c->trans == 2 && !judge_axpby(D, 1, lenx, leny, alpha, beta, x, y0, y, msg + 300, 200)) {
            snprintf(sig, sizeof sig, "C19:gemv:conj-missing:%s", c->store ? "store=NCP,trans=C" : "trans=C"); viol(sig, "trans='C' returned alpha*A^T*x+beta*y (no conjugation): %s", msg);
        } else { snprintf(sig, sizeof sig, "C19:gemv:wrong-result:%s", cls); viol(sig, "%s", msg); }
    }
    unsigned long long h = hcase(c); for (int i = 0; i < leny; i++) h = hbytes(h, &Y.buf[vb_pos(&Y, i)], sizeof(scalar_t)); note_distinct(h);
    if (G->samples_left > 0 && T->nnz >= 3 && c->ai == 3 && c->bi == 2 && c->trans == 3 - G->samples_left && c->incx * c->incy == 1) { G->samples_left--; char cs[400]; case_str(c, cs, sizeof cs); out_sample(PROP, "%s -> y[0]=%.17Lg%+.17Lgi", cs, creall(y[0]), cimagl(y[0])); }
    vb_free(&X); vb_free(&Y); free(cb); free(ce); am_free(&am);
}

/* ------------------------------------------------------------------ gemm */
static void run_gemm(const tmat_t *T, const ldc D[NMAX][NMAX], const kcase_t *c) {
    int m = T->m, n = T->n, notran = c->trans == 0;
    int K = notran ? n : m, M = notran ? m : n, nc = c->nc, ldb = K + c->ldbx, ldc_ = M + c->ldcx;
    amat_t am; am_build(&am, T, 0);
    int tb = ldb * nc + 2 * PAD, tc = ldc_ * nc + 2 * PAD;
    scalar_t *B = malloc(sizeof(scalar_t) * tb), *B0 = malloc(sizeof(scalar_t) * tb), *C = malloc(sizeof(scalar_t) * tc), *C0 = malloc(sizeof(scalar_t) * tc);
    for (int k = 0; k < tb; k++) B[k] = L2S(poison(k));
    for (int k = 0; k < tc; k++) C[k] = L2S(poison(k + 40));
    ldc alpha = scal_tab(c->ai), beta = scal_tab(c->bi), x[2][NMAX], y0[2][NMAX], y[NMAX];
    for (int q = 0; q < nc; q++) {
        for (int i = 0; i < K; i++) { x[q][i] = xval(c->vt, i, q); B[PAD + q * ldb + i] = L2S(x[q][i]); }
        for (int i = 0; i < M; i++) { y0[q][i] = yval(c->vt, i, q); C[PAD + q * ldc_ + i] = c->bi == 0 ? snan() : L2S(y0[q][i]); }
    }
    memcpy(B0, B, sizeof(scalar_t) * tb); memcpy(C0, C, sizeof(scalar_t) * tc);
    char tr[2] = { TRCH[c->trans], 0 };
    vf_xerbla_calls = 0; long nl0 = vf_nlive, bf0 = vf_bad_free;
    sp_Xgemm(tr, M, nc, K, L2S(alpha), &am.A, B + PAD, ldb, L2S(beta), C + PAD, ldc_);
    G->judged++;
    char cls[96], sig[200], msg[600]; snprintf(cls, sizeof cls, "trans=%c", TRCH[c->trans]);
    check_side_effects("gemm", cls, &am, nl0, bf0);
    if (memcmp(B, B0, sizeof(scalar_t) * tb)) { snprintf(sig, sizeof sig, "C19:gemm:B-modified:%s", cls); viol(sig, "the input matrix B (or its padding) was written"); }
    for (int k = 0; k < tc; k++) {
        int q = (k - PAD) / ldc_, i = (k - PAD) % ldc_;
        int elem = k >= PAD && k < PAD + ldc_ * nc && i < M && q < nc;
        if (!elem && !bits_equal(&C[k], &C0[k])) { snprintf(sig, sizeof sig, "C19:gemm:padding-touched:%s", cls); viol(sig, "element %d of the C buffer (offset %d from C, ldc=%d, %d rows) lies outside the matrix but was written", k, k - PAD, ldc_, M); break; }
    }
    unsigned long long h = hcase(c);
    for (int q = 0; q < nc; q++) {
        for (int i = 0; i < M; i++) { y[i] = S2L(C[PAD + q * ldc_ + i]); h = hbytes(h, &C[PAD + q * ldc_ + i], sizeof(scalar_t)); }
        if (judge_axpby(D, c->trans, K, M, alpha, beta, x[q], y0[q], y, msg, sizeof msg)) {
            if (IS_COMPLEX && c->trans == 2 && !judge_axpby(D, 1, K, M, alpha, beta, x[q], y0[q], y, msg + 300, 200)) viol("C19:gemm:conj-missing:trans=C", "trans='C' returned alpha*A^T*B+beta*C (no conjugation): column %d %s", q, msg);
            else { snprintf(sig, sizeof sig, "C19:gemm:wrong-result:%s", cls); viol(sig, "column %d %s", q, msg); }
            break;
        }
    }
    note_distinct(h);
    if (G->samples_left > 0 && T->nnz >= 3 && c->ai == 3 && c->bi == 2 && nc == 2 && c->trans == 3 - G->samples_left) { G->samples_left--; char cs[400]; case_str(c, cs, sizeof cs); out_sample(PROP, "%s -> C(0,1)=%.17Lg%+.17Lgi", cs, creall(y[0]), cimagl(y[0])); }
    free(B); free(B0); free(C); free(C0); am_free(&am);
}

/* ------------------------------------------------------------------ trsv */
typedef struct {
    int tried, ok, have, n, info, wf; char wfmsg[300];
    SuperMatrix L, U, AC; superlumt_options_t opt; Gstat_t Gstat; amat_t am; int_t *perm_r, *perm_c;
    ldc Ld[NMAX][NMAX], Ud[NMAX][NMAX];
} kfact_t;
static void kf_factor(kfact_t *f, const tmat_t *T, int w, int relax, int ms) {
    int n = T->n; memset(f, 0, sizeof *f); f->tried = 1; f->n = n;
    vf_ienv[1] = w; vf_ienv[2] = relax; vf_ienv[3] = ms; vf_ienv[4] = 200; vf_ienv[5] = 100; vf_ienv[6] = -50; vf_ienv[7] = -50; vf_ienv[8] = -30;
    unsetenv("SuperLU_DYNAMIC_SNODE_STORE");
    am_build(&f->am, T, 0);
    f->perm_r = malloc(sizeof(int_t) * (n + 1)); f->perm_c = malloc(sizeof(int_t) * (n + 1));
    for (int i = 0; i < n; i++) { f->perm_r[i] = -7; f->perm_c[i] = i; }
    superlumt_options_t *o = &f->opt;
    o->nprocs = 1; o->fact = DOFACT; o->trans = NOTRANS; o->refact = NO; o->panel_size = w; o->relax = relax; o->diag_pivot_thresh = 1.0; o->drop_tol = 0;
    o->usepr = NO; o->SymmetricMode = NO; o->PrintStat = NO; o->perm_c = f->perm_c; o->perm_r = f->perm_r; o->work = NULL; o->lwork = 0;
    o->etree = intMalloc(n); o->colcnt_h = intMalloc(n); o->part_super_h = intMalloc(n);
    get_perm_c(0, &f->am.A, f->perm_c);
    StatAlloc(n, 1, w, relax, &f->Gstat); StatInit(n, 1, &f->Gstat);
    sp_colorder(&f->am.A, f->perm_c, o, &f->AC);
    int_t info = -999;
    pXgstrf(o, &f->AC, f->perm_r, &f->L, &f->U, &f->Gstat, &info);
    G->factorizations++;
    f->info = (int)info; f->have = info >= 0 && info <= n && f->L.Store && f->U.Store;
    f->wf = -1;
    if (info == 0 && f->have) f->wf = wellformed(&f->L, &f->U, f->perm_r, f->perm_c, n, f->Ld, f->Ud, f->wfmsg, sizeof f->wfmsg);
    f->ok = info == 0 && f->have && f->wf == 0;
}
static void kf_free(kfact_t *f) {
    if (!f->tried) return;
    if (f->ok) {      /* the factors are inputs of the solves: still the same? */
        static ldc L2[NMAX][NMAX], U2[NMAX][NMAX]; char m2[300];
        int wf = wellformed(&f->L, &f->U, f->perm_r, f->perm_c, f->n, L2, U2, m2, sizeof m2);
        if (wf || memcmp(L2, f->Ld, sizeof L2) || memcmp(U2, f->Ud, sizeof U2)) viol("C19:trsv:factors-modified", "L or U differ after the triangular solves (%s)", wf ? m2 : "values");
    }
    pxgstrf_finalize(&f->opt, &f->AC); StatFree(&f->Gstat);
    if (f->have) { Destroy_SuperNode_SCP(&f->L); Destroy_CompCol_NCP(&f->U); }
    free(f->perm_r); free(f->perm_c); am_free(&f->am); f->tried = 0;
}
static ldc bval(int rhs, int i) {
    static const int tr[4] = { 1, -2, 3, 2 }, ti[4] = { 1, 0, -1, 2 };
    return rhs ? cpx(tr[i % 4], ti[i % 4]) : rnd(generic_value(i, 11, 4));
}
static void run_trsv(kfact_t *f, const kcase_t *c) {
    int n = f->n; ldc Tm[NMAX][NMAX], b[NMAX], x[NMAX];
    for (int i = 0; i < n; i++) for (int j = 0; j < n; j++) Tm[i][j] = opA(c->uplo ? f->Ud : f->Ld, c->trans, i, j);
    scalar_t *xb = malloc(sizeof(scalar_t) * n);         /* exactly n elements: the sanitizer sees any access outside */
    for (int i = 0; i < n; i++) { b[i] = bval(c->rhs, i); xb[i] = L2S(b[i]); }
    char tr[2] = { TRCH[c->trans], 0 }; int_t info = -999;
    vf_xerbla_calls = 0; long nl0 = vf_nlive, bf0 = vf_bad_free;
    sp_Xtrsv(c->uplo ? "U" : "L", tr, c->uplo ? "N" : "U", &f->L, &f->U, xb, &info);
    G->judged++;
    char cls[64], sig[160]; snprintf(cls, sizeof cls, "uplo=%c,trans=%c", c->uplo ? 'U' : 'L', TRCH[c->trans]);
    unsigned long long h = hcase(c); h = hbytes(h, xb, sizeof(scalar_t) * n); h = hmix(h, (unsigned long long)info); note_distinct(h);
    if (vf_nlive != nl0) viol("C19:trsv:leak", "%ld allocation(s) of the call still live on return", vf_nlive - nl0);
    if (vf_bad_free != bf0) viol("C19:trsv:bad-free", "%ld free(s) of unknown blocks", vf_bad_free - bf0);
    if (vf_xerbla_calls || info != 0) {
        snprintf(sig, sizeof sig, "C19:trsv:xerbla-rejects-documented:trans=%c", TRCH[c->trans]);
        viol(sig, "%s rejected argument %d (info=%d) for uplo='%c' trans='%c' diag='%c', which its header documents as legal; x was %s", vf_xerbla_calls ? vf_xerbla_name : "sp_?trsv", vf_xerbla_calls ? vf_xerbla_info : 0, (int)info,
             c->uplo ? 'U' : 'L', TRCH[c->trans], c->uplo ? 'N' : 'U', "returned without a solve");
        free(xb); return;
    }
    ld g = GAMMA(n + 2);
    for (int i = 0; i < n; i++) x[i] = S2L(xb[i]);
    for (int i = 0; i < n; i++) {
        ldc s = 0; ld S = 0;
        for (int j = 0; j < n; j++) { s += Tm[i][j] * x[j]; S += ABSL(Tm[i][j]) * ABSL(x[j]); }
        ld r = ABSL(s - b[i]), allow = g * S + (ld)(n + 2) * 0x1p-62L * (S + ABSL(b[i]));
        if (!(r <= allow)) { snprintf(sig, sizeof sig, "C19:trsv:residual:%s", cls); viol(sig, "row %d: |op(T)x-b|=%.3Le exceeds gamma(%d)*(|op(T)||x|)=%.3Le (x[%d]=%.17Lg%+.17Lgi)", i, r, n + 2, g * S, i, creall(x[i]), cimagl(x[i])); break; }
    }
    if (G->samples_left > 0 && n >= 3 && c->trans == (G->samples_left & 1) && c->uplo == (G->samples_left > 1)) { G->samples_left--; char cs[400]; case_str(c, cs, sizeof cs); out_sample(PROP, "%s -> x[0]=%.17Lg%+.17Lgi", cs, creall(x[0]), cimagl(x[0])); }
    free(xb);
}

/* ------------------------------------------------------------------ langs */
static void run_langs(const tmat_t *T, const ldc D[NMAX][NMAX], const kcase_t *c) {
    int m = T->m, n = T->n; amat_t am; am_build(&am, T, 0);
    char nm[2] = { NORMS[c->norm][0], 0 };
    vf_xerbla_calls = 0; long nl0 = vf_nlive, bf0 = vf_bad_free;
    real_t v = Xlangs(nm, &am.A);
    G->judged++;
    char cls[32], sig[160]; snprintf(cls, sizeof cls, "norm=%c", toupper((unsigned char)nm[0]) == 'O' ? '1' : toupper((unsigned char)nm[0]) == 'E' ? 'F' : toupper((unsigned char)nm[0]));
    check_side_effects("langs", cls, &am, nl0, bf0);
    /* reference over the stored entries, |.| = modulus */
    ld ref = 0; int terms = 1; char k = cls[5];
    if (k == 'M') { for (int q = 0; q < T->nnz; q++) { ld a = ABSL(T->val[q]); if (a > ref) ref = a; } terms = 0; }
    else if (k == '1') { for (int j = 0; j < n; j++) { ld s = 0; for (int i = 0; i < m; i++) s += ABSL(D[i][j]); if (s > ref) ref = s; } terms = m; }
    else if (k == 'I') { for (int i = 0; i < m; i++) { ld s = 0; for (int j = 0; j < n; j++) s += ABSL(D[i][j]); if (s > ref) ref = s; } terms = n; }
    else { ld s = 0; for (int q = 0; q < T->nnz; q++) s += ABSL(T->val[q]) * ABSL(T->val[q]); ref = sqrtl(s); terms = T->nnz + 3; }
    /* real max is exact; a sum of k magnitudes carries at most k-1 roundings; the complex modulus (?_abs) about 5 more */
    ld tol = ((ld)terms + (IS_COMPLEX ? 6 : 0)) * (ld)UROUND * ref;
    ld err = fabsl((ld)v - ref);
    if (!(err <= tol)) { snprintf(sig, sizeof sig, "C19:langs:wrong-value:%s", cls); viol(sig, "returned %.17Lg, the %s norm is %.17Lg (|diff|=%.3Le, allowed %.3Le)", (ld)v, cls, ref, err, tol); }
    unsigned long long h = hcase(c); h = hbytes(h, &v, sizeof v); note_distinct(h);
    if (G->samples_left > 0 && T->nnz >= 3 && k == "MI1"[G->samples_left - 1]) { G->samples_left--; char cs[400]; case_str(c, cs, sizeof cs); out_sample(PROP, "%s -> %.17Lg", cs, (ld)v); }
    am_free(&am);
}

/* ------------------------------------------------------------------ convert */
/* dense image + multiplicities of a column-oriented store; returns 0 or a message */
static int image_of(int m, int n, const int_t *cbeg, const int_t *cend, const int_t *rowind, const scalar_t *val, int nnz,
                    scalar_t Dd[NMAX][NMAX], int cnt[NMAX][NMAX], char *msg, size_t ml) {
    memset(Dd, 0, sizeof(scalar_t) * NMAX * NMAX); memset(cnt, 0, sizeof(int) * NMAX * NMAX);
    for (int j = 0; j < n; j++) {
        if (cbeg[j] < 0 || cend[j] < cbeg[j] || cend[j] > nnz) { snprintf(msg, ml, "column %d extent [%ld,%ld) outside [0,%d]", j, (long)cbeg[j], (long)cend[j], nnz); return 1; }
        for (long k = cbeg[j]; k < cend[j]; k++) {
            long r = rowind[k]; if (r < 0 || r >= m) { snprintf(msg, ml, "column %d: row index %ld out of range", j, r); return 1; }
            Dd[r][j] = val[k]; cnt[r][j]++;
        }
    }
    return 0;
}
/* the image must hold exactly the entries of T (moved to column colmap[j]), values bit-identical */
static int same_entries(const tmat_t *T, const int *colmap, scalar_t Dd[NMAX][NMAX], int cnt[NMAX][NMAX], char *msg, size_t ml) {
    int want[NMAX][NMAX]; scalar_t W[NMAX][NMAX]; memset(want, 0, sizeof want); memset(W, 0, sizeof W);
    for (int j = 0; j < T->n; j++) for (int k = T->colptr[j]; k < T->colptr[j + 1]; k++) { int jj = colmap ? colmap[j] : j; want[T->rowind[k]][jj]++; W[T->rowind[k]][jj] = L2S(T->val[k]); }
    for (int i = 0; i < T->m; i++) for (int j = 0; j < T->n; j++) {
        if (want[i][j] != cnt[i][j]) { snprintf(msg, ml, "entry (%d,%d) occurs %d time(s), expected %d", i, j, cnt[i][j], want[i][j]); return 1; }
        if (want[i][j] && !bits_equal(&W[i][j], &Dd[i][j])) { snprintf(msg, ml, "entry (%d,%d) has a different value", i, j); return 1; }
    }
    return 0;
}
static void run_convert(const tmat_t *T, const kcase_t *c) {
    int m = T->m, n = T->n, nnz = T->nnz; char msg[300], sig[160];
    static scalar_t Dd[NMAX][NMAX]; static int cnt[NMAX][NMAX];
    snprintf(sig, sizeof sig, "C19:convert:%s", OPN[c->op]);
    char sigm[160]; snprintf(sigm, sizeof sigm, "C19:convert:%s:matrix-not-preserved", OPN[c->op]);
    char sigh[160]; snprintf(sigh, sizeof sigh, "C19:convert:%s:header", OPN[c->op]);
    vf_xerbla_calls = 0; long nl0 = vf_nlive, bf0 = vf_bad_free;
    unsigned long long h = hcase(c);
    G->judged++;
    if (c->op == OP_R2C) {
        /* row-wise input; var 1: columns inside each row in descending order (compressed-row storage does not require sorted rows) */
        scalar_t *a = malloc(sizeof(scalar_t) * (nnz ? nnz : 1)), *a0 = malloc(sizeof(scalar_t) * (nnz ? nnz : 1));
        int_t *ci = malloc(sizeof(int_t) * (nnz ? nnz : 1)), *ci0 = malloc(sizeof(int_t) * (nnz ? nnz : 1)), *rp = malloc(sizeof(int_t) * (m + 1)), *rp0 = malloc(sizeof(int_t) * (m + 1));
        int q = 0;
        for (int i = 0; i < m; i++) { rp[i] = q; for (int jj = 0; jj < n; jj++) { int j = c->var ? n - 1 - jj : jj; for (int k = T->colptr[j]; k < T->colptr[j + 1]; k++) if (T->rowind[k] == i) { a[q] = L2S(T->val[k]); ci[q] = j; q++; } } }
        rp[m] = q;
        memcpy(a0, a, sizeof(scalar_t) * nnz); memcpy(ci0, ci, sizeof(int_t) * nnz); memcpy(rp0, rp, sizeof(int_t) * (m + 1));
        scalar_t *at = NULL; int_t *ri = NULL, *cp = NULL;
        XCompRow_to_CompCol(m, n, nnz, a, ci, rp, &at, &ri, &cp);
        if (memcmp(a0, a, sizeof(scalar_t) * nnz) || memcmp(ci0, ci, sizeof(int_t) * nnz) || memcmp(rp0, rp, sizeof(int_t) * (m + 1))) viol("C19:convert:r2c:input-modified", "the row-wise input arrays were written");
        if (!at || !ri || !cp) viol(sigm, "an output array was not returned");
        else {
            int bad = cp[0] != 0 || cp[n] != nnz; for (int j = 0; j < n; j++) if (cp[j + 1] < cp[j]) bad = 1;
            if (bad) viol(sigm, "column pointers are not a monotone sequence from 0 to nnz=%d", nnz);
            else if (image_of(m, n, cp, cp + 1, ri, at, nnz, Dd, cnt, msg, sizeof msg) || same_entries(T, NULL, Dd, cnt, msg, sizeof msg)) viol(sigm, "%s", msg);
            h = hbytes(h, cp, sizeof(int_t) * (n + 1)); h = hbytes(h, ri, sizeof(int_t) * nnz); h = hbytes(h, at, sizeof(scalar_t) * nnz);
            SUPERLU_FREE(at); SUPERLU_FREE(ri); SUPERLU_FREE(cp);
        }
        free(a); free(a0); free(ci); free(ci0); free(rp); free(rp0);
    } else if (c->op == OP_COPY) {
        amat_t am; am_build(&am, T, 0);
        SuperMatrix B; NCformat bs; memset(&B, 0x5a, sizeof B); memset(&bs, 0, sizeof bs);
        bs.nzval = malloc(sizeof(scalar_t) * nnz); bs.rowind = malloc(sizeof(int_t) * nnz); bs.colptr = malloc(sizeof(int_t) * (n + 1)); bs.nnz = -1;   /* exact sizes */
        memset(bs.nzval, 0x5a, sizeof(scalar_t) * nnz); memset(bs.rowind, 0x5a, sizeof(int_t) * nnz); memset(bs.colptr, 0x5a, sizeof(int_t) * (n + 1));
        B.Store = &bs;
        XCopy_CompCol_Matrix(&am.A, &B);
        if (am_unchanged(&am)) viol("C19:convert:copy:input-modified", "the source matrix was written");
        if (B.Stype != SLU_NC || B.Dtype != SLU_DT || B.Mtype != SLU_GE || B.nrow != m || B.ncol != n || B.Store != &bs || bs.nnz != nnz) viol(sigh, "header of the copy: Stype=%d Dtype=%d Mtype=%d %ldx%ld nnz=%ld", B.Stype, B.Dtype, B.Mtype, (long)B.nrow, (long)B.ncol, (long)bs.nnz);
        else if (memcmp(bs.colptr, am.ptr, sizeof(int_t) * (n + 1)) || memcmp(bs.rowind, am.ind, sizeof(int_t) * nnz) || memcmp(bs.nzval, am.val, sizeof(scalar_t) * nnz)) viol(sigm, "arrays of the copy differ from the source");
        h = hbytes(h, bs.colptr, sizeof(int_t) * (n + 1)); h = hbytes(h, bs.nzval, sizeof(scalar_t) * nnz);
        free(bs.nzval); free(bs.rowind); free(bs.colptr); am_free(&am);
    } else if (c->op == OP_CREATE) {
        amat_t am, ar; am_build(&am, T, 0); am_build(&ar, T, 1);
        SuperMatrix A2, R2, X2; memset(&A2, 0x5a, sizeof A2); memset(&R2, 0x5a, sizeof R2); memset(&X2, 0x5a, sizeof X2);
        XCreate_CompCol_Matrix(&A2, m, n, nnz, am.val, am.ind, am.ptr, SLU_NC, SLU_DT, SLU_GE);
        NCformat *s = A2.Store;
        if (A2.Stype != SLU_NC || A2.Dtype != SLU_DT || A2.Mtype != SLU_GE || A2.nrow != m || A2.ncol != n || !s || s->nnz != nnz || s->nzval != am.val || s->rowind != am.ind || s->colptr != am.ptr) viol(sigh, "CompCol header/store fields differ from the arguments");
        else if (image_of(m, n, s->colptr, s->colptr + 1, s->rowind, s->nzval, nnz, Dd, cnt, msg, sizeof msg) || same_entries(T, NULL, Dd, cnt, msg, sizeof msg)) viol(sigm, "%s", msg);
        XCreate_CompRow_Matrix(&R2, m, n, nnz, ar.val, ar.ind, ar.ptr, SLU_NR, SLU_DT, SLU_GE);
        NRformat *r = R2.Store;
        if (R2.Stype != SLU_NR || R2.Dtype != SLU_DT || R2.Mtype != SLU_GE || R2.nrow != m || R2.ncol != n || !r || r->nnz != nnz || r->nzval != ar.val || r->colind != ar.ind || r->rowptr != ar.ptr) viol(sigh, "CompRow header/store fields differ from the arguments");
        scalar_t *xd = malloc(sizeof(scalar_t) * (m + 1) * n);
        XCreate_Dense_Matrix(&X2, m, n, xd, m + 1, SLU_DN, SLU_DT, SLU_GE);
        DNformat *d = X2.Store;
        if (X2.Stype != SLU_DN || X2.Dtype != SLU_DT || X2.Mtype != SLU_GE || X2.nrow != m || X2.ncol != n || !d || d->lda != m + 1 || d->nzval != xd) viol(sigh, "Dense header/store fields differ from the arguments");
        if (am_unchanged(&am) || am_unchanged(&ar)) viol("C19:convert:create:input-modified", "the caller's arrays were written");
        if (s) Destroy_SuperMatrix_Store(&A2); if (r) Destroy_SuperMatrix_Store(&R2); if (d) Destroy_SuperMatrix_Store(&X2);
        free(xd); am_free(&am); am_free(&ar);
    } else if (c->op == OP_PERMUTED) {
        amat_t am; am_build(&am, T, 0);
        int p[NMAX]; nth_perm(n, c->var, p);
        int_t *cb = malloc(sizeof(int_t) * n), *ce = malloc(sizeof(int_t) * n);
        for (int j = 0; j < n; j++) { cb[p[j]] = am.ptr[j]; ce[p[j]] = am.ptr[j + 1]; }
        SuperMatrix V; memset(&V, 0x5a, sizeof V);
        XCreate_CompCol_Permuted(&V, m, n, nnz, am.val, am.ind, cb, ce, SLU_NCP, SLU_DT, SLU_GE);
        NCPformat *s = V.Store;
        if (V.Stype != SLU_NCP || V.Dtype != SLU_DT || V.Mtype != SLU_GE || V.nrow != m || V.ncol != n || !s || s->nnz != nnz || s->nzval != am.val || s->rowind != am.ind || s->colbeg != cb || s->colend != ce) viol(sigh, "permuted-view header/store fields differ from the arguments");
        else if (image_of(m, n, s->colbeg, s->colend, s->rowind, s->nzval, nnz, Dd, cnt, msg, sizeof msg) || same_entries(T, p, Dd, cnt, msg, sizeof msg)) viol(sigm, "%s", msg);
        if (am_unchanged(&am)) viol("C19:convert:permuted:input-modified", "the caller's arrays were written");
        if (s) SUPERLU_FREE(V.Store);
        h = hbytes(h, cb, sizeof(int_t) * n);
        free(cb); free(ce); am_free(&am);
    } else if (c->op == OP_COLORDER) {
        amat_t am; am_build(&am, T, 0);
        int p[NMAX]; nth_perm(n, c->var, p);
        int_t *pc = malloc(sizeof(int_t) * n); for (int j = 0; j < n; j++) pc[j] = p[j];
        superlumt_options_t o; memset(&o, 0, sizeof o);
        o.nprocs = 1; o.fact = DOFACT; o.trans = NOTRANS; o.refact = NO; o.panel_size = 1; o.relax = 1; o.diag_pivot_thresh = 1.0; o.usepr = NO; o.SymmetricMode = NO; o.PrintStat = NO;
        o.perm_c = pc; o.etree = intMalloc(n); o.colcnt_h = intMalloc(n); o.part_super_h = intMalloc(n);
        SuperMatrix AC; memset(&AC, 0, sizeof AC);
        sp_colorder(&am.A, pc, &o, &AC);
        NCPformat *s = AC.Store; int seen[NMAX] = { 0 }, okp = 1, fp[NMAX];
        for (int j = 0; j < n; j++) { if (pc[j] < 0 || pc[j] >= n || seen[pc[j]]++) okp = 0; else fp[j] = (int)pc[j]; }
        if (!okp) viol("C19:convert:colorder:perm", "perm_c returned by sp_colorder is not a permutation");
        else if (AC.Stype != SLU_NCP || AC.Dtype != SLU_DT || AC.Mtype != SLU_GE || AC.nrow != m || AC.ncol != n || !s || s->nnz != nnz) viol(sigh, "header of A*Pc: Stype=%d Dtype=%d Mtype=%d %ldx%ld", AC.Stype, AC.Dtype, AC.Mtype, (long)AC.nrow, (long)AC.ncol);
        else if (image_of(m, n, s->colbeg, s->colend, s->rowind, s->nzval, nnz, Dd, cnt, msg, sizeof msg) || same_entries(T, fp, Dd, cnt, msg, sizeof msg)) viol(sigm, "A*Pc (perm_c as returned): %s", msg);
        if (am_unchanged(&am)) viol("C19:convert:colorder:input-modified", "A was written");
        h = hbytes(h, pc, sizeof(int_t) * n);
        pxgstrf_finalize(&o, &AC);
        free(pc); am_free(&am);
    }
    if (vf_xerbla_calls) viol("C19:convert:xerbla-on-legal-call", "%s reported argument %d", vf_xerbla_name, vf_xerbla_info);
    if (vf_nlive != nl0) { snprintf(sig, sizeof sig, "C19:convert:%s:leak", OPN[c->op]); viol(sig, "%ld allocation(s) still live after the documented clean-up", vf_nlive - nl0); }
    if (vf_bad_free != bf0) { snprintf(sig, sizeof sig, "C19:convert:%s:bad-free", OPN[c->op]); viol(sig, "%ld free(s) of unknown blocks", vf_bad_free - bf0); }
    note_distinct(h);
    if (G->samples_left > 0 && nnz >= 3 && c->var == 1 && c->op == (G->samples_left == 3 ? OP_R2C : G->samples_left == 2 ? OP_PERMUTED : OP_COLORDER)) { G->samples_left--; char cs[400]; case_str(c, cs, sizeof cs); out_sample(PROP, "%s -> preserved", cs); }
}

/* ------------------------------------------------------------------ enumeration */
typedef struct { int fam, full, mmax, nmax, nvt, ncp; int nslice, islice; long nunits; int nshape; int sh[32][2]; long cum[33]; } sweep_t;
static sweep_t SW;

static void sweep_init(void) {
    SW.nshape = 0; SW.cum[0] = 0;
    if (SW.fam == F_TRSV) { for (int n = 1; n <= SW.nmax; n++) { SW.sh[SW.nshape][0] = n; SW.sh[SW.nshape][1] = n; SW.nshape++; } SW.sh[SW.nshape][0] = 10; SW.sh[SW.nshape][1] = 10; SW.nshape++; }
    else for (int m = 1; m <= SW.mmax; m++) for (int n = 1; n <= SW.nmax; n++) { SW.sh[SW.nshape][0] = m; SW.sh[SW.nshape][1] = n; SW.nshape++; }
    for (int s = 0; s < SW.nshape; s++) SW.cum[s + 1] = SW.cum[s] + (SW.sh[s][0] > 5 ? 4L /* catalogue */ : (1L << (SW.sh[s][0] * SW.sh[s][1])));
    SW.nunits = SW.cum[SW.nshape] * SW.nvt;
}
static void unit_decode(long u, int *m, int *n, unsigned *bits, int *vt) {
    *vt = (int)(u % SW.nvt); long q = u / SW.nvt; int s = 0; while (q >= SW.cum[s + 1]) s++;
    *m = SW.sh[s][0]; *n = SW.sh[s][1]; *bits = (unsigned)(q - SW.cum[s]);
}

/* gate in front of every case: resume position after a death, per-class death cap */
static int case_gate(const kcase_t *c) {
    G->cfg_no++;
    if (G->resume_cfg && G->cfg_no <= G->resume_cfg) return 0;
    if (death_cap > 0 && G->class_deaths[class_of(c)] >= death_cap) { G->skipped++; G->skip_dead_class++; return 0; }
    G->cur = *c; G->in_case = 1; G->runs++;
    return 1;
}
static void case_done(void) { G->in_case = 0; }

static void unit_cases(int m, int n, unsigned bits, int vt) {
    static tmat_t T; static ldc D[NMAX][NMAX];
    kcase_t c; memset(&c, 0, sizeof c); c.fam = SW.fam; c.m = m; c.n = n; c.bits = bits; c.vt = vt; c.incx = c.incy = 1;
    build_matrix(&T, D, SW.fam, m, n, bits, vt);
    if (SW.fam == F_GEMV) {
        for (c.trans = 0; c.trans < 3; c.trans++) for (c.ai = 0; c.ai < 4; c.ai++) for (c.bi = 0; c.bi < 4; c.bi++)
            for (int ix = 0; ix < 4; ix++) for (int iy = 0; iy < 4; iy++) { c.incx = INCS[ix]; c.incy = INCS[iy]; if (case_gate(&c)) { run_gemv(&T, D, &c); case_done(); } }
        if (SW.ncp) {
            c.ai = 3; c.bi = 2; c.incx = c.incy = 1;
            for (c.store = 1; c.store <= 2; c.store++) for (c.trans = 0; c.trans < 3; c.trans++) for (c.perm = 0; c.perm < nfact(n); c.perm++) if (case_gate(&c)) { run_gemv(&T, D, &c); case_done(); }
        }
    } else if (SW.fam == F_GEMM) {
        for (c.trans = 0; c.trans < 3; c.trans++) for (c.ai = 0; c.ai < 4; c.ai++) for (c.bi = 0; c.bi < 4; c.bi++)
            for (c.nc = 1; c.nc <= 2; c.nc++) for (c.ldbx = 0; c.ldbx <= 2; c.ldbx += 2) for (c.ldcx = 0; c.ldcx <= 3; c.ldcx += 3) if (case_gate(&c)) { run_gemm(&T, D, &c); case_done(); }
    } else if (SW.fam == F_LANGS) {
        for (c.norm = 0; c.norm < 11; c.norm++) if (case_gate(&c)) { run_langs(&T, D, &c); case_done(); }
    } else if (SW.fam == F_CONVERT) {
        for (c.op = 0; c.op < OP_N; c.op++) {
            int nv = c.op == OP_R2C ? 2 : (c.op == OP_PERMUTED || c.op == OP_COLORDER) ? nfact(n) : 1;
            if (c.op == OP_COLORDER && m != n) continue;
            for (c.var = 0; c.var < nv; c.var++) if (case_gate(&c)) { run_convert(&T, &c); case_done(); }
        }
    } else if (SW.fam == F_TRSV) {
        /* hypothesis: factors exist, i.e. the pattern is structurally nonsingular (generic values: then numerically nonsingular) */
        int pat[NMAX][NMAX], cols[NMAX]; memset(pat, 0, sizeof pat);
        for (int i = 0; i < n; i++) { cols[i] = i; for (int j = 0; j < n; j++) pat[i][j] = n > 5 ? (D[i][j] != 0) : (int)((bits >> (i * n + j)) & 1); }
        if (struct_rank_prefix(n, pat, cols, n) < n) { if (!G->resume_cfg) G->units_outside_hyp++; return; }
        /* factor options (panel_size, relax, maxsuper).  n <= 3 and the full grid: {1,4} x {1,2} x {1,2,n}; quick grid at n = 4: three
           combinations that give singleton, relaxed and two-column T2 supernodes */
        int cfg[12][3], ncfg = 0;
        if (n > 5) { static const int q[5][3] = { { 1, 1, 2 }, { 1, 1, 3 }, { 2, 1, 2 }, { 1, 2, 2 }, { 4, 1, 4 } }; for (int k = 0; k < 5; k++) { cfg[ncfg][0] = q[k][0]; cfg[ncfg][1] = q[k][1]; cfg[ncfg][2] = q[k][2]; ncfg++; } }
        else if (n >= 4 && !SW.full) { static const int q[3][3] = { { 1, 2, 1 }, { 4, 1, 2 }, { 1, 1, 99 } }; for (int k = 0; k < 3; k++) { cfg[ncfg][0] = q[k][0]; cfg[ncfg][1] = q[k][1]; cfg[ncfg][2] = q[k][2] == 99 ? n : q[k][2]; ncfg++; } }
        else {
            static const int WS[2] = { 1, 4 }, RS[2] = { 1, 2 };
            int msv[3] = { 1, 2, n }, nms = n >= 3 ? 3 : n;
            for (int wi = 0; wi < 2; wi++) for (int ri = 0; ri < 2; ri++) for (int mi = 0; mi < nms; mi++) { cfg[ncfg][0] = WS[wi]; cfg[ncfg][1] = RS[ri]; cfg[ncfg][2] = msv[mi]; ncfg++; }
        }
        for (int k = 0; k < ncfg; k++) {
            static kfact_t f; f.tried = 0;
            c.w = cfg[k][0]; c.rlx = cfg[k][1]; c.ms = cfg[k][2];
            for (c.uplo = 0; c.uplo < 2; c.uplo++) for (c.trans = 0; c.trans < 3; c.trans++) for (c.rhs = 0; c.rhs < 2; c.rhs++) if (case_gate(&c)) {
                if (!f.tried) kf_factor(&f, &T, c.w, c.rlx, c.ms);
                if (!f.ok) { G->skipped++; G->skip_no_factors++; G->runs--; }     /* no well-formed factors with info = 0: C02/C09's subject, nothing to solve with */
                else run_trsv(&f, &c);
                case_done();
            }
            kf_free(&f);
        }
    }
}
static void unit_fn(long u) { int m, n, vt; unsigned bits; G->cfg_no = 0; unit_decode(u, &m, &n, &bits, &vt); unit_cases(m, n, bits, vt); }

/* ------------------------------------------------------------------ deaths */
static void read_err(char *buf, size_t bl) {
    buf[0] = 0; if (errfd < 0) return;
    ssize_t k = pread(errfd, buf, bl - 1, 0); if (k < 0) k = 0; buf[k] = 0;
    for (ssize_t i = 0; i < k; i++) if (!buf[i]) buf[i] = ' ';
}
static void on_death(int kind, int code) {
    char err[4096], cd[160], sig[256], cls[96] = "", detail[700]; const kcase_t *c = &G->cur;
    read_err(err, sizeof err);
    vf_crash_desc(kind, code, cd, sizeof cd);          /* also consumes the sanitizer log of the dead child */
    G->deaths++;
    const char *fam = FAMN[SW.fam];
    if (!G->in_case) { snprintf(sig, sizeof sig, "C19:crash:%s:%s:outside-case", cd, fam); G->cur.fam = SW.fam; viol(sig, "process died (%s) outside any case", cd); return; }
    G->class_deaths[class_of(c)]++;
    if (c->fam == F_GEMV || c->fam == F_GEMM) {
        const char *a = c->incx != 1 ? "incx!=1" : c->incy != 1 ? "incy!=1" : "unit-strides", *b = c->incy != 1 ? "incy!=1" : c->incx != 1 ? "incx!=1" : "unit-strides";
        snprintf(cls, sizeof cls, "trans=%s,%s", c->trans == 0 ? "N" : "T/C", c->trans == 0 ? b : a);     /* N scatters into y, T/C gathers from x */
        if (c->store) snprintf(cls, sizeof cls, "store=NCP");
    } else if (c->fam == F_TRSV) snprintf(cls, sizeof cls, "uplo=%c,trans=%c", c->uplo ? 'U' : 'L', TRCH[c->trans]);
    else if (c->fam == F_LANGS) { char k = (char)toupper((unsigned char)NORMS[c->norm][0]); snprintf(cls, sizeof cls, "norm=%c", k == 'O' ? '1' : k == 'E' ? 'F' : k); }
    else snprintf(cls, sizeof cls, "%s", OPN[c->op]);
    char *ni = strstr(err, "Not implemented");
    if (kind == VF_EXIT && code == 255) {
        G->aborts++;
        char line[200] = ""; const char *src = ni ? ni : err; snprintf(line, sizeof line, "%.180s", src); char *nl = strchr(line, '\n'); if (nl) *nl = 0;
        /* keep "... at line N in file <basename>" */
        char *sl = strrchr(line, '/'); char where[200]; if (sl) { char *in = strstr(line, " in file "); if (in) { *in = 0; snprintf(where, sizeof where, "%s in file %s", line, sl + 1); } else snprintf(where, sizeof where, "%s", line); } else snprintf(where, sizeof where, "%s", line);
        snprintf(sig, sizeof sig, "C19:%s:%s:%s", fam, ni ? "abort-not-implemented" : "abort", cls);
        snprintf(detail, sizeof detail, "the library terminated the process with exit(-1) on a legal call: \"%s\"", where);
        viol(sig, "%s", detail);
        return;
    }
    const char *site = strchr(cd, '@');
    snprintf(sig, sizeof sig, "C19:crash:%s:%s%s", site ? site : cd, fam, c->store ? ":store=NCP" : "");
    viol(sig, "process died (%s) while running this case", cd);
}

/* run fn(lo..hi-1 restricted to the slice) in children; resume behind every death */
static void run_range(long a, long b, int timeout) {
    long next = a;
    while (next < b) {
        vf_sh->cur = next; vf_sh->done = 0; vf_sh->where[0] = 0; G->in_case = 0; fflush(NULL);
        if (errfd >= 0) { if (ftruncate(errfd, 0)) {} }
        pid_t pid = fork();
        if (pid == 0) {
            signal(SIGALRM, vf_alarm); vf_install_fault_handlers();
            if (errfd >= 0) dup2(errfd, 2);
            for (long i = next; i < b; i++) { if (i % SW.nslice != SW.islice) continue; vf_sh->cur = i; vf_case_timer(timeout); unit_fn(i); G->resume_cfg = 0; }
            vf_sh->done = 1; fflush(NULL); _exit(0);
        }
        int st = 0; waitpid(pid, &st, 0); vf_last_child = pid;
        if (WIFEXITED(st) && WEXITSTATUS(st) == 0 && vf_sh->done) break;
        long bad = vf_sh->cur; int kind, code;
        if (WIFSIGNALED(st)) { kind = VF_SIGNAL; code = WTERMSIG(st); } else if (WEXITSTATUS(st) == 99) { kind = VF_ASAN; code = 99; }
        else if (WEXITSTATUS(st) == 97) { kind = VF_TIMEOUT; code = 97; } else if (WEXITSTATUS(st) == 98) { kind = VF_FAULT; code = 98; } else { kind = VF_EXIT; code = WEXITSTATUS(st); }
        on_death(kind, code);
        if (G->cfg_no > G->resume_cfg) { G->resume_cfg = G->cfg_no; next = bad; }     /* same unit again, behind the case that died */
        else { G->resume_cfg = 0; next = bad + 1; }
    }
}

/* ------------------------------------------------------------------ replay of one case string */
static kcase_t ONE;
static void one_fn(void) {
    static tmat_t T; static ldc D[NMAX][NMAX]; kcase_t *c = &ONE;
    build_matrix(&T, D, c->fam, c->m, c->n, c->bits, c->vt);
    G->cur = *c; G->in_case = 1; G->runs++;
    switch (c->fam) {
    case F_GEMV: run_gemv(&T, D, c); break;
    case F_GEMM: run_gemm(&T, D, c); break;
    case F_LANGS: run_langs(&T, D, c); break;
    case F_CONVERT: run_convert(&T, c); break;
    case F_TRSV: { static kfact_t f; kf_factor(&f, &T, c->w, c->rlx, c->ms); if (!f.ok) { G->skipped++; G->skip_no_factors++; } else run_trsv(&f, c); kf_free(&f); break; }
    }
    G->in_case = 0;
}
static int replay_one(const char *s) {
    kcase_t *c = &ONE; memset(c, 0, sizeof *c); c->incx = c->incy = 1; c->nc = 1; c->w = 1; c->rlx = 1; c->ms = 1;
    const char *p; char fam[32] = "", pat[200] = "", nm[8] = "", op[32] = ""; char ch;
#define GETI(key, var) if ((p = strstr(s, key "="))) var = atoi(p + strlen(key) + 1)
    if ((p = strstr(s, "fam="))) sscanf(p + 4, "%31s", fam);
    c->fam = -1; for (int k = 0; k < F_N; k++) if (!strcmp(fam, FAMN[k])) c->fam = k;
    GETI(" m", c->m); GETI(" n", c->n); GETI("vt", c->vt); GETI(" a", c->ai); GETI(" b", c->bi); GETI("incx", c->incx); GETI("incy", c->incy);
    GETI("st", c->store); GETI("pm", c->perm); GETI("nc", c->nc); GETI("ldbx", c->ldbx); GETI("ldcx", c->ldcx); GETI(" w", c->w); GETI("rlx", c->rlx); GETI("ms", c->ms);
    GETI("rhs", c->rhs); GETI("var", c->var);
    if ((p = strstr(s, "pat="))) sscanf(p + 4, "%199[01]", pat);
    if ((p = strstr(s, " tr=")) && sscanf(p + 4, "%c", &ch) == 1) c->trans = ch == 'N' ? 0 : ch == 'T' ? 1 : 2;
    if ((p = strstr(s, "uplo=")) && sscanf(p + 5, "%c", &ch) == 1) c->uplo = ch == 'U';
    if ((p = strstr(s, "norm="))) { sscanf(p + 5, "%7s", nm); c->norm = -1; for (int k = 0; k < 11; k++) if (!strcmp(nm, NORMS[k])) c->norm = k; }
    if ((p = strstr(s, "op="))) { sscanf(p + 3, "%31s", op); c->op = -1; for (int k = 0; k < OP_N; k++) if (!strcmp(op, OPN[k])) c->op = k; }
    if (c->n > 5 && (p = strstr(s, "pat=cat"))) { c->bits = (unsigned)atoi(p + 7); if (c->fam != F_TRSV || c->n > NMAX) { fprintf(stderr, "bad case string\n"); return 2; } }
    else {
    if (c->fam < 0 || c->m <= 0 || c->n <= 0 || c->m > NMAX || c->n > NMAX || (int)strlen(pat) != c->m * c->n || c->m * c->n > 31 || c->norm < 0 || c->op < 0) { fprintf(stderr, "bad case string\n"); return 2; }
    for (int k = 0; k < c->m * c->n; k++) if (pat[k] == '1') c->bits |= 1u << k;
    }
    SW.fam = c->fam; G->cur = *c;
    fflush(NULL);
    pid_t pid = fork();
    if (pid == 0) { signal(SIGALRM, vf_alarm); vf_install_fault_handlers(); if (errfd >= 0) dup2(errfd, 2); vf_case_timer(60); one_fn(); fflush(NULL); _exit(0); }
    int st = 0; waitpid(pid, &st, 0); vf_last_child = pid;
    if (!(WIFEXITED(st) && WEXITSTATUS(st) == 0)) {
        int kind, code;
        if (WIFSIGNALED(st)) { kind = VF_SIGNAL; code = WTERMSIG(st); } else if (WEXITSTATUS(st) == 99) { kind = VF_ASAN; code = 99; }
        else if (WEXITSTATUS(st) == 97) { kind = VF_TIMEOUT; code = 97; } else if (WEXITSTATUS(st) == 98) { kind = VF_FAULT; code = 98; } else { kind = VF_EXIT; code = WEXITSTATUS(st); }
        on_death(kind, code);
    }
    return G->viol ? 1 : 0;
}

int main(int argc, char **argv) {
    out_init();
    G = mmap(NULL, sizeof *G, PROT_READ | PROT_WRITE, MAP_SHARED | MAP_ANONYMOUS, -1, 0);
    vf_sh = mmap(NULL, sizeof *vf_sh, PROT_READ | PROT_WRITE, MAP_SHARED | MAP_ANONYMOUS, -1, 0);
    G->samples_left = 3;
    PROP = arg_str(argc, argv, "--prop", "C19");
    { char tn[] = "/tmp/mckern-err-XXXXXX"; errfd = mkstemp(tn); if (errfd >= 0) { unlink(tn); fcntl(errfd, F_SETFL, O_APPEND); } }   /* the children's stderr: abort diagnostics */
    const char *one = arg_str(argc, argv, "--one", NULL);
    if (one) { int rc = replay_one(one); out_stats(PROP, "\"runs\":%ld,\"judged\":%ld,\"skipped\":%ld,\"violations\":%ld,\"deaths\":%ld", G->runs, G->judged, G->skipped, G->viol, G->deaths); return rc; }
    const char *family = arg_str(argc, argv, "--family", "gemv"), *grid = arg_str(argc, argv, "--grid", "quick");
    SW.fam = -1; for (int k = 0; k < F_N; k++) if (!strcmp(family, FAMN[k])) SW.fam = k;
    if (SW.fam < 0) { fprintf(stderr, "unknown --family %s\n", family); return 2; }
    SW.full = !strcmp(grid, "full");
    /* grids: quick and full enumerate the same input space for gemv/gemm/langs/convert; quick caps the number of process deaths it
       pays for per input class (every further case of a class that keeps killing the process is counted as skipped), full does not.
       trsv: n <= 4; quick uses one set of values and 3 of the 12 factor-option combinations at n = 4, full two sets and all 12. */
    SW.mmax = arg_int(argc, argv, "--mmax", 3); SW.nmax = arg_int(argc, argv, "--nmax", SW.fam == F_TRSV ? 4 : 3);
    if (SW.mmax > 5 || SW.nmax > 5 || SW.mmax * SW.nmax > 20) { fprintf(stderr, "bounds too large\n"); return 2; }
    SW.nvt = SW.fam == F_TRSV ? (SW.full ? 2 : 1) : 2;
    SW.ncp = arg_int(argc, argv, "--ncp", 1);
    death_cap = arg_int(argc, argv, "--death-cap", SW.full ? 0 : 3);
    print_cap = arg_int(argc, argv, "--print-cap", 5);
    const char *sl = arg_str(argc, argv, "--slice", "0/1"); sscanf(sl, "%d/%d", &SW.islice, &SW.nslice); if (SW.nslice < 1) SW.nslice = 1;
    int timeout = arg_int(argc, argv, "--timeout", 60);
    double deadline = atof(arg_str(argc, argv, "--deadline", "1e9")), t0 = now_s();
    sweep_init();
    long done = 0, mine = 0; int complete = 1; const long CH = 256;
    for (long u = 0; u < SW.nunits; u++) if (u % SW.nslice == SW.islice) mine++;
    for (long a = 0; a < SW.nunits; a += CH) {
        if (now_s() - t0 > deadline) { complete = 0; break; }
        long b = a + CH < SW.nunits ? a + CH : SW.nunits;
        run_range(a, b, timeout);
        for (long u = a; u < b; u++) if (u % SW.nslice == SW.islice) done++;
    }
    char sg[6000]; int o = 0; sg[0] = 0;
    for (int k = 0; k < NSIG && G->sigs[k].sig[0] && o < (int)sizeof sg - 200; k++) o += snprintf(sg + o, sizeof sg - o, "%s\"%s\":%ld", k ? "," : "", G->sigs[k].sig, G->sigs[k].count);
    out_stats(PROP, "\"family\":\"%s\",\"grid\":\"%s\",\"mmax\":%d,\"nmax\":%d,\"slice\":\"%d/%d\",\"death_cap\":%d,\"matrices\":%ld,\"matrices_total\":%ld,\"complete\":%s,"
              "\"runs\":%ld,\"judged\":%ld,\"skipped\":%ld,\"skipped_class_keeps_dying\":%ld,\"skipped_no_factors\":%ld,\"matrices_outside_hypothesis\":%ld,"
              "\"violations\":%ld,\"deaths\":%ld,\"aborts\":%ld,\"factorizations\":%ld,\"distinct_outcomes\":%ld,\"signatures\":{%s},\"wall_s\":%.2f",
              family, grid, SW.mmax, SW.nmax, SW.islice, SW.nslice, death_cap, done, mine, complete ? "true" : "false",
              G->runs, G->judged, G->skipped, G->skip_dead_class, G->skip_no_factors, G->units_outside_hyp,
              G->viol, G->deaths, G->aborts, G->factorizations, G->distinct, sg, now_s() - t0);
    return 0;
}
