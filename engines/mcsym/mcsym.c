/* Engine Q (part 9): the symmetric-mode storage prediction of C16, checked where it is computed.
 *
 * With SymmetricMode the library reserves, for every column j that can lead a stored supernode, colcnt_h[j] rows
 * (sp_colorder -> cholnzcnt: column counts of the Cholesky factor of C = Pc (A+A^T) Pc^T; PresetMap splits
 * H-supernodes at sp_ienv(3), so EVERY column can become a leader).  With diagonal pivots and no cancellation
 * the structure of column j of L is exactly column j of the symbolic Cholesky factor of C, so
 *       "the fill never exceeds the prediction"   <=>   colcnt_h[j] >= |struct(chol(C))(:,j)|   for every j.
 *
 * Enumeration: EVERY symmetric 0/1 pattern with full diagonal of order n (2^(n(n-1)/2) patterns) x ordering option
 * 0..3 of get_perm_c; reference: symbolic Cholesky by the definition (eliminate vertex j, pairwise connect its
 * higher neighbours), in the final numbering sp_colorder returns.  Also judged: part_super_h is a partition into
 * blocks whose columns form a chain in the returned etree with nested structures (fundamental supernodes), and the
 * returned etree is the elimination tree of C.
 *
 *   mcsym --prop C16 --n 6 [--ord 0..3|-1=all] [--slice i/k]
 *   mcsym --prop C16 --one "n=5 bits=92 ord=0"
 */
#include "../common/factor.h"

static const char *PROP = "C16";
static long n_pat, n_viol, n_distinct_tot, n_over; static int samples_left = 3;
static char sigs[16][64]; static int printed[16], nsig;
static unsigned long long seen_h[1 << 16];
static void note(unsigned long long h) { unsigned k = (unsigned)(h >> 17) & 0xffff; for (int t = 0; t < 32; t++) { unsigned s = (k + t) & 0xffff; if (seen_h[s] == h) return; if (!seen_h[s]) { seen_h[s] = h; n_distinct_tot++; return; } } }
static void viol(const char *sig, const char *cs, const char *fmt, ...) {
    char buf[600]; va_list ap; va_start(ap, fmt); vsnprintf(buf, sizeof buf, fmt, ap); va_end(ap);
    n_viol++;
    int k; for (k = 0; k < nsig; k++) if (!strcmp(sigs[k], sig)) break;
    if (k == nsig) { if (nsig >= 16) return; snprintf(sigs[nsig++], 64, "%s", sig); }
    if (printed[k]++ < 3) out_violation(PROP, sig, cs, "%s", buf);
}
static void vstr(const int_t *v, int n, char *b, size_t bl) { int o = 0; b[0] = 0; for (int i = 0; i < n && o < (int)bl - 8; i++) o += snprintf(b + o, bl - o, "%s%ld", i ? "," : "", (long)v[i]); }

static int UNSYM;      /* --unsym 1: every full-diagonal pattern, structurally unsymmetric ones included (n(n-1) free entries); the prediction is about A + A^T */
static void one_case(int n, long bits, int ord)
{
    int pat[NMAX][NMAX]; memset(pat, 0, sizeof pat); int k = 0; ldc D[NMAX][NMAX];
    if (UNSYM) { for (int i = 0; i < n; i++) for (int j = 0; j < n; j++) { if (i == j) pat[i][j] = 1; else { pat[i][j] = (int)((bits >> k) & 1); k++; } } }
    else for (int i = 0; i < n; i++) { pat[i][i] = 1; for (int j = i + 1; j < n; j++) { pat[i][j] = pat[j][i] = (int)((bits >> k) & 1); k++; } }
    for (int i = 0; i < n; i++) for (int j = 0; j < n; j++) D[i][j] = i == j ? 2 * n + 1 : 1;
    static tmat_t T; tm_from_dense(&T, n, n, pat, D);
    amat_t am; am_build(&am, &T, 0);
    char cs[100]; snprintf(cs, sizeof cs, "n=%d bits=%ld ord=%d unsym=%d", n, bits, ord, UNSYM);
    superlumt_options_t opt; memset(&opt, 0, sizeof opt);
    int_t perm_c[NMAX + 1], perm_r[NMAX + 1]; SuperMatrix AC;
    opt.nprocs = 1; opt.fact = DOFACT; opt.trans = NOTRANS; opt.refact = NO; opt.panel_size = 1; opt.relax = 1; opt.diag_pivot_thresh = 0; opt.usepr = NO; opt.SymmetricMode = YES;
    opt.perm_c = perm_c; opt.perm_r = perm_r; opt.etree = intMalloc(n); opt.colcnt_h = intMalloc(n); opt.part_super_h = intMalloc(n);
    for (int i = 0; i < n; i++) { opt.etree[i] = -7; opt.colcnt_h[i] = -7; opt.part_super_h[i] = -7; }
    get_perm_c(ord, &am.A, perm_c);
    sp_colorder(&am.A, perm_c, &opt, &AC);
    n_pat++;
    /* final perm_c must be a bijection (C10 judges that in detail; here it is a precondition of the reference) */
    int okp = 1; { int s[NMAX] = { 0 }; for (int i = 0; i < n; i++) { if (perm_c[i] < 0 || perm_c[i] >= n || s[perm_c[i]]++) okp = 0; } }
    if (!okp) { char v[80]; vstr(perm_c, n, v, sizeof v); viol("C16:symmetric-order:perm", cs, "perm_c=[%s] returned by sp_colorder is not a permutation", v); goto done; }
    {
        /* reference: symbolic Cholesky of C = Pc (A+A^T) Pc^T by the definition */
        int C[NMAX][NMAX]; memset(C, 0, sizeof C);
        for (int i = 0; i < n; i++) for (int j = 0; j < n; j++) if (pat[i][j] || pat[j][i]) C[perm_c[i]][perm_c[j]] = 1;
        int cnt[NMAX], par[NMAX], iso[NMAX];        /* iso: vertex without neighbours in C (a row/column holding only its diagonal entry) */
        for (int j = 0; j < n; j++) { iso[j] = 1; for (int i = 0; i < n; i++) if (i != j && C[i][j]) iso[j] = 0; }
        for (int j = 0; j < n; j++) {
            int c = 1; par[j] = n; for (int i = n - 1; i > j; i--) if (C[i][j]) { c++; par[j] = i; } cnt[j] = c;
            for (int a = j + 1; a < n; a++) if (C[a][j]) for (int b = j + 1; b < n; b++) if (C[b][j]) C[a][b] = C[b][a] = 1;
        }
        char v1[80], v2[80], v3[80], v4[80]; vstr(opt.colcnt_h, n, v1, sizeof v1); vstr(opt.part_super_h, n, v3, sizeof v3); vstr(perm_c, n, v4, sizeof v4);
        { int o = 0; v2[0] = 0; for (int i = 0; i < n; i++) o += snprintf(v2 + o, sizeof v2 - o, "%s%d", i ? "," : "", cnt[i]); }
        int under = -1, over = 0;
        for (int j = 0; j < n; j++) { if (opt.colcnt_h[j] < cnt[j] && under < 0) under = j; if (opt.colcnt_h[j] > cnt[j]) over = 1; }
        if (under >= 0) viol("C16:prediction-below-cholesky", cs, "column %d: colcnt_h=%ld but column %d of the Cholesky factor of Pc(A+A')Pc' has %d entries (colcnt_h=[%s], exact=[%s], part_super_h=[%s], perm_c=[%s]): the storage reserved for a supernode led by this column is too small",
                             under, (long)opt.colcnt_h[under], under, cnt[under], v1, v2, v3, v4);
        if (over) n_over++;
        /* etree of C */
        for (int j = 0; j < n; j++) if (opt.etree[j] != par[j]) { char e[80]; vstr(opt.etree, n, e, sizeof e); viol("C16:symmetric-etree", cs, "etree=[%s] but parent(%d)=%d in the elimination tree of Pc(A+A')Pc' (perm_c=[%s])", e, j, par[j], v4); break; }
        /* part_super_h: blocks [j, j+w) covering 0..n-1; inside a block column i+1 is the parent of column i and cnt[i+1] = cnt[i]-1 (nested structures) */
        for (int j = 0; j < n; ) {
            int w = (int)opt.part_super_h[j];
            if (w < 1 || j + w > n) { viol("C16:symmetric-partition", cs, "part_super_h=[%s]: block at column %d has width %d", v3, j, w); break; }
            int bad = 0, iso_only = 1; for (int i = j; i + 1 < j + w; i++) if (par[i] != i + 1 || cnt[i + 1] != cnt[i] - 1) { bad = 1; if (!iso[i] && !iso[i + 1]) iso_only = 0; }
            if (bad) { viol(iso_only ? "C16:symmetric-partition:isolated-vertices" : "C16:symmetric-partition", cs, "part_super_h=[%s]: columns %d..%d do not have nested structures in the Cholesky factor (exact counts [%s], perm_c=[%s])", v3, j, j + w - 1, v2, v4); break; }
            j += w;
        }
        unsigned long long h = 1469598103934665603ULL; for (int j = 0; j < n; j++) { h = (h ^ (unsigned long long)(opt.colcnt_h[j] * 31 + opt.part_super_h[j] * 7 + opt.etree[j])) * 1099511628211ULL; h ^= (unsigned long long)perm_c[j] << 20; }
        note(h);
        if (samples_left > 0 && bits % 37 == 5) { samples_left--; out_sample(PROP, "%s -> perm_c=[%s] colcnt_h=[%s] part_super_h=[%s]", cs, v4, v1, v3); }
    }
done:
    Destroy_CompCol_Permuted(&AC); SUPERLU_FREE(opt.etree); SUPERLU_FREE(opt.colcnt_h); SUPERLU_FREE(opt.part_super_h); am_free(&am);
}

int main(int argc, char **argv)
{
    out_init();
    PROP = arg_str(argc, argv, "--prop", "C16");
    const char *one = arg_str(argc, argv, "--one", NULL);
    int n = arg_int(argc, argv, "--n", 4), ordsel = arg_int(argc, argv, "--ord", -1);
    int isl = 0, nsl = 1; sscanf(arg_str(argc, argv, "--slice", "0/1"), "%d/%d", &isl, &nsl);
    double deadline = atof(arg_str(argc, argv, "--deadline", "1e9")), t0 = now_s();
    /* the library prints the name of the ordering on stdout: keep our JSON lines clean */
    if (one) { long bits = 0; int ord = 0; const char *p;
        if ((p = strstr(one, "n="))) n = atoi(p + 2); if ((p = strstr(one, "bits="))) bits = atol(p + 5); if ((p = strstr(one, "ord="))) ord = atoi(p + 4); if ((p = strstr(one, "unsym="))) UNSYM = atoi(p + 6);
        one_case(n, bits, ord); out_stats(PROP, "\"runs\":1,\"violations\":%ld", n_viol); return n_viol ? 1 : 0; }
    if (n < 1 || n > 8 || (arg_int(argc, argv, "--unsym", 0) && n > 5)) { fprintf(stderr, "n out of range\n"); return 2; }
    UNSYM = arg_int(argc, argv, "--unsym", 0);
    long npat = 1L << (UNSYM ? n * (n - 1) : n * (n - 1) / 2); int complete = 1;
    for (long bits = isl; bits < npat; bits += nsl) {
        if ((bits & 1023) == 0 && now_s() - t0 > deadline) { complete = 0; break; }
        for (int ord = 0; ord < 4; ord++) if (ordsel < 0 || ordsel == ord) one_case(n, bits, ord);
    }
    out_stats(PROP, "\"family\":\"symcount\",\"unsym\":%d,\"n\":%d,\"slice\":\"%d/%d\",\"complete\":%s,\"runs\":%ld,\"judged\":%ld,\"violations\":%ld,\"distinct_outcomes\":%ld,\"prediction_above_exact\":%ld,\"wall_s\":%.2f",
              UNSYM, n, isl, nsl, complete ? "true" : "false", n_pat, n_pat, n_viol, n_distinct_tot, n_over, now_s() - t0);
    return 0;
}
