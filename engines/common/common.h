/* Common layer of the verification engines (one TU per engine binary, compiled
 * once per precision with -DPREC_S|D|C|Z).  Contents:
 *   1. precision macro layer
 *   2. JSON-lines output
 *   3. observable allocator (vf_malloc...), sp_ienv table, xerbla_ recorder
 *   4. tiny test-matrix type, SuperMatrix construction
 *   5. reference oracles in long double (complex): factor extraction,
 *      wellformed(), LU residual / multiplier / pivot policy, solve residual
 *   6. fork isolation with crash classification
 */
#ifndef VF_COMMON_H
#define VF_COMMON_H
#define _GNU_SOURCE
#include <stdio.h>
#include <stdlib.h>
#include <string.h>
#include <stdarg.h>
#include <math.h>
#include <float.h>
#include <complex.h>
#undef complex              /* the library has its own `complex` struct */
#include <unistd.h>
#include <signal.h>
#include <time.h>
#include <errno.h>
#include <pthread.h>
#include <sys/mman.h>
#include <sys/stat.h>
#include <sys/time.h>
#include <sys/wait.h>

/* ------------------------------------------------------------------ 1 */
#if defined(PREC_S)
#include "slu_mt_sdefs.h"
#define PCH 's'
#define PSTR "s"
#define FN(a,b) a##s##b
typedef float real_t; typedef float scalar_t;
#define IS_COMPLEX 0
#define UROUND (FLT_EPSILON/2)
#define SLU_DT SLU_S
#define XLAMCH slamch_
#elif defined(PREC_D)
#include "slu_mt_ddefs.h"
#define PCH 'd'
#define PSTR "d"
#define FN(a,b) a##d##b
typedef double real_t; typedef double scalar_t;
#define IS_COMPLEX 0
#define UROUND (DBL_EPSILON/2)
#define SLU_DT SLU_D
#define XLAMCH dlamch_
#elif defined(PREC_C)
#include "slu_mt_cdefs.h"
#define PCH 'c'
#define PSTR "c"
#define FN(a,b) a##c##b
typedef float real_t; typedef complex scalar_t;
#define IS_COMPLEX 1
#define UROUND (FLT_EPSILON/2)
#define SLU_DT SLU_C
#define XLAMCH slamch_
#elif defined(PREC_Z)
#include "slu_mt_zdefs.h"
#define PCH 'z'
#define PSTR "z"
#define FN(a,b) a##z##b
typedef double real_t; typedef doublecomplex scalar_t;
#define IS_COMPLEX 1
#define UROUND (DBL_EPSILON/2)
#define SLU_DT SLU_Z
#define XLAMCH dlamch_
#else
#error "define PREC_S, PREC_D, PREC_C or PREC_Z"
#endif

#define pXgssv        FN(p,gssv)
#define pXgssvx       FN(p,gssvx)
#define pXgstrf       FN(p,gstrf)
#define pXgstrf_init  FN(p,gstrf_init)
#define Xgstrs        FN(,gstrs)
#define Xgsrfs        FN(,gsrfs)
#define Xgscon        FN(,gscon)
#define Xgsequ        FN(,gsequ)
#define Xlaqgs        FN(,laqgs)
#define Xlangs        FN(,langs)
#define XPivotGrowth  FN(,PivotGrowth)
#define XCreate_CompCol_Matrix FN(,Create_CompCol_Matrix)
#define XCreate_Dense_Matrix   FN(,Create_Dense_Matrix)
#define XCompRow_to_CompCol    FN(,CompRow_to_CompCol)
#define XCopy_CompCol_Matrix   FN(,Copy_CompCol_Matrix)
#define sp_Xtrsv      FN(sp_,trsv)
#define sp_Xgemv      FN(sp_,gemv)
#define sp_Xgemm      FN(sp_,gemm)
#define Xreadhb       FN(,readhb)
#define Xreadrb       FN(,readrb)
#define Xreadmt       FN(,readmt)

typedef long double ld;
typedef _Complex long double ldc;

#if IS_COMPLEX
static inline ldc S2L(scalar_t v) { return (ld)v.r + (ld)v.i * 1.0iL; }
static inline scalar_t L2S(ldc v) { scalar_t s; s.r = (real_t)creall(v); s.i = (real_t)cimagl(v); return s; }
/* |.| the library uses for pivoting in complex arithmetic (LAPACK CABS1) */
static inline ld PIVABS(ldc v) { return fabsl(creall(v)) + fabsl(cimagl(v)); }
/* unit roundoff of one complex operation (Higham, Accuracy & Stability, Lemma 3.5: division sqrt(2)*gamma_4) */
#define UOP ((ld)UROUND * 5.6568542494923806L)
#else
static inline ldc S2L(scalar_t v) { return (ld)v; }
static inline scalar_t L2S(ldc v) { return (scalar_t)creall(v); }
static inline ld PIVABS(ldc v) { return fabsl(creall(v)); }
#define UOP ((ld)UROUND)
#endif
static inline ld ABSL(ldc v) { return cabsl(v); }
static inline ld GAMMA(int k) { ld ku = k * UOP; return ku / (1 - ku); }

/* ------------------------------------------------------------------ 2 */
static FILE *vf_out;      /* JSON-lines sink (a dup of the original stdout) */
static void out_init(void) {
    if (vf_out) return;
    int fd = dup(1);
    vf_out = fdopen(fd, "w");
    setvbuf(vf_out, NULL, _IOLBF, 0);
    /* the library chats on stdout; send that to /dev/null */
    if (!getenv("VF_KEEP_STDOUT")) { FILE *nul = freopen("/dev/null", "w", stdout); (void)nul; }
}
static void out_str(FILE *f, const char *s) {
    fputc('"', f);
    for (; *s; s++) {
        unsigned char c = (unsigned char)*s;
        if (c == '"' || c == '\\') { fputc('\\', f); fputc(c, f); }
        else if (c == '\n') fputs("\\n", f);
        else if (c < 32) fprintf(f, "\\u%04x", c);
        else fputc(c, f);
    }
    fputc('"', f);
}
/* violation record: sig is the canonical signature used by known_findings.jsonl */
static void out_violation(const char *prop, const char *sig, const char *replay_args, const char *fmt, ...) {
    char buf[2048]; va_list ap; va_start(ap, fmt); vsnprintf(buf, sizeof buf, fmt, ap); va_end(ap);
    out_init();
    fprintf(vf_out, "{\"type\":\"violation\",\"property\":\"%s\",\"prec\":\"%c\",\"sig\":", prop, PCH);
    out_str(vf_out, sig); fputs(",\"replay\":", vf_out); out_str(vf_out, replay_args ? replay_args : "");
    fputs(",\"detail\":", vf_out); out_str(vf_out, buf); fputs("}\n", vf_out); fflush(vf_out);
}
static void out_sample(const char *prop, const char *fmt, ...) {
    char buf[2048]; va_list ap; va_start(ap, fmt); vsnprintf(buf, sizeof buf, fmt, ap); va_end(ap);
    out_init();
    fprintf(vf_out, "{\"type\":\"sample\",\"property\":\"%s\",\"prec\":\"%c\",\"case\":", prop, PCH);
    out_str(vf_out, buf); fputs("}\n", vf_out);
}
/* stats: free-form "k":v pairs already formatted as JSON members */
static void out_stats(const char *prop, const char *fmt, ...) {
    char buf[4096]; va_list ap; va_start(ap, fmt); vsnprintf(buf, sizeof buf, fmt, ap); va_end(ap);
    out_init();
    fprintf(vf_out, "{\"type\":\"stats\",\"property\":\"%s\",\"prec\":\"%c\",%s}\n", prop, PCH, buf); fflush(vf_out);
}
static double now_s(void) { struct timespec t; clock_gettime(CLOCK_MONOTONIC, &t); return t.tv_sec + 1e-9 * t.tv_nsec; }

/* ------------------------------------------------------------------ 3 */
/* The library is compiled with -Dmalloc=vf_malloc etc., so every allocation it
 * makes (including the few direct malloc/free calls) is observable here. */
typedef struct { void *p; size_t sz; long seq; } vf_blk_t;
static vf_blk_t *vf_tab; static unsigned vf_cap, vf_fill;      /* open addressing, grows; vf_fill counts live + tombstones */
#define VF_TAB vf_cap
static long vf_nlive, vf_live_bytes, vf_alloc_calls, vf_free_calls, vf_fail_from = -1, vf_failed, vf_bad_free;
static int vf_fail_single;      /* fail only request number vf_fail_from (not the later ones) */
static long vf_threads_created;
static long vf_max_live_bytes;
static pthread_mutex_t vf_amtx = PTHREAD_MUTEX_INITIALIZER;
static int vf_fill_byte = 0x7f;
#define vf_fill_pattern vf_fill_byte
static unsigned vf_hash(void *p) { unsigned long x = (unsigned long)p; x ^= x >> 17; x *= 0x9E3779B97F4A7C15UL; return (unsigned)(x >> 32) & (vf_cap - 1); }
static void vf_grow(void) {
    unsigned ocap = vf_cap; vf_blk_t *old = vf_tab;
    vf_cap = ocap ? ocap * 2 : (1u << 14); vf_tab = calloc(vf_cap, sizeof *vf_tab); vf_fill = 0;
    if (!vf_tab) { fprintf(stderr, "vf allocator model: out of memory\n"); _exit(96); }
    for (unsigned i = 0; i < ocap; i++) if (old[i].p && old[i].p != (void *)1) { unsigned h = vf_hash(old[i].p); while (vf_tab[h].p) h = (h + 1) & (vf_cap - 1); vf_tab[h] = old[i]; vf_fill++; }
    free(old);
}
static void vf_track(void *p, size_t sz) {
    if (!vf_cap || vf_fill * 2 >= vf_cap) vf_grow();
    unsigned h = vf_hash(p);
    while (vf_tab[h].p && vf_tab[h].p != (void *)1) h = (h + 1) & (vf_cap - 1);
    if (!vf_tab[h].p) vf_fill++;
    vf_tab[h].p = p; vf_tab[h].sz = sz; vf_tab[h].seq = vf_alloc_calls;
    vf_nlive++; vf_live_bytes += sz; if (vf_live_bytes > vf_max_live_bytes) vf_max_live_bytes = vf_live_bytes;
}
static int vf_untrack(void *p) {
    if (!vf_cap) return 0;
    unsigned h = vf_hash(p); unsigned n = 0;
    while (vf_tab[h].p && n++ < vf_cap) {
        if (vf_tab[h].p == p) { vf_tab[h].p = (void *)1; vf_nlive--; vf_live_bytes -= vf_tab[h].sz; return 1; }
        h = (h + 1) & (vf_cap - 1);
    }
    return 0;
}
static size_t vf_block_size(void *p) {
    if (!vf_cap) return (size_t)-1;
    unsigned h = vf_hash(p); unsigned n = 0;
    while (vf_tab[h].p && n++ < vf_cap) { if (vf_tab[h].p == p) return vf_tab[h].sz; h = (h + 1) & (vf_cap - 1); }
    return (size_t)-1;
}
void *vf_malloc(size_t sz) {
    pthread_mutex_lock(&vf_amtx);
    vf_alloc_calls++;
    if (vf_fail_from >= 0 && (vf_fail_single ? vf_alloc_calls == vf_fail_from : vf_alloc_calls >= vf_fail_from)) { vf_failed++; pthread_mutex_unlock(&vf_amtx); return NULL; }
    void *p = malloc(sz ? sz : 1);
    if (p) { memset(p, vf_fill_byte, sz); vf_track(p, sz); }
    pthread_mutex_unlock(&vf_amtx);
    return p;
}
void *vf_calloc(size_t a, size_t b) {
    void *p = vf_malloc(a * b);
    if (p) memset(p, 0, a * b);
    return p;
}
void vf_free(void *p) {
    if (!p) return;
    pthread_mutex_lock(&vf_amtx);
    vf_free_calls++;
    int ok = vf_untrack(p);
    if (!ok) vf_bad_free++;
    pthread_mutex_unlock(&vf_amtx);
    if (ok) free(p);      /* a free of something we never handed out is recorded, not executed */
}
void *vf_realloc(void *p, size_t sz) {
    void *q = vf_malloc(sz);
    if (q && p) { size_t o = vf_block_size(p); memcpy(q, p, o < sz ? o : sz); vf_free(p); }
    return q;
}
typedef struct { long nlive, bytes; } vf_heap_mark_t;
static vf_heap_mark_t vf_heap_mark(void) { vf_heap_mark_t m = { vf_nlive, vf_live_bytes }; return m; }
static void vf_alloc_reset_counters(void) { vf_alloc_calls = vf_free_calls = vf_failed = vf_bad_free = 0; vf_fail_from = -1; }
/* list live blocks allocated after call number seq0 (for leak reports) */
static int vf_live_since(long seq0, char *buf, size_t bl) {
    int n = 0; size_t o = 0; buf[0] = 0;
    for (unsigned h = 0; h < VF_TAB; h++)
        if (vf_tab[h].p && vf_tab[h].p != (void *)1 && vf_tab[h].seq > seq0) {
            n++; if (o + 40 < bl) o += snprintf(buf + o, bl - o, "%s#%ld:%zuB", o ? "," : "", vf_tab[h].seq - seq0, vf_tab[h].sz);
        }
    return n;
}

#ifdef VF_INLINE_THREADS
/* Engine Q: the library's pthread calls are renamed to these.  Each worker runs to completion inside
 * "create" (a legal schedule: worker 0 takes every panel, the others find the queue drained). */
int vf_thread_create(pthread_t *t, const pthread_attr_t *a, void *(*fn)(void *), void *arg) { (void)a; *t = (pthread_t)0; vf_threads_created++; fn(arg); return 0; }
int vf_thread_join(pthread_t t, void **st) { (void)t; if (st) *st = NULL; return 0; }
int vf_mutex_init(pthread_mutex_t *m, const void *a) { (void)m; (void)a; return 0; }
int vf_mutex_destroy(pthread_mutex_t *m) { (void)m; return 0; }
int vf_mutex_lock(pthread_mutex_t *m) { (void)m; return 0; }
int vf_mutex_unlock(pthread_mutex_t *m) { (void)m; return 0; }
#endif

/* tuning parameters, settable by the harness */
static int vf_ienv[9] = { 0, 1, 1, 4, 200, 100, -50, -50, -30 };
int_t sp_ienv(int_t ispec) { if (ispec >= 1 && ispec <= 8) return vf_ienv[ispec]; return 0; }

/* error handler recorder */
static char vf_xerbla_name[32]; static int vf_xerbla_info, vf_xerbla_calls;
int xerbla_(char *srname, int *info) {
    vf_xerbla_calls++; vf_xerbla_info = *info;
    snprintf(vf_xerbla_name, sizeof vf_xerbla_name, "%s", srname);
    return 0;
}

/* ------------------------------------------------------------------ 4 */
#ifndef NMAX
#define NMAX 12
#endif
typedef struct {
    int m, n, nnz;
    int colptr[NMAX + 1];
    int rowind[NMAX * NMAX];
    ldc val[NMAX * NMAX];
} tmat_t;

static void tm_from_dense(tmat_t *t, int m, int n, int pat[NMAX][NMAX], ldc D[NMAX][NMAX]) {
    t->m = m; t->n = n; t->nnz = 0;
    for (int j = 0; j < n; j++) {
        t->colptr[j] = t->nnz;
        for (int i = 0; i < m; i++) if (pat[i][j]) { t->rowind[t->nnz] = i; t->val[t->nnz] = D[i][j]; t->nnz++; }
    }
    t->colptr[n] = t->nnz;
}
static void tm_to_dense(const tmat_t *t, ldc D[NMAX][NMAX]) {
    for (int i = 0; i < NMAX; i++) for (int j = 0; j < NMAX; j++) D[i][j] = 0;
    for (int j = 0; j < t->n; j++) for (int k = t->colptr[j]; k < t->colptr[j + 1]; k++) D[t->rowind[k]][j] += t->val[k];
}
/* caller-owned arrays backing a SuperMatrix A (so that "A bit-for-bit unchanged" can be checked) */
typedef struct {
    SuperMatrix A; NCformat nc; NRformat nr;
    scalar_t *val; int_t *ind; int_t *ptr;      /* live arrays handed to the library */
    scalar_t *val0; int_t *ind0; int_t *ptr0;   /* pristine copies */
    int nnz, n, m; int is_nr; SuperMatrix A0; NCformat nc0; NRformat nr0;
} amat_t;
/* build A from t in NC (column) or NR (row) storage.  Arrays come from plain malloc (not the tracked allocator). */
static void am_build(amat_t *a, const tmat_t *t, int as_nr) {
    memset(a, 0, sizeof *a);
    int m = t->m, n = t->n, nnz = t->nnz;
    a->nnz = nnz; a->n = n; a->m = m; a->is_nr = as_nr;
    a->val = malloc(sizeof(scalar_t) * (nnz + 1)); a->ind = malloc(sizeof(int_t) * (nnz + 1));
    a->ptr = malloc(sizeof(int_t) * ((as_nr ? m : n) + 2));
    if (!as_nr) {
        for (int k = 0; k < nnz; k++) { a->val[k] = L2S(t->val[k]); a->ind[k] = t->rowind[k]; }
        for (int j = 0; j <= n; j++) a->ptr[j] = t->colptr[j];
        a->nc.nnz = nnz; a->nc.nzval = a->val; a->nc.rowind = a->ind; a->nc.colptr = a->ptr;
        a->A.Stype = SLU_NC; a->A.Store = &a->nc;
    } else {
        int cnt[NMAX + 1] = { 0 }, pos[NMAX + 1];
        for (int k = 0; k < nnz; k++) cnt[t->rowind[k]]++;
        a->ptr[0] = 0; for (int i = 0; i < m; i++) a->ptr[i + 1] = a->ptr[i] + cnt[i];
        for (int i = 0; i < m; i++) pos[i] = a->ptr[i];
        for (int j = 0; j < n; j++) for (int k = t->colptr[j]; k < t->colptr[j + 1]; k++) {
            int i = t->rowind[k]; a->val[pos[i]] = L2S(t->val[k]); a->ind[pos[i]] = j; pos[i]++;
        }
        a->nr.nnz = nnz; a->nr.nzval = a->val; a->nr.colind = a->ind; a->nr.rowptr = a->ptr;
        a->A.Stype = SLU_NR; a->A.Store = &a->nr;
    }
    a->A.Dtype = SLU_DT; a->A.Mtype = SLU_GE; a->A.nrow = m; a->A.ncol = n;
    int np = (as_nr ? m : n) + 1;
    a->val0 = malloc(sizeof(scalar_t) * (nnz + 1)); a->ind0 = malloc(sizeof(int_t) * (nnz + 1)); a->ptr0 = malloc(sizeof(int_t) * (np + 1));
    memcpy(a->val0, a->val, sizeof(scalar_t) * nnz); memcpy(a->ind0, a->ind, sizeof(int_t) * nnz); memcpy(a->ptr0, a->ptr, sizeof(int_t) * np);
    a->A0 = a->A; a->nc0 = a->nc; a->nr0 = a->nr;
}
/* 0 if A (header, store header, arrays) is bit-identical to what was built */
static int am_unchanged(const amat_t *a) {
    int np = (a->is_nr ? a->m : a->n) + 1;
    if (memcmp(&a->A, &a->A0, sizeof a->A)) return 1;
    if (memcmp(&a->nc, &a->nc0, sizeof a->nc)) return 2;
    if (memcmp(&a->nr, &a->nr0, sizeof a->nr)) return 3;
    if (memcmp(a->val, a->val0, sizeof(scalar_t) * a->nnz)) return 4;
    if (memcmp(a->ind, a->ind0, sizeof(int_t) * a->nnz)) return 5;
    if (memcmp(a->ptr, a->ptr0, sizeof(int_t) * np)) return 6;
    return 0;
}
static void am_free(amat_t *a) { free(a->val); free(a->ind); free(a->ptr); free(a->val0); free(a->ind0); free(a->ptr0); }

/* ------------------------------------------------------------------ 5 */
/* C09: the statement, literally.  Returns 0 and fills Ld/Ud (dense, in the
 * pivoted numbering: Pr*A*Pc = L*U), or a positive code with msg. */
static int wellformed(const SuperMatrix *L, const SuperMatrix *U, const int_t *perm_r, const int_t *perm_c,
                      int n, ldc Ld[NMAX][NMAX], ldc Ud[NMAX][NMAX], char *msg, size_t ml)
{
#define WF_FAIL(code, ...) do { snprintf(msg, ml, __VA_ARGS__); return code; } while (0)
    msg[0] = 0;
    for (int i = 0; i < NMAX; i++) for (int j = 0; j < NMAX; j++) { Ld[i][j] = 0; Ud[i][j] = 0; }
    /* permutations are bijections */
    for (int pass = 0; pass < 2; pass++) {
        const int_t *p = pass ? perm_c : perm_r; int seen[NMAX] = { 0 };
        for (int i = 0; i < n; i++) {
            if (p[i] < 0 || p[i] >= n) WF_FAIL(1, "%s[%d]=%ld out of range", pass ? "perm_c" : "perm_r", i, (long)p[i]);
            if (seen[p[i]]++) WF_FAIL(1, "%s not injective at value %ld", pass ? "perm_c" : "perm_r", (long)p[i]);
        }
    }
    if (L->Stype != SLU_SCP || U->Stype != SLU_NCP) WF_FAIL(2, "L/U storage type %d/%d", L->Stype, U->Stype);
    if (L->nrow != n || L->ncol != n || U->nrow != n || U->ncol != n) WF_FAIL(2, "L/U dimensions");
    if (L->Dtype != SLU_DT || U->Dtype != SLU_DT) WF_FAIL(2, "L/U data type");
    const SCPformat *Ls = L->Store; const NCPformat *Us = U->Store;
    const scalar_t *Lv = Ls->nzval, *Uv = Us->nzval;
    int ns = Ls->nsuper + 1;
    if (ns < 1 || ns > n) WF_FAIL(3, "nsuper+1=%d not in 1..n", ns);
    /* supernodes partition the columns into contiguous ranges, maps consistent */
    int owner[NMAX]; for (int j = 0; j < n; j++) owner[j] = -1;
    for (int s = 0; s < ns; s++) {
        int f = Ls->sup_to_colbeg[s], e = Ls->sup_to_colend[s];
        if (f < 0 || e > n || f >= e) WF_FAIL(3, "supernode %d has column range [%d,%d)", s, f, e);
        for (int j = f; j < e; j++) {
            if (owner[j] != -1) WF_FAIL(3, "column %d in supernodes %d and %d", j, owner[j], s);
            owner[j] = s;
        }
    }
    for (int j = 0; j < n; j++) {
        if (owner[j] < 0) WF_FAIL(3, "column %d in no supernode", j);
        if (Ls->col_to_sup[j] != owner[j]) WF_FAIL(3, "col_to_sup[%d]=%ld but column lies in supernode %d", j, (long)Ls->col_to_sup[j], owner[j]);
    }
    /* extents: collect [beg,end) of row lists (one per supernode) and of value columns; check non-overlap */
    long cntL = 0, cntU = 0;
    struct ext { long b, e; int id; } rx[NMAX], vx[NMAX], ux[NMAX];
    for (int s = 0; s < ns; s++) {
        int f = Ls->sup_to_colbeg[s], e = Ls->sup_to_colend[s], nsupc = e - f;
        long rb = Ls->rowind_colbeg[f], re = Ls->rowind_colend[f]; int nsupr = (int)(re - rb);
        if (rb < 0 || re < rb) WF_FAIL(4, "supernode %d row list extent [%ld,%ld)", s, rb, re);
        if (nsupr < nsupc || nsupr > n) WF_FAIL(4, "supernode %d (cols %d..%d) has %d rows", s, f, e - 1, nsupr);
        rx[s].b = rb; rx[s].e = re; rx[s].id = s;
        int seen[NMAX] = { 0 };
        for (int k = 0; k < nsupr; k++) {
            long r = Ls->rowind[rb + k];
            if (r < 0 || r >= n) WF_FAIL(4, "supernode %d row subscript %ld out of range", s, r);
            if (k < nsupc) { if (r != f + k) WF_FAIL(4, "supernode %d (cols %d..%d): row list position %d is %ld, expected own column %d", s, f, e - 1, k, r, f + k); }
            else if (r < e) WF_FAIL(4, "supernode %d (cols %d..%d): off-block row %ld not below the block", s, f, e - 1, r);
            if (seen[r]++) WF_FAIL(4, "supernode %d: duplicate row %ld", s, r);
        }
        for (int j = f; j < e; j++) {
            long vb = Ls->nzval_colbeg[j], ve = Ls->nzval_colend[j];
            if (vb < 0 || ve - vb != nsupr) WF_FAIL(5, "column %d value extent [%ld,%ld) does not match %d supernode rows", j, vb, ve, nsupr);
            vx[j].b = vb; vx[j].e = ve; vx[j].id = j;
            for (int k = 0; k < nsupr; k++) {
                int r = (int)Ls->rowind[rb + k]; ldc v = S2L(Lv[vb + k]);
                if (r <= j) Ud[r][j] = v; else Ld[r][j] = v;
            }
            Ld[j][j] = 1;
            cntL += nsupr - (j - f);          /* entries of L in column j incl. unit diagonal */
            cntU += (j - f) + 1;              /* entries of U inside the diagonal block */
        }
    }
    for (int j = 0; j < n; j++) {
        long ub = Us->colbeg[j], ue = Us->colend[j]; int f = Ls->sup_to_colbeg[owner[j]];
        if (ub < 0 || ue < ub || ue - ub > n) WF_FAIL(6, "U column %d extent [%ld,%ld)", j, ub, ue);
        ux[j].b = ub; ux[j].e = ue; ux[j].id = j;
        int seen[NMAX] = { 0 };
        for (long k = ub; k < ue; k++) {
            long r = Us->rowind[k];
            if (r < 0 || r >= n) WF_FAIL(6, "U column %d row %ld out of range", j, r);
            if (r >= f) WF_FAIL(6, "U column %d holds row %ld which is not strictly above its supernode (first column %d)", j, r, f);
            if (seen[r]++) WF_FAIL(6, "U column %d duplicate row %ld", j, r);
            Ud[r][j] = S2L(Uv[k]);
        }
        cntU += ue - ub;
    }
    for (int pass = 0; pass < 3; pass++) {
        struct ext *x = pass == 0 ? rx : pass == 1 ? vx : ux; int cnt = pass == 0 ? ns : n;
        for (int a = 0; a < cnt; a++) for (int b = a + 1; b < cnt; b++)
            if (x[a].b < x[b].e && x[b].b < x[a].e && x[a].b < x[a].e && x[b].b < x[b].e)
                WF_FAIL(7, "%s extents of %d and %d overlap: [%ld,%ld) [%ld,%ld)", pass == 0 ? "L row-list" : pass == 1 ? "L value" : "U", x[a].id, x[b].id, x[a].b, x[a].e, x[b].b, x[b].e);
    }
    if (Ls->nnz != cntL) WF_FAIL(8, "L nnz field %ld != counted %ld", (long)Ls->nnz, cntL);
    if (Us->nnz != cntU) WF_FAIL(8, "U nnz field %ld != counted %ld", (long)Us->nnz, cntU);
    /* supernode index order respects the dependency order of the triangular solves:
       L_ij != 0 structurally (row i in the list of the supernode of j, i outside it)  =>  sup(j) < sup(i);
       U_ij stored (i above the supernode of j)                                        =>  sup(i) < sup(j). */
    for (int s = 0; s < ns; s++) {
        int f = Ls->sup_to_colbeg[s], e = Ls->sup_to_colend[s];
        long rb = Ls->rowind_colbeg[f], re = Ls->rowind_colend[f];
        for (long k = rb + (e - f); k < re; k++) { int r = (int)Ls->rowind[k]; if (owner[r] <= s) WF_FAIL(9, "L dependency: supernode %d updates row %d of supernode %d which is not later in index order", s, r, owner[r]); }
    }
    for (int j = 0; j < n; j++) for (long k = Us->colbeg[j]; k < Us->colend[j]; k++) { int r = (int)Us->rowind[k]; if (owner[r] >= owner[j]) WF_FAIL(9, "U dependency: column %d (supernode %d) uses row %d of supernode %d", j, owner[j], r, owner[r]); }
    return 0;
#undef WF_FAIL
}

/* M = Pr*A*Pc in the pivoted numbering */
static void permuted_A(const ldc A[NMAX][NMAX], int n, const int_t *perm_r, const int_t *perm_c, ldc M[NMAX][NMAX]) {
    for (int i = 0; i < n; i++) for (int j = 0; j < n; j++) M[perm_r[i]][perm_c[j]] = A[i][j];
}

/* C02 residual: |Pr A Pc - L U| <= gamma(n) |L||U| componentwise.  returns 0 or code, worst ratio in *ratio */
static int check_lu_residual(const ldc M[NMAX][NMAX], const ldc Ld[NMAX][NMAX], const ldc Ud[NMAX][NMAX], int n, ld *ratio, char *msg, size_t ml) {
    ld g = GAMMA(n), worst = 0; int rc = 0;
    for (int i = 0; i < n; i++) for (int j = 0; j < n; j++) {
        ldc s = 0; ld S = 0;
        int kmax = i < j ? i : j;
        for (int k = 0; k <= kmax; k++) { s += Ld[i][k] * Ud[k][j]; S += ABSL(Ld[i][k]) * ABSL(Ud[k][j]); }
        ld r = ABSL(M[i][j] - s);
        ld allow = g * S + (ld)(n + 2) * 0x1p-62L * (S + ABSL(M[i][j]));   /* second term: rounding of this evaluation itself */
        if (!(r <= allow)) {
            if (!rc) snprintf(msg, ml, "|PrAPc-LU|(%d,%d)=%.3Le exceeds gamma(%d)*(|L||U|)=%.3Le", i, j, r, n, g * S);
            rc = 1;
        }
        if (S > 0 && r / (g * S) > worst) worst = r / (g * S);
    }
    if (ratio) *ratio = worst;
    return rc;
}

/* multipliers: |l_ij| <= 1/u   (u > 0).  In complex arithmetic the library measures magnitudes with
   CABS1 = |re|+|im| (LAPACK convention), for which the guarantee is |l|_2 <= sqrt(2)/u. */
static int check_multipliers(const ldc Ld[NMAX][NMAX], int n, ld u, char *msg, size_t ml) {
    if (!(u > 0)) return 0;
    ld bound = (1 / u) * (IS_COMPLEX ? 1.4142135623730951L : 1.0L) * (1 + 8 * (ld)UROUND * (IS_COMPLEX ? 4 : 1));
    for (int j = 0; j < n; j++) for (int i = j + 1; i < n; i++)
        if (ABSL(Ld[i][j]) > bound) { snprintf(msg, ml, "multiplier |l(%d,%d)|=%.6Lg exceeds 1/u=%.6Lg", i, j, ABSL(Ld[i][j]), 1 / u); return 1; }
    return 0;
}

/* Pivot policy replayed on a long-double elimination that uses the library's row order.
 * usepr_rows: NULL, or the caller-supplied row order (perm_r before the call) when pivot reuse was requested.
 * Returns 0 ok, 1 violation; -1 if the reference hit an exactly zero pivot (policy not judged). */
static int check_pivot_policy(const ldc A[NMAX][NMAX], int n, const int_t *perm_r, const int_t *perm_c, ld u,
                              const int_t *usepr_rows, char *msg, size_t ml)
{
    ldc W[NMAX][NMAX]; ld S[NMAX][NMAX];      /* working matrix in ORIGINAL row numbering, columns in A*Pc order */
    int touched[NMAX][NMAX];                  /* entry has received an update: only then can it differ from the library's value by rounding */
    int inv_pc[NMAX], inv_pr[NMAX];
    for (int j = 0; j < n; j++) inv_pc[perm_c[j]] = j;
    for (int i = 0; i < n; i++) inv_pr[perm_r[i]] = i;
    for (int i = 0; i < n; i++) for (int j = 0; j < n; j++) { W[i][j] = A[i][inv_pc[j]]; S[i][j] = ABSL(W[i][j]); touched[i][j] = 0; }
    int done[NMAX] = { 0 };
    int usepr_alive = usepr_rows != NULL;
    for (int j = 0; j < n; j++) {
        int p = inv_pr[j];                    /* the row the library pivoted on at step j */
        int diag = inv_pc[j];                 /* original diagonal entry of this column: row index == original column index */
        ld pivmax = 0, tolmax = 0;
        for (int i = 0; i < n; i++) if (!done[i]) {
            ld a = PIVABS(W[i][j]); if (a > pivmax) pivmax = a;
            ld t = touched[i][j] ? 64 * (ld)n * UOP * S[i][j] : 0; if (t > tolmax) tolmax = t;      /* untouched original entries are exact: ties are then exact too */
        }
        if (IS_COMPLEX && tolmax < 4 * (ld)UROUND * pivmax) tolmax = 4 * (ld)UROUND * pivmax;     /* CABS1 = |re|+|im| is itself rounded in working precision */
        if (pivmax <= tolmax || pivmax == 0) { return -1; }            /* (near) singular column in the reference: not judged */
        ld thresh = u * pivmax, tol = tolmax * (1 + u);
        if (tol == 0) thresh = (ld)(real_t)((real_t)u * (real_t)pivmax);      /* exact candidates: the threshold as the library rounds it */
        ld ap = PIVABS(W[p][j]);
        int judged = 0;
        if (usepr_alive) {
            int old = -1; for (int i = 0; i < n; i++) if (usepr_rows[i] == j) old = i;
            if (old >= 0 && !done[old]) {
                ld ao = PIVABS(W[old][j]);
                if (ao > tol && ao >= thresh + tol && (tol > 0 || ao >= thresh)) {       /* old pivot clearly admissible: must be reused */
                    if (p != old) { snprintf(msg, ml, "step %d: caller's pivot row %d is admissible (|v|=%.3Lg >= u*max=%.3Lg) but row %d was used", j, old, ao, thresh, p); return 1; }
                    judged = 1;
                } else if (!(ao < thresh - tol || (ao == 0 && !touched[old][j]))) { judged = 1; if (p != old) usepr_alive = 0; } /* inside the tie band: either.
                     An exact zero of the reference is exact for the library only when the entry never received an update: a fill entry that cancels exactly in
                     long double is a tiny nonzero in working precision and then admissible at threshold 0 (false alarm of the first thorough run, single precision) */
                else usepr_alive = 0;                        /* clearly fails: library falls back for the rest */
            } else usepr_alive = 0;
        }
        if (!judged) {
            int diag_cand = !done[diag];
            ld ad = diag_cand ? PIVABS(W[diag][j]) : 0;
            if (diag_cand && ad > tol && ad >= thresh + tol) {
                if (p != diag) { snprintf(msg, ml, "step %d: original diagonal (row %d, |v|=%.3Lg) is nonzero and >= u*max=%.3Lg but row %d (|v|=%.3Lg) was chosen", j, diag, ad, thresh, p, ap); return 1; }
            } else if (diag_cand && p == diag) {
                if (ad < thresh - tol) { snprintf(msg, ml, "step %d: diagonal pivot |v|=%.3Lg below threshold u*max=%.3Lg", j, ad, thresh); return 1; }
            } else {
                if (ap < pivmax - tol) { snprintf(msg, ml, "step %d: row %d (|v|=%.3Lg) chosen but max magnitude is %.3Lg (diagonal %s)", j, p, ap, pivmax, diag_cand ? "not admissible" : "already used"); return 1; }
            }
        }
        /* eliminate with the library's pivot */
        done[p] = 1;
        if (W[p][j] == 0) return -1;
        for (int i = 0; i < n; i++) if (!done[i] && W[i][j] != 0) {
            ldc l = W[i][j] / W[p][j]; ld la = ABSL(l);
            for (int k = j + 1; k < n; k++) if (W[p][k] != 0) { W[i][k] -= l * W[p][k]; S[i][k] += la * S[p][k]; touched[i][k] = 1; }
        }
    }
    return 0;
}

/* C01 residual: |B - A X| <= gamma(3n) (Pr^T |L||U| Pc^T) |X| componentwise, per right-hand side.
 * A in original numbering (op already applied by the caller: pass the matrix of the solved system). */
static int check_solve_residual(const ldc A[NMAX][NMAX], int n, const int_t *perm_r, const int_t *perm_c,
                                const ldc Ld[NMAX][NMAX], const ldc Ud[NMAX][NMAX], int transposed,
                                const ldc *B, const ldc *X, int nrhs, int ldb, ld *ratio, char *msg, size_t ml)
{
    ld T[NMAX][NMAX];  /* T = Pr^T |L||U| Pc^T : T[i][j] = (|L||U|)[perm_r[i]][perm_c[j]] ; for the transposed system T^T */
    for (int i = 0; i < n; i++) for (int j = 0; j < n; j++) {
        ld S = 0; int pi = perm_r[i], pj = perm_c[j]; int km = pi < pj ? pi : pj;
        for (int k = 0; k <= km; k++) S += ABSL(Ld[pi][k]) * ABSL(Ud[k][pj]);
        if (transposed) T[j][i] = S; else T[i][j] = S;
    }
    ld g = GAMMA(3 * n), worst = 0; int rc = 0;
    for (int c = 0; c < nrhs; c++) for (int i = 0; i < n; i++) {
        ldc s = 0; ld bound = 0, mag = 0;
        for (int j = 0; j < n; j++) { s += A[i][j] * X[c * ldb + j]; bound += T[i][j] * ABSL(X[c * ldb + j]); mag += ABSL(A[i][j]) * ABSL(X[c * ldb + j]); }
        ld r = ABSL(B[c * ldb + i] - s);
        ld allow = g * bound + (ld)(n + 2) * 0x1p-62L * (mag + ABSL(B[c * ldb + i]));
        if (!(r <= allow)) { if (!rc) snprintf(msg, ml, "rhs %d row %d: |b-Ax|=%.3Le exceeds gamma(3n)*bound=%.3Le", c, i, r, g * bound); rc = 1; }
        if (bound > 0 && r / (g * bound) > worst) worst = r / (g * bound);
    }
    if (ratio) *ratio = worst;
    return rc;
}

/* dense reference helpers ------------------------------------------------ */
/* LU with partial pivoting in long double; returns 0 if numerically nonsingular, fills inverse if inv != NULL */
static int ref_inverse(const ldc A[NMAX][NMAX], int n, ldc inv[NMAX][NMAX], ld *min_piv_ratio) {
    ldc W[NMAX][2 * NMAX]; ld mpr = 1e300L;
    for (int i = 0; i < n; i++) for (int j = 0; j < n; j++) { W[i][j] = A[i][j]; W[i][n + j] = (i == j); }
    for (int j = 0; j < n; j++) {
        int p = j; ld best = ABSL(W[j][j]); ld colmax = 0;
        for (int i = j; i < n; i++) { ld a = ABSL(W[i][j]); if (a > best) { best = a; p = i; } }
        for (int i = 0; i < n; i++) { ld a = ABSL(A[i][j]); if (a > colmax) colmax = a; }
        if (best == 0) return 1;
        if (colmax > 0 && best / colmax < mpr) mpr = best / colmax;
        if (p != j) for (int k = 0; k < 2 * n; k++) { ldc t = W[j][k]; W[j][k] = W[p][k]; W[p][k] = t; }
        for (int i = 0; i < n; i++) if (i != j && W[i][j] != 0) { ldc l = W[i][j] / W[j][j]; for (int k = j; k < 2 * n; k++) W[i][k] -= l * W[j][k]; }
    }
    if (inv) for (int i = 0; i < n; i++) for (int j = 0; j < n; j++) inv[i][j] = W[i][n + j] / W[i][i];
    if (min_piv_ratio) *min_piv_ratio = mpr;
    return 0;
}
static ld ref_norm1(const ldc A[NMAX][NMAX], int n) { ld m = 0; for (int j = 0; j < n; j++) { ld s = 0; for (int i = 0; i < n; i++) s += ABSL(A[i][j]); if (s > m) m = s; } return m; }
static ld ref_norminf(const ldc A[NMAX][NMAX], int n) { ld m = 0; for (int i = 0; i < n; i++) { ld s = 0; for (int j = 0; j < n; j++) s += ABSL(A[i][j]); if (s > m) m = s; } return m; }
/* structural rank of the first k columns of a 0/1 pattern (columns given in order col[0..k-1]) by augmenting paths */
static int sr_try(int c, int n, int pat[NMAX][NMAX], const int *cols, int *seen, int *match_row) {
    for (int r = 0; r < n; r++) if (pat[r][cols[c]] && !seen[r]) {
        seen[r] = 1;
        if (match_row[r] < 0 || sr_try(match_row[r], n, pat, cols, seen, match_row)) { match_row[r] = c; return 1; }
    }
    return 0;
}
static int struct_rank_prefix(int n, int pat[NMAX][NMAX], const int *cols, int k) {
    int match_row[NMAX]; for (int r = 0; r < n; r++) match_row[r] = -1;
    int rank = 0;
    for (int c = 0; c < k; c++) { int seen[NMAX] = { 0 }; if (sr_try(c, n, pat, cols, seen, match_row)) rank++; }
    return rank;
}

/* "generic" values: fixed table of unrelated numbers, so that no accidental cancellation occurs */
static ldc generic_value(int i, int j, int salt) {
    static const double tab[] = { 1.3718, -2.2941, 3.1729, 0.7393, -1.9157, 2.6881, -0.8461, 1.1273, 3.5639, -2.9713, 0.5927, 1.7753,
                                  -3.3947, 2.0873, -1.4519, 0.9371, 2.4173, -0.6637, 3.8219, -1.2347, 1.6183, -2.7457, 0.4283, 2.9791 };
    int k = (i * 7 + j * 13 + salt * 5) % 24; if (k < 0) k += 24;
    ld re = tab[k] * (1 + 0.03125L * ((i * 3 + j) % 5));
#if IS_COMPLEX
    int k2 = (i * 11 + j * 3 + salt * 7 + 5) % 24;
    return re + tab[k2] * 0.75L * 1.0iL;
#else
    return re;
#endif
}

/* ------------------------------------------------------------------ 6 */
/* Run fn(lo..hi) in forked children; the child records the case it is working
 * on in shared memory, so that a crash/abort/hang is attributed to one case and
 * the sweep continues behind it. */
typedef struct { volatile long cur; volatile long done; volatile int phase; char note[640]; char where[96]; } vf_shared_t;
static vf_shared_t *vf_sh;
static pid_t vf_last_child;
#include <dlfcn.h>
#include <ucontext.h>
/* SEGV/BUS/FPE/ABRT in a child: record the function of the faulting pc (dladdr; harness is linked -rdynamic) and leave with 98.
 * The sanitizer's own report is too slow for sweeps that meet thousands of crashing inputs (ASAN_OPTIONS=handle_segv=0). */
static void vf_fault_handler(int sig, siginfo_t *si, void *uc_) {
    (void)si; ucontext_t *uc = uc_; Dl_info di; const char *nm = "?";
#if defined(__x86_64__)
    void *pc = (void *)uc->uc_mcontext.gregs[REG_RIP];
#else
    void *pc = NULL;
#endif
    if (pc && dladdr(pc, &di) && di.dli_sname) nm = di.dli_sname;
    if (vf_sh) { int i = 0; const char *p = nm; vf_sh->where[i++] = 's'; vf_sh->where[i++] = 'i'; vf_sh->where[i++] = 'g'; vf_sh->where[i++] = '0' + (sig / 10) % 10; vf_sh->where[i++] = '0' + sig % 10; vf_sh->where[i++] = '@';
        while (*p && i < 90) vf_sh->where[i++] = *p++; vf_sh->where[i] = 0; }
    _exit(98);
}
static void vf_install_fault_handlers(void) {
    struct sigaction sa; memset(&sa, 0, sizeof sa); sa.sa_sigaction = vf_fault_handler; sa.sa_flags = SA_SIGINFO | SA_NODEFER;
    static char altstack[65536]; stack_t ss = { altstack, 0, sizeof altstack }; sigaltstack(&ss, NULL); sa.sa_flags |= SA_ONSTACK;
    sigaction(SIGSEGV, &sa, NULL); sigaction(SIGBUS, &sa, NULL); sigaction(SIGFPE, &sa, NULL);
}
/* precision-neutral name: pdgstrf_pivotL -> pXgstrf_pivotL, dgstrs -> Xgstrs */
static void vf_neutral_name(const char *in, char *out, size_t ol) {
    snprintf(out, ol, "%s", in);
    char *p = strstr(out, "@"); p = p ? p + 1 : out;
    if (p[0] == 'p' && strchr("sdcz", p[1]) && p[2] == 'g') p[1] = 'X';
    else if (strchr("sdcz", p[0]) && p[0] && (p[1] == 'g' || !strncmp(p + 1, "la", 2) || !strncmp(p + 1, "sp_", 3) || !strncmp(p + 1, "read", 4) || !strncmp(p+1, "Pivot", 5))) p[0] = 'X';
    else if (p[0] == 'p' && strchr("sdcz", p[1]) && p[1] && (!strncmp(p + 2, "util", 4) || !strncmp(p + 2, "memory", 6))) p[1] = 'X';
    else if (!strncmp(p, "sp_", 3) && strchr("sdcz", p[3]) && p[3] && (!strncmp(p + 4, "gem", 3) || !strncmp(p + 4, "trsv", 4))) p[3] = 'X';
    else if (strchr("cz", p[0]) && p[0] && !strncmp(p + 1, "_abs", 4)) p[0] = 'X';
    else if (strchr("sdcz", p[0]) && p[0] && !strcmp(p + 1, "fill")) p[0] = 'X';
}
enum { VF_OK = 0, VF_EXIT, VF_SIGNAL, VF_ASAN, VF_TIMEOUT, VF_FAULT };
/* stderr of a forked child is captured in an anonymous file of the parent: UBSan prints its reports there (not into the ASan log), and the first
   frame of its stack trace names the function for the crash signature.  vf_err_prepare() in the parent before fork(), vf_err_child() first thing in
   the child. */
static int vf_errfd = -1;
static void vf_err_prepare(void) { if (vf_errfd < 0) vf_errfd = memfd_create("vf-stderr", 0); if (vf_errfd >= 0) { if (ftruncate(vf_errfd, 0)) {} lseek(vf_errfd, 0, SEEK_SET); } }
static void vf_err_child(void) { if (vf_errfd >= 0) dup2(vf_errfd, 2); }
static int vf_err_ubsan(char *out, size_t ol) {
    if (vf_errfd < 0) return 0;
    static char buf[8192]; off_t len = lseek(vf_errfd, 0, SEEK_END); if (len <= 0) return 0; if (len > (off_t)sizeof buf - 1) len = sizeof buf - 1;
    lseek(vf_errfd, 0, SEEK_SET); ssize_t q = read(vf_errfd, buf, (size_t)len); if (q <= 0) return 0; buf[q] = 0;
    char *p = strstr(buf, "runtime error: "); if (!p) return 0;
    char *f0 = strstr(p, "#0 "); char fn[128] = "?";
    if (f0) { char *in = strstr(f0, " in "); if (in) sscanf(in + 4, "%127s", fn); }
    char nn[160]; vf_neutral_name(fn, nn, sizeof nn);
    snprintf(out, ol, "undefined-behaviour@%s", nn); return 1;
}
typedef void (*vf_case_fn)(long idx, void *ctx);
typedef void (*vf_death_fn)(long idx, int kind, int code, const char *note, void *ctx);
static void vf_alarm(int s) { (void)s; _exit(97); }
/* per-case limit: timeout_s seconds of CPU time of this process (all threads), 30 x that of wall-clock time */
static void vf_case_timer2(int cpu_s, int wall_s) {
    struct itimerval it = { { 0, 0 }, { cpu_s, 0 } };
    signal(SIGPROF, vf_alarm); signal(SIGALRM, vf_alarm);
    setitimer(ITIMER_PROF, &it, NULL); alarm(wall_s);
}
static void vf_case_timer(int timeout_s) { vf_case_timer2(timeout_s, timeout_s * 30); }
static void vf_run_isolated(long lo, long hi, vf_case_fn fn, vf_death_fn on_death, void *ctx, int timeout_s) {
    if (!vf_sh) vf_sh = mmap(NULL, sizeof *vf_sh, PROT_READ | PROT_WRITE, MAP_SHARED | MAP_ANONYMOUS, -1, 0);
    long next = lo;
    while (next < hi) {
        vf_sh->cur = next; vf_sh->done = 0; vf_sh->note[0] = 0; vf_sh->where[0] = 0;
        fflush(NULL); vf_err_prepare();
        pid_t pid = fork();
        if (pid == 0) {
            vf_err_child(); signal(SIGALRM, vf_alarm); vf_install_fault_handlers();
            /* the per-case limit is CPU time of the child (ITIMER_PROF: an endless loop burns it, a loaded machine does not), with a
               generous wall-clock limit behind it for a case that blocks without using the CPU */
            for (long i = next; i < hi; i++) { vf_sh->cur = i; vf_case_timer(timeout_s); fn(i, ctx); }
            vf_sh->done = 1; fflush(NULL); _exit(0);
        }
        int st = 0; waitpid(pid, &st, 0); vf_last_child = pid;
        if (WIFEXITED(st) && WEXITSTATUS(st) == 0 && vf_sh->done) break;
        long bad = vf_sh->cur; int kind, code;
        if (WIFSIGNALED(st)) { kind = VF_SIGNAL; code = WTERMSIG(st); }
        else if (WEXITSTATUS(st) == 99) { kind = VF_ASAN; code = 99; }
        else if (WEXITSTATUS(st) == 97) { kind = VF_TIMEOUT; code = 97; }
        else if (WEXITSTATUS(st) == 98) { kind = VF_FAULT; code = 98; }
        else { kind = VF_EXIT; code = WEXITSTATUS(st); }
        on_death(bad, kind, code, (const char *)vf_sh->note, ctx);
        next = bad + 1;
    }
}
static const char *vf_kind_name(int k) { return k == VF_EXIT ? "exit" : k == VF_SIGNAL ? "signal" : k == VF_ASAN ? "sanitizer" : k == VF_TIMEOUT ? "timeout" : k == VF_FAULT ? "fault" : "ok"; }
/* the sanitizer report of a dead child (ASAN_OPTIONS=log_path=$VF_ASAN_LOG): "<error kind>@<function>" from its SUMMARY line */
static int vf_asan_summary(pid_t pid, char *out, size_t ol) {
    const char *pre = getenv("VF_ASAN_LOG"); if (!pre) return 0;
    char path[512]; snprintf(path, sizeof path, "%s.%d", pre, (int)pid);
    /* process ids wrap around in long sweeps: the report file of an earlier process with the same pid (never read because that death was
       classified otherwise) must not be taken for this one's - the first end-to-end thorough run attributed deaths to
       "heap-use-after-free@?" that way.  Only a file written in the last 2 minutes counts. */
    { struct stat sb_; if (stat(path, &sb_) != 0) return 0; if (time(NULL) - sb_.st_mtime > 120) { unlink(path); return 0; } }
    FILE *f = fopen(path, "r"); if (!f) return 0;
    char line[1024]; int ok = 0;
    while (fgets(line, sizeof line, f)) {
        /* symbolize=0 (fast): "==pid==ERROR: AddressSanitizer: <kind> on address ... at pc 0x... bp ..."; the child was forked from
           this very image, so the pc resolves here with dladdr */
        char kind[96]; char *p = strstr(line, "ERROR: AddressSanitizer: ");
        if (p && sscanf(p + 25, "%95s", kind) == 1) {
            char *q = strstr(p, " pc 0x"); unsigned long pc = 0; const char *fn = "?"; Dl_info di;
            if (q) pc = strtoul(q + 4, NULL, 16);
            if (pc && dladdr((void *)pc, &di) && di.dli_sname) fn = di.dli_sname;
            char nn[128]; vf_neutral_name(fn, nn, sizeof nn);
            snprintf(out, ol, "%s@%s", kind, nn); ok = 1; break;
        }
        p = strstr(line, "runtime error: ");
        if (p) { /* UBSan: file:line:col: runtime error: <text> */
            char fnm[128] = "?"; const char *sl = strrchr(line, '/'); if (sl && sl < p) sscanf(sl + 1, "%127[^:]", fnm);
            char txt[64]; snprintf(txt, sizeof txt, "%.40s", p + 15); for (char *t = txt; *t; t++) if (*t == ' ' || *t == '\n') *t = '-';
            snprintf(out, ol, "ubsan:%s@%s", txt, fnm); ok = 1; break;
        }
    }
    fclose(f); unlink(path);
    return ok;
}
/* a child whose exit status is not classified (search/trial runs) may have died in the sanitizer: its report must not stay behind for a later
   process with the same pid (pid_max is 32768 here: with 16 jobs forking thousands of children per second pids repeat within seconds) */
static void vf_discard_log(pid_t pid) { const char *pre = getenv("VF_ASAN_LOG"); if (!pre) return; char path[512]; snprintf(path, sizeof path, "%s.%d", pre, (int)pid); unlink(path); }
/* canonical crash descriptor for signatures: "fault:sig11@pXgstrf_pivotL", "exit:255", "sanitizer:heap-buffer-overflow@pXgstrf_pivotL", "timeout" */
static void vf_crash_desc(int kind, int code, char *out, size_t ol) {
    char sm[256];
    if (kind == VF_ASAN && vf_asan_summary(vf_last_child, sm, sizeof sm)) { snprintf(out, ol, "sanitizer:%s", sm); return; }
    if (kind == VF_ASAN && vf_err_ubsan(sm, sizeof sm)) { snprintf(out, ol, "sanitizer:%s", sm); return; }
    if (kind == VF_FAULT && vf_sh) { char nn[128]; vf_neutral_name((const char *)vf_sh->where, nn, sizeof nn); snprintf(out, ol, "fault:%s", nn); }
    else if (kind == VF_EXIT) snprintf(out, ol, "exit:%d", code);
    else if (kind == VF_SIGNAL) snprintf(out, ol, "signal:%d", code);
    else snprintf(out, ol, "%s", vf_kind_name(kind));
}

/* slice helper: engines take --slice i/k and handle indices idx with idx % k == i */
static int arg_int(int argc, char **argv, const char *name, int dflt) {
    for (int i = 1; i + 1 < argc; i++) if (!strcmp(argv[i], name)) return atoi(argv[i + 1]);
    return dflt;
}
static const char *arg_str(int argc, char **argv, const char *name, const char *dflt) {
    for (int i = 1; i + 1 < argc; i++) if (!strcmp(argv[i], name)) return argv[i + 1];
    return dflt;
}
static int arg_flag(int argc, char **argv, const char *name) { for (int i = 1; i < argc; i++) if (!strcmp(argv[i], name)) return 1; return 0; }

#endif
