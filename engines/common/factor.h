/* One factor+solve case through one of the three entry paths of the library,
 * with every oracle of C01/C02/C05/C06/C09/C16 evaluated on the result.
 * Shared by Engine Q (mcseq) and Engine S (mcsched).
 */
#ifndef VF_FACTOR_H
#define VF_FACTOR_H
#include "common.h"

enum { DRV_DIRECT = 0, DRV_GSSV = 1, DRV_GSSVX = 2 };

typedef struct {
    int driver;               /* DRV_* */
    int as_nr;                /* A handed over row-wise (drivers only) */
    int nrhs; int ldb_extra;            /* rows of padding below B and X (leading dimension n + ldb_extra) */
    int ordering;             /* 0..3 get_perm_c spec */
    int nprocs;
    int w, relax, maxsuper, rowblk, colblk;
    double u;                 /* diag_pivot_thresh */
    int forced;               /* usepr=YES with perm_r preset to force_pos */
    int force_pos[NMAX];
    int symmetric;            /* SymmetricMode */
    int dyn;                  /* SuperLU_DYNAMIC_SNODE_STORE set */
    int trans;                /* gssvx: NOTRANS/TRANS/CONJ */
    int fact;                 /* gssvx: DOFACT/EQUILIBRATE */
    long lwork;               /* gssvx/direct: 0, or >0 user buffer bytes */
    int fill7, fill8; int fill6;        /* sp_ienv(6): L-values estimate (0 = default -50) */         /* sp_ienv(7), sp_ienv(8) (U / Lsub size estimates) */
} fcfg_t;

static void fcfg_default(fcfg_t *c) {
    memset(c, 0, sizeof *c);
    c->driver = DRV_DIRECT; c->nrhs = 1; c->nprocs = 1; c->w = 1; c->relax = 1; c->maxsuper = 4;
    c->rowblk = 200; c->colblk = 100; c->u = 1.0; c->fact = DOFACT; c->trans = NOTRANS;
    c->fill7 = -50; c->fill8 = -30;
}
static int fcfg_str(const fcfg_t *c, char *b, size_t bl) {
    int o = snprintf(b, bl, "drv=%d nr=%d nrhs=%d ldbx=%d ord=%d P=%d w=%d rlx=%d ms=%d rb=%d cb=%d u=%g sym=%d dyn=%d tr=%d fact=%d lwork=%ld f7=%d f8=%d",
                     c->driver, c->as_nr, c->nrhs, c->ldb_extra, c->ordering, c->nprocs, c->w, c->relax, c->maxsuper, c->rowblk, c->colblk, c->u,
                     c->symmetric, c->dyn, c->trans, c->fact, c->lwork, c->fill7, c->fill8);
    if (c->forced) { o += snprintf(b + o, bl - o, " force="); for (int i = 0; i < NMAX && o < (int)bl - 4; i++) { if (c->force_pos[i] < 0) break; o += snprintf(b + o, bl - o, "%d", c->force_pos[i]); } }
    return o;
}

typedef struct {
    int n, info;
    int_t perm_r[NMAX], perm_c[NMAX], perm_c_in[NMAX];
    int_t etree[NMAX], colcnt_h[NMAX], part_super_h[NMAX];
    int have_lu;              /* factors were returned (info == 0, or 0 < info <= n) */
    int wf; char wfmsg[300];  /* wellformed() result when info == 0 */
    ldc Ld[NMAX][NMAX], Ud[NMAX][NMAX];
    int nsuper; int Lnnz, Unnz;
    int lcolcnt[NMAX];        /* actual number of rows (incl. diagonal) of column j of L */
    int nsupr_of[NMAX];       /* rows of the L supernode that holds column j (= values stored for column j) */
    ldc A[NMAX][NMAX];        /* dense copy of the input */
    ldc X[NMAX * 3], B0[NMAX * 3], Bout[NMAX * 3]; int pad_touched;
    int a_changed, b_changed;
    int usepr_after;
    long heap_before, heap_after_destroy; int leak_blocks; char leak_desc[200];
    long bad_free;
    long alloc_calls; long calls_in_call; long mem_total_needed; int redzone_touched; int lu_outside_work; int threads_created;
    int xerbla_calls;
    /* gssvx extras */
    int equed; real_t R[NMAX], C[NMAX], rpg, rcond, ferr[3], berr[3];
    int slot_overflow; char slotmsg[200];
} fres_t;

/* ---- slot-bound monitor (only active when the library was built with the hooks: variant qh / s) ---- */
static struct { int active, n, dyn; long init_map[NMAX + 2]; long slot_end[NMAX + 1]; int overflow; char msg[200]; long nextpos; int nr; long lo[NMAX + 1], hi[NMAX + 1]; int col[NMAX + 1]; } vf_slot;
static void vf_slot_event(int kind, long a, long b, long c) {
#ifdef SLU_MT_VERIF
    if (kind == VE_PRESET_MAP) {
        int n = (int)a; int_t *map = (int_t *)c;
        vf_slot.active = 1; vf_slot.n = n; vf_slot.nextpos = b; vf_slot.overflow = 0; vf_slot.msg[0] = 0; vf_slot.nr = 0;
        vf_slot.dyn = getenv("SuperLU_DYNAMIC_SNODE_STORE") != NULL;
        if (n <= NMAX) {
            for (int j = 0; j <= n; j++) { vf_slot.init_map[j] = map[j]; vf_slot.slot_end[j] = -1; }
            if (!vf_slot.dyn) {
                /* static: leaders carry their start offset, followers a negative offset back to the leader */
                for (int j = 0; j < n; j++) if (map[j] >= 0) {
                    int k = j + 1; while (k < n && map[k] < 0) k++;
                    vf_slot.slot_end[j] = (k < n) ? map[k] : b;
                }
            } else {
                /* dynamic: relaxed leaders were given their slot here (start = map[j] when followed by the relaxed block);
                   other leaders get theirs in DynamicSetMap.  A relaxed leader's slot ends where the next preset position starts. */
                for (int j = 0; j < n; j++) vf_slot.slot_end[j] = -1;
            }
        } else vf_slot.active = 0;
    } else if (kind == VE_DYN_SETMAP && vf_slot.active) {
        int j = (int)a; long num = b; long nextlu = *(int_t *)c;
        if (j >= 0 && j < vf_slot.n) vf_slot.slot_end[j] = nextlu + num;
    } else if (kind == VE_LUSUP_ALLOC && vf_slot.active) {
        int jcol = (int)a; long num = b; int_t *cell = (int_t *)c; long prev = *cell;
        /* storage granted to different columns must never overlap (any mode) */
        for (int q = 0; q < vf_slot.nr && !vf_slot.overflow; q++)
            if (prev < vf_slot.hi[q] && vf_slot.lo[q] < prev + num && num > 0) {
                vf_slot.overflow = 1;
                snprintf(vf_slot.msg, sizeof vf_slot.msg, "L values of column %d [%ld,%ld) overlap those granted to column %d [%ld,%ld)", jcol, prev, prev + num, vf_slot.col[q], vf_slot.lo[q], vf_slot.hi[q]);
            }
        if (vf_slot.nr < NMAX) { vf_slot.lo[vf_slot.nr] = prev; vf_slot.hi[vf_slot.nr] = prev + num; vf_slot.col[vf_slot.nr] = jcol; vf_slot.nr++; }
        /* find the leader index of this cell: walk back over negative offsets */
        int f = jcol; while (f > 0 && vf_slot.init_map[f] < 0) f--;
        long end = vf_slot.slot_end[f];
        if (end >= 0 && prev + num > end && !vf_slot.overflow) {
            vf_slot.overflow = 1;
            snprintf(vf_slot.msg, sizeof vf_slot.msg, "column %d: L values [%ld,%ld) leave the slot of H-supernode %d which ends at %ld", jcol, prev, prev + num, f, end);
        }
    }
#else
    (void)kind; (void)a; (void)b; (void)c;
#endif
}

#if defined(SLU_MT_VERIF) && !defined(VF_OWN_EVENT_HANDLER)
/* Engine Q with hooks compiled in: only the slot monitor listens (plus an optional trace) */
void slu_mt_verif_ev(int kind, long a, long b, long c) {
    static int tr = -1; if (tr < 0) tr = getenv("VF_TRACE") != NULL;
    if (tr && kind == VE_LUSUP_ALLOC) fprintf(stderr, "ev LUSUP_ALLOC jcol=%ld num=%ld prev=%ld\n", a, b, (long)*(int_t *)c);
    else if (tr) fprintf(stderr, "ev kind=%d a=%ld b=%ld c=%ld\n", kind, a, b, (kind == VE_SCHED_RET || kind == VE_RELEASE || kind == VE_NEWSUPER || kind == VE_LSUB_ALLOC || kind == VE_COL_BEGIN || kind == VE_PANEL_BEGIN || kind==VE_THREAD_EXIT) ? c : 0);
    vf_slot_event(kind, a, b, c);
}
#endif
/* fault injection: when > 0, allocation request number vf_arm_fail_k counted from the start of the library call(s) under test, and
   (unless vf_arm_single) every later one, fails.  Armed only around the library calls, never around the harness's own set-up. */
static long vf_arm_fail_k; static int vf_arm_single; static long vf_calls_in_call;
static long vf_arm_base;
static void vf_arm(void) { vf_arm_base = vf_alloc_calls; if (vf_arm_fail_k > 0) { vf_fail_from = vf_alloc_calls + vf_arm_fail_k; vf_fail_single = vf_arm_single; } }
static void vf_disarm(void) { vf_calls_in_call = vf_alloc_calls - vf_arm_base; vf_fail_from = -1; vf_fail_single = 0; }
#define VF_REDZONE 256
static scalar_t *vf_tmp_scalars(int k) { return malloc(sizeof(scalar_t) * (k > 0 ? k : 1)); }

/* Run one case.  T: the matrix; xtrue chosen internally; returns 0 (the run completed; see r->info). */
static int run_factor_case(const tmat_t *T, const fcfg_t *c, fres_t *r)
{
    int n = T->n;
    memset(r, 0, sizeof *r);
    r->n = n;
    tm_to_dense(T, r->A);
    for (int i = 0; i < n; i++) for (int j = 0; j < n; j++) r->A[i][j] = S2L(L2S(r->A[i][j]));     /* the matrix of the problem is what the library is handed: working precision */
    vf_ienv[1] = c->w; vf_ienv[2] = c->relax; vf_ienv[3] = c->maxsuper; vf_ienv[4] = c->rowblk; vf_ienv[5] = c->colblk;
    vf_ienv[6] = c->fill6 ? c->fill6 : -50; vf_ienv[7] = c->fill7; vf_ienv[8] = c->fill8;
    if (c->dyn) setenv("SuperLU_DYNAMIC_SNODE_STORE", "1", 1); else unsetenv("SuperLU_DYNAMIC_SNODE_STORE");
    vf_slot.active = 0; vf_slot.overflow = 0;
    vf_xerbla_calls = 0;

    amat_t am; am_build(&am, T, c->driver == DRV_DIRECT ? 0 : c->as_nr);
    int nrhs = c->nrhs, ldb = n > 0 ? n : 1;
    /* right-hand side B = op(A) * xtrue */
    ldc xt[NMAX * 3];
    for (int k = 0; k < nrhs; k++) for (int i = 0; i < n; i++) xt[k * ldb + i] = (ld)(1 + ((i + 2 * k) % 3)) - (IS_COMPLEX ? 0.5L * ((i + k) % 2) * 1.0iL : 0);
    int tr = (c->driver == DRV_GSSVX) ? c->trans : NOTRANS;
    for (int k = 0; k < nrhs; k++) for (int i = 0; i < n; i++) {
        ldc s = 0;
        for (int j = 0; j < n; j++) {
            ldc a = tr == NOTRANS ? r->A[i][j] : (tr == TRANS ? r->A[j][i] : conjl(r->A[j][i]));
            s += a * xt[k * ldb + j];
        }
        /* round B to working precision: what the library sees */
        r->B0[k * ldb + i] = S2L(L2S(s));
    }
    int ldl = ldb + (c->ldb_extra > 0 ? c->ldb_extra : 0);        /* leading dimension the library is given */
    scalar_t *bmat = vf_tmp_scalars(ldl * nrhs), *xmat = vf_tmp_scalars(ldl * nrhs);
    for (int k = 0; k < ldl * nrhs; k++) { memset(&bmat[k], 0x33, sizeof(scalar_t)); memset(&xmat[k], 0x55, sizeof(scalar_t)); }
    for (int k = 0; k < nrhs; k++) for (int i = 0; i < ldb; i++) bmat[k * ldl + i] = L2S(r->B0[k * ldb + i]);
    SuperMatrix B, X, L, U, AC;
    memset(&L, 0, sizeof L); memset(&U, 0, sizeof U);

    vf_heap_mark_t hm0 = vf_heap_mark(); long seq0 = vf_alloc_calls; long bf0 = vf_bad_free; long thr0 = vf_threads_created;
    r->heap_before = hm0.nlive;

    XCreate_Dense_Matrix(&B, n, nrhs, bmat, ldl, SLU_DN, SLU_DT, SLU_GE);
    XCreate_Dense_Matrix(&X, n, nrhs, xmat, ldl, SLU_DN, SLU_DT, SLU_GE);
    int_t *perm_r = malloc(sizeof(int_t) * (n + 1)), *perm_c = malloc(sizeof(int_t) * (n + 1));
    for (int i = 0; i < n; i++) { perm_r[i] = c->forced ? c->force_pos[i] : -7; perm_c[i] = i; }
    int_t info = -999;
    void *work = NULL; unsigned char *workraw = NULL;
    if (c->lwork > 0) { workraw = malloc(c->lwork + 2 * VF_REDZONE); memset(workraw, 0xA5, c->lwork + 2 * VF_REDZONE); work = workraw + VF_REDZONE; }

    superlumt_options_t opt; memset(&opt, 0, sizeof opt);
    Gstat_t Gstat; int have_gstat = 0, have_ac = 0, have_optarr = 0;

    if (c->driver == DRV_GSSV) {
        get_perm_c(c->ordering, &am.A, perm_c);
        memcpy(r->perm_c_in, perm_c, sizeof(int_t) * n);
        vf_arm(); pXgssv(c->nprocs, &am.A, perm_c, perm_r, &L, &U, &B, &info); vf_disarm();
    } else {
        opt.nprocs = c->nprocs; opt.fact = c->fact; opt.trans = c->trans; opt.refact = NO;
        opt.panel_size = c->w; opt.relax = c->relax; opt.diag_pivot_thresh = c->u; opt.drop_tol = 0;
        opt.usepr = c->forced ? YES : NO; opt.SymmetricMode = c->symmetric ? YES : NO; opt.PrintStat = NO;
        opt.perm_c = perm_c; opt.perm_r = perm_r; opt.work = work; opt.lwork = c->lwork;
        opt.etree = intMalloc(n > 0 ? n : 1); opt.colcnt_h = intMalloc(n > 0 ? n : 1); opt.part_super_h = intMalloc(n > 0 ? n : 1);
        have_optarr = 1;
        get_perm_c(c->ordering, &am.A, perm_c);
        memcpy(r->perm_c_in, perm_c, sizeof(int_t) * n);
        if (c->driver == DRV_GSSVX) {
            equed_t equed = NOEQUIL; superlu_memusage_t mu;
            real_t rpg = -1, rcond = -1;
            vf_arm(); pXgssvx(c->nprocs, &opt, &am.A, perm_c, perm_r, &equed, r->R, r->C, &L, &U, &B, &X, &rpg, &rcond, r->ferr, r->berr, &mu, &info); vf_disarm();
            r->mem_total_needed = (long)mu.total_needed;
            r->equed = equed; r->rpg = rpg; r->rcond = rcond;
        } else {
            StatAlloc(n, c->nprocs, c->w, c->relax, &Gstat); StatInit(n, c->nprocs, &Gstat); have_gstat = 1;
            vf_arm(); sp_colorder(&am.A, perm_c, &opt, &AC); have_ac = 1;
            pXgstrf(&opt, &AC, perm_r, &L, &U, &Gstat, &info); vf_disarm();
            if (info == 0) {
                int_t info2 = 0;
                Xgstrs(NOTRANS, &L, &U, perm_r, perm_c, &B, &Gstat, &info2);
                if (info2) info = -100 + info2;
            }
        }
        for (int i = 0; i < n; i++) { r->etree[i] = opt.etree[i]; r->colcnt_h[i] = opt.colcnt_h[i]; r->part_super_h[i] = opt.part_super_h[i]; }
        r->usepr_after = opt.usepr;
    }
    r->info = (int)info;
    r->xerbla_calls = vf_xerbla_calls;
    r->alloc_calls = vf_alloc_calls - seq0; r->calls_in_call = vf_calls_in_call; r->threads_created = (int)(vf_threads_created - thr0);
    if (workraw) { for (long q = 0; q < VF_REDZONE; q++) if (workraw[q] != 0xA5 || workraw[VF_REDZONE + c->lwork + q] != 0xA5) r->redzone_touched = 1; }
    for (int i = 0; i < n; i++) { r->perm_r[i] = perm_r[i]; r->perm_c[i] = perm_c[i]; }
    r->a_changed = am_unchanged(&am);
    const scalar_t *sol = (c->driver == DRV_GSSVX) ? xmat : bmat;
    for (int k = 0; k < nrhs; k++) for (int i = 0; i < ldb; i++) { r->X[k * ldb + i] = S2L(sol[k * ldl + i]); r->Bout[k * ldb + i] = S2L(bmat[k * ldl + i]); }
    { /* was B left as passed? (bitwise) */
        int ch = 0; for (int k = 0; k < nrhs; k++) for (int i = 0; i < ldb; i++) { scalar_t b0 = L2S(r->B0[k * ldb + i]); if (memcmp(&b0, &bmat[k * ldl + i], sizeof b0)) ch = 1; }
        r->b_changed = ch;
        /* the padding rows between the columns of B and X belong to the caller */
        for (int k = 0; k < nrhs; k++) for (int i = ldb; i < ldl; i++) { const unsigned char *pb = (const unsigned char *)&bmat[k * ldl + i], *px = (const unsigned char *)&xmat[k * ldl + i];
            for (size_t q = 0; q < sizeof(scalar_t); q++) { if (pb[q] != 0x33) r->pad_touched = 1; if (px[q] != 0x55) r->pad_touched = 2; } }
    }
    r->have_lu = (info >= 0 && info <= n && L.Store && U.Store);
    if (info == 0 && r->have_lu) {
        r->wf = wellformed(&L, &U, perm_r, perm_c, n, r->Ld, r->Ud, r->wfmsg, sizeof r->wfmsg);
        if (r->wf == 0) {
            const SCPformat *Ls = L.Store; const NCPformat *Us = U.Store;
            r->nsuper = (int)Ls->nsuper + 1; r->Lnnz = (int)Ls->nnz; r->Unnz = (int)Us->nnz;
            for (int s = 0; s <= Ls->nsuper; s++) {
                int f = Ls->sup_to_colbeg[s], e = Ls->sup_to_colend[s]; int nsupr = Ls->rowind_colend[f] - Ls->rowind_colbeg[f];
                for (int j = f; j < e; j++) { r->lcolcnt[j] = nsupr - (j - f); r->nsupr_of[j] = nsupr; }
            }
        }
    }
    if (r->have_lu && c->lwork > 0 && info == 0) {
        const SCPformat *Ls = L.Store; const NCPformat *Us = U.Store; const char *lo = work, *hi = (const char *)work + c->lwork;
        long lmaxv = 0, lmaxr = 0, umax = 0; for (int j = 0; j < n; j++) { if (Ls->nzval_colend[j] > lmaxv) lmaxv = Ls->nzval_colend[j]; if (Ls->rowind_colend[j] > lmaxr) lmaxr = Ls->rowind_colend[j]; if (Us->colend[j] > umax) umax = Us->colend[j]; }
        const void *ptrs[] = { Ls->nzval, Ls->nzval_colbeg, Ls->nzval_colend, Ls->rowind, Ls->rowind_colbeg, Ls->rowind_colend, Ls->col_to_sup, Ls->sup_to_colbeg, Ls->sup_to_colend, Us->nzval, Us->rowind, Us->colbeg, Us->colend };
        long used[] = { lmaxv * (long)sizeof(scalar_t), n * (long)sizeof(int_t), n * (long)sizeof(int_t), lmaxr * (long)sizeof(int_t), n * (long)sizeof(int_t), n * (long)sizeof(int_t), n * (long)sizeof(int_t), (Ls->nsuper + 1) * (long)sizeof(int_t), (Ls->nsuper + 1) * (long)sizeof(int_t),
                        umax * (long)sizeof(scalar_t), umax * (long)sizeof(int_t), n * (long)sizeof(int_t), n * (long)sizeof(int_t) };
        for (unsigned q = 0; q < sizeof ptrs / sizeof ptrs[0]; q++) if (used[q] > 0 && ((const char *)ptrs[q] < lo || (const char *)ptrs[q] + used[q] > hi)) r->lu_outside_work = 1 + (int)q;
    }
    r->slot_overflow = vf_slot.overflow; if (vf_slot.overflow) snprintf(r->slotmsg, sizeof r->slotmsg, "%s", vf_slot.msg);

    /* documented clean-up */
    if (c->driver == DRV_DIRECT) {
        if (have_ac) pxgstrf_finalize(&opt, &AC);       /* frees AC and the three option arrays */
        have_optarr = 0;
        if (have_gstat) StatFree(&Gstat);
    }
    if (have_optarr) { SUPERLU_FREE(opt.etree); SUPERLU_FREE(opt.colcnt_h); SUPERLU_FREE(opt.part_super_h); }
    if (r->have_lu && c->lwork == 0) { Destroy_SuperNode_SCP(&L); Destroy_CompCol_NCP(&U); }
    else if (r->have_lu && c->lwork > 0) { SUPERLU_FREE(L.Store); SUPERLU_FREE(U.Store); }
    Destroy_SuperMatrix_Store(&B); Destroy_SuperMatrix_Store(&X);
    vf_heap_mark_t hm1 = vf_heap_mark();
    r->heap_after_destroy = hm1.nlive;
    r->leak_blocks = (int)(hm1.nlive - hm0.nlive);
    if (r->leak_blocks) vf_live_since(seq0, r->leak_desc, sizeof r->leak_desc);
    r->bad_free = vf_bad_free - bf0;
    free(workraw); free(perm_r); free(perm_c); free(bmat); free(xmat); am_free(&am);
    return 0;
}

/* reference facts about the input, computed once per matrix */
typedef struct {
    int n; int struct_nonsing; int num_nonsing; ld cond1; ldc inv[NMAX][NMAX];
} mref_t;
static void mref_compute(const tmat_t *T, mref_t *m) {
    ldc A[NMAX][NMAX]; int pat[NMAX][NMAX]; int n = T->n; int cols[NMAX];
    tm_to_dense(T, A); memset(pat, 0, sizeof pat);
    for (int j = 0; j < n; j++) { cols[j] = j; for (int k = T->colptr[j]; k < T->colptr[j + 1]; k++) pat[T->rowind[k]][j] = 1; }
    m->n = n; m->struct_nonsing = struct_rank_prefix(n, pat, cols, n) == n;
    ld mpr = 0;
    m->num_nonsing = m->struct_nonsing && ref_inverse(A, n, m->inv, &mpr) == 0;
    m->cond1 = m->num_nonsing ? ref_norm1(A, n) * ref_norm1(m->inv, n) : INFINITY;
}
#endif
