/* mcread_fmt.h - the independent side of engine mcread (C20): Fortran edit descriptors, number formatting,
 * the written-matrix model, the expected (column compressed) result and the text buffer.
 * Nothing in this file calls the library. */
#ifndef MCREAD_FMT_H
#define MCREAD_FMT_H
#include <ctype.h>

enum { RD_HB = 0, RD_RB = 1, RD_MT = 2 };
static const char *RDN[3] = { "hb", "rb", "mt" };
enum { PAD_F = 0, PAD_80 = 1, PAD_T = 2 };           /* header lines: Fortran record widths / padded to 80 / trailing blanks trimmed */

/* (kIw): k = 0 means the repeat count is omitted, "(I5)" */
typedef struct { int k, w, lower; } idesc_t;
/* ([1P[,]]k{E|D|F}w.d): p: 0 none, 1 "1P" glued to the repeat count, 2 "1P,"
 * mant: 0 data printed 0.ddddE+ee (Fortran 0P), 1 printed d.dddE+ee (1P, or a C writer); ex: exponent letter in the DATA (0 for F) */
typedef struct { char L; int lower, p, k, w, d, mant; char ex; } rdesc_t;

static void idesc_str(const idesc_t *d, char *o) {
    char c = d->lower ? 'i' : 'I';
    if (d->k) sprintf(o, "(%d%c%d)", d->k, c, d->w); else sprintf(o, "(%c%d)", c, d->w);
}
static void rdesc_str(const rdesc_t *d, char *o) {
    char c = d->lower ? (char)tolower(d->L) : d->L; int n = 0;
    o[n++] = '(';
    if (d->p) { n += sprintf(o + n, "1%c", d->lower ? 'p' : 'P'); if (d->p == 2) o[n++] = ','; }
    if (d->k) n += sprintf(o + n, "%d", d->k);
    n += sprintf(o + n, "%c%d.%d)", c, d->w, d->d);
}
/* my own parser of a Fortran format field; returns 'I', 'R' or 0 */
static int parse_fmt(const char *s, idesc_t *ID, rdesc_t *R) {
    int num = -1, p = 0;
    while (*s == ' ') s++;
    if (*s != '(') return 0;
    s++;
    if (isdigit((unsigned char)*s)) { num = 0; while (isdigit((unsigned char)*s)) num = num * 10 + (*s++ - '0'); }
    if (*s == 'P' || *s == 'p') {
        p = 1; s++; if (*s == ',') { p = 2; s++; }
        num = -1; if (isdigit((unsigned char)*s)) { num = 0; while (isdigit((unsigned char)*s)) num = num * 10 + (*s++ - '0'); }
    }
    char c = *s++; int lower = islower((unsigned char)c) != 0; c = (char)toupper((unsigned char)c);
    int w = 0; while (isdigit((unsigned char)*s)) w = w * 10 + (*s++ - '0');
    if (c == 'I') { if (*s != ')' || !w) return 0; ID->k = num < 0 ? 0 : num; ID->w = w; ID->lower = lower; return 'I'; }
    if (c == 'E' || c == 'D' || c == 'F' || c == 'G') {
        int d = 0; if (*s != '.') return 0; s++;
        while (isdigit((unsigned char)*s)) d = d * 10 + (*s++ - '0');
        if (*s == 'E' || *s == 'e') { s++; while (isdigit((unsigned char)*s)) s++; }
        if (*s != ')' || !w) return 0;
        R->L = c == 'G' ? 'E' : c; R->lower = lower; R->p = p; R->k = num < 0 ? 0 : num; R->w = w; R->d = d;
        return 'R';
    }
    return 0;
}

/* print v the way the descriptor says; returns the token length, or -1 if it does not fit into w columns.
 * With a scale factor and F editing a Fortran writer would print 10*v; the statement makes the PRINTED decimal the
 * reference, so the token is simply what stands in the file. */
static int fmt_real(char *out, long double v, const rdesc_t *d) {
    char t[96];
    if (d->L == 'F') snprintf(t, sizeof t, "%.*Lf", d->d, v);
    else {
        int nsig = d->mant ? d->d + 1 : d->d; if (nsig < 1) return -1;
        char e[96]; snprintf(e, sizeof e, "%.*Le", nsig - 1, v);
        char dig[64]; int nd = 0, neg = 0, ex = 0; const char *q = e;
        if (*q == '-') { neg = 1; q++; }
        for (; *q && *q != 'e'; q++) if (isdigit((unsigned char)*q)) dig[nd++] = *q;
        dig[nd] = 0; if (*q == 'e') ex = atoi(q + 1);
        int allzero = 1; for (int i = 0; i < nd; i++) if (dig[i] != '0') allzero = 0;
        int n = 0; if (neg) t[n++] = '-';
        if (d->mant) { t[n++] = dig[0]; t[n++] = '.'; memcpy(t + n, dig + 1, nd - 1); n += nd - 1; }
        else { t[n++] = '0'; t[n++] = '.'; memcpy(t + n, dig, nd); n += nd; if (!allzero) ex += 1; }
        if (ex > 99 || ex < -99) return -1;
        n += sprintf(t + n, "%c%c%02d", d->ex ? d->ex : 'E', ex < 0 ? '-' : '+', abs(ex));
        t[n] = 0;
    }
    int len = (int)strlen(t);
    if (len > d->w || len > 38) return -1;
    strcpy(out, t);
    return len;
}

/* ---------- the written matrix, the expected result (work storage grown on demand) ---------- */
typedef char tok_t[40];
typedef struct { int r; scalar_t v, v2; } ent_t;        /* v2: the token rounded decimal -> double -> working precision */
static struct {
    int cap_n, cap_nz;
    int *colptr, *rowind; tok_t *re, *im;           /* as it stands in the file (0-based here) */
    int *ecolptr, *erow; scalar_t *eval, *eval2;            /* expected column-compressed result */
    ent_t *ent;
} W;
typedef struct { int m, n, nnz, sym; } fmat_t;       /* nnz = entries in the file (lower triangle if sym) */
typedef struct { int m, n, nnz; } emat_t;
static fmat_t F; static emat_t E;

static void w_ensure(int n, int nz) {
    if (n + 2 > W.cap_n) { W.cap_n = n + 2; W.colptr = realloc(W.colptr, sizeof(int) * W.cap_n); W.ecolptr = realloc(W.ecolptr, sizeof(int) * W.cap_n); }
    if (2 * nz + 2 > W.cap_nz) {
        W.cap_nz = 2 * nz + 2;
        W.rowind = realloc(W.rowind, sizeof(int) * W.cap_nz); W.re = realloc(W.re, sizeof(tok_t) * W.cap_nz); W.im = realloc(W.im, sizeof(tok_t) * W.cap_nz);
        W.erow = realloc(W.erow, sizeof(int) * W.cap_nz); W.eval = realloc(W.eval, sizeof(scalar_t) * W.cap_nz); W.eval2 = realloc(W.eval2, sizeof(scalar_t) * W.cap_nz); W.ent = realloc(W.ent, sizeof(ent_t) * W.cap_nz);
    }
}
/* the reference value of a printed token: the correctly rounded working-precision number (glibc strtof/strtod are
 * correctly rounded; a D exponent is Fortran's spelling of E) */
static long tok_ref_diff_dummy, *TOK_REF_DIFF = &tok_ref_diff_dummy;    /* tokens for which strtold-then-round disagrees with strtof/strtod (expected: none) */
static real_t tok_real(const char *t) {
    char b[48]; int n = 0; for (; *t && n < 47; t++) b[n++] = (*t == 'D' || *t == 'd') ? 'E' : *t; b[n] = 0;
    real_t r = sizeof(real_t) == 4 ? (real_t)strtof(b, NULL) : (real_t)strtod(b, NULL), r2 = (real_t)strtold(b, NULL);
    if (memcmp(&r, &r2, sizeof r)) ++*TOK_REF_DIFF;
    return r;
}
static real_t tok_real_via_double(const char *t) {
    char b[48]; int n = 0; for (; *t && n < 47; t++) b[n++] = (*t == 'D' || *t == 'd') ? 'E' : *t; b[n] = 0;
    return (real_t)strtod(b, NULL);
}
static scalar_t tok_scalar2(int k) {
    scalar_t s;
#if IS_COMPLEX
    s.r = tok_real_via_double(W.re[k]); s.i = tok_real_via_double(W.im[k]);
#else
    s = tok_real_via_double(W.re[k]);
#endif
    return s;
}
static scalar_t tok_scalar(int k) {
    scalar_t s;
#if IS_COMPLEX
    s.r = tok_real(W.re[k]); s.i = tok_real(W.im[k]);
#else
    s = tok_real(W.re[k]);
#endif
    return s;
}
static int ent_cmp(const void *a, const void *b) { return ((const ent_t *)a)->r - ((const ent_t *)b)->r; }
/* expected result: the file's entries, symmetric files expanded, rows ascending inside each column (the oracle compares sets) */
static void build_expected(void) {
    int n = F.n; E.m = F.m; E.n = n;
    for (int j = 0; j <= n; j++) W.ecolptr[j] = 0;
    for (int j = 0; j < n; j++) for (int k = W.colptr[j]; k < W.colptr[j + 1]; k++) {
        W.ecolptr[j + 1]++;
        if (F.sym && W.rowind[k] != j && W.rowind[k] < n) W.ecolptr[W.rowind[k] + 1]++;
    }
    for (int j = 0; j < n; j++) W.ecolptr[j + 1] += W.ecolptr[j];
    E.nnz = W.ecolptr[n];
    int *pos = malloc(sizeof(int) * (n + 1)); for (int j = 0; j < n; j++) pos[j] = W.ecolptr[j];
    for (int j = 0; j < n; j++) for (int k = W.colptr[j]; k < W.colptr[j + 1]; k++) {
        int i = W.rowind[k]; scalar_t v = tok_scalar(k), v2 = tok_scalar2(k);
        W.ent[pos[j]].r = i; W.ent[pos[j]].v = v; W.ent[pos[j]].v2 = v2; pos[j]++;
        if (F.sym && i != j && i < n) { W.ent[pos[i]].r = j; W.ent[pos[i]].v = v; W.ent[pos[i]].v2 = v2; pos[i]++; }
    }
    free(pos);
    for (int j = 0; j < n; j++) qsort(W.ent + W.ecolptr[j], W.ecolptr[j + 1] - W.ecolptr[j], sizeof(ent_t), ent_cmp);
    for (int k = 0; k < E.nnz; k++) { W.erow[k] = W.ent[k].r; W.eval[k] = W.ent[k].v; W.eval2[k] = W.ent[k].v2; }
}

/* ---------- text buffer ---------- */
static char *TX; static size_t TXN, TXCAP;
static void tx_reset(void) { TXN = 0; }
static void tx_put(const char *s, size_t n) {
    if (TXN + n + 1 > TXCAP) { TXCAP = (TXN + n + 1) * 2 + 4096; TX = realloc(TX, TXCAP); }
    memcpy(TX + TXN, s, n); TXN += n; TX[TXN] = 0;
}
/* one header line whose Fortran record width is natw */
static void tx_header(const char *s, int natw, int pad) {
    char b[128]; memset(b, ' ', sizeof b); size_t l = strlen(s); if (l > 100) l = 100; memcpy(b, s, l);
    int len = natw; if ((int)l > len) len = (int)l;
    if (pad == PAD_80 && len < 80) len = 80;
    if (pad == PAD_T) while (len > 0 && b[len - 1] == ' ') len--;
    tx_put(b, len); tx_put("\n", 1);
}
/* fixed-width data: cnt fields, per fields on a line, each right-aligned in w columns */
static struct { int per, w, col; } TF;
static void tf_begin(int per, int w) { TF.per = per < 1 ? 1 : per; TF.w = w; TF.col = 0; }
static int tf_put(const char *tok) {
    int l = (int)strlen(tok); if (l > TF.w) return -1;
    char b[64]; memset(b, ' ', TF.w); memcpy(b + TF.w - l, tok, l); tx_put(b, TF.w);
    if (++TF.col == TF.per) { tx_put("\n", 1); TF.col = 0; }
    return 0;
}
static void tf_end(void) { if (TF.col) { tx_put("\n", 1); TF.col = 0; } }
static int ceil_div(int a, int b) { return (a + b - 1) / b; }
#endif
