/* Engine mcread: bounded-exhaustive check of property C20 (file readers ?readhb / ?readrb / ?readmt return exactly the
 * matrix a well-formed file encodes).  Every file is produced by the independent writers in mcread_layout.h, fed to the
 * reader through stdin and the returned column-compressed arrays are compared with what was written.
 *
 * usage: mcread --prop C20 --reader hb|rb|mt --grid quick|full [--slice i/k] [--deadline s] [--io mem|fd] [--selfcheck 0|1|2]
 *        mcread --prop C20 --one "<case string>" [--io mem|fd] [--dump 1]
 */
#include "../common/common.h"
#include <setjmp.h>
#include <sys/time.h>
#include <fcntl.h>
#include <stdio_ext.h>
#include "mcread_fmt.h"
#include "mcread_layout.h"
#include "mcread_gen.h"

static const char *PROP = "C20";
enum { IO_MEM = 0, IO_FD = 1 };
static int IOMODE = IO_MEM, DUMP = 0;
#define PRINT_CAP 3

/* ---------- counters shared with the forked children ---------- */
#define DH_BITS 22
typedef struct { long count; int printed; char sig[160]; } sigrec_t;
typedef struct {
    long runs, judged, skipped, viol, deaths, hangs, distinct, probes, clean, restricted, ref_diff;
    int samples_left, nsigs; long isolate_idx, harness_deaths;
    sigrec_t sigs[192];
    unsigned long long dh[1u << DH_BITS];
} shared_t;
static shared_t *G;
static unsigned long long hmix(unsigned long long h, unsigned long long v) { h ^= v + 0x9E3779B97F4A7C15ULL + (h << 6) + (h >> 2); return h; }
static unsigned long long hbytes(unsigned long long h, const void *p, size_t n) { const unsigned char *c = p; for (size_t i = 0; i < n; i++) h = (h ^ c[i]) * 1099511628211ULL; return h; }
static void note_distinct(unsigned long long h) {
    if (!h) h = 1; unsigned k = (unsigned)(h >> 20) & ((1u << DH_BITS) - 1);
    for (int t = 0; t < 64; t++) { unsigned s = (k + t) & ((1u << DH_BITS) - 1); if (G->dh[s] == h) return; if (!G->dh[s]) { G->dh[s] = h; G->distinct++; return; } }
}
static void text_excerpt(char *o, size_t ol) { if (TXN < ol - 8) snprintf(o, ol, "%s", TX); else { snprintf(o, ol, "%.*s", (int)(ol - 8), TX); strcat(o, "..."); } }
static void record_violation(const char *sig, const char *cs, const char *detail) {
    G->viol++;
    int k; for (k = 0; k < G->nsigs; k++) if (!strcmp(G->sigs[k].sig, sig)) break;
    if (k == G->nsigs) { if (k == 192) k = 191; else { G->nsigs++; snprintf(G->sigs[k].sig, sizeof G->sigs[k].sig, "%s", sig); G->sigs[k].count = 0; G->sigs[k].printed = 0; } }
    G->sigs[k].count++;
    if (G->sigs[k].printed < (strstr(sig, "symmetric-not-expanded") ? 1 : PRINT_CAP)) {      /* all are counted; the symmetric finding is printed once per reader */
        G->sigs[k].printed++;
        char tx[1300]; text_excerpt(tx, sizeof tx);
        out_violation(PROP, sig, cs, "%s | file:\n%s", detail, tx);
    }
}

/* ---------- running one reader on the text in TX ---------- */
enum { ST_OK = 0, ST_VIOL, ST_HANG, ST_DEATH, ST_SKIP };
typedef struct { int status; char clause[40]; char detail[400]; char cd[128]; unsigned long long outhash; } verdict_t;
static verdict_t *VS;                        /* shared page: verdict of a case run in a grandchild (fd mode) */

/* results land in globals so that they survive the longjmp out of a spinning reader */
static int_t r_m, r_n, r_nnz; static scalar_t *r_val; static int_t *r_row, *r_col;
static sigjmp_buf HJ; static volatile sig_atomic_t h_armed;
#define CASE_CPU_S 2
static void h_stop(void) { struct itimerval z; memset(&z, 0, sizeof z); h_armed = 0; setitimer(ITIMER_REAL, &z, NULL); }
/* Armed when the reader asks for input beyond the end of the file.  From then on a 250 us timer ticks; a tick that arrives
 * on time (the process was really running since the last one - a descheduled process gets one late tick, not many) counts,
 * a late one resets the count.  HANG_TICKS timely ticks in a row = the reader is still busy about 2 ms after end-of-file:
 * it is spinning.  Neither machine load nor a hypervisor stealing the CPU can fake that; a healthy reader needs microseconds. */
#define HANG_TICK_US 250
static int HANG_TICKS = 6; static volatile int h_good; static double h_last;
static void h_tick(int s) {
    (void)s; if (!h_armed) return;
    double t = now_s();
    if (t - h_last <= 3e-6 * HANG_TICK_US) h_good++; else h_good = 0;
    h_last = t;
    if (h_good >= HANG_TICKS) { h_stop(); siglongjmp(HJ, 1); }
}
static void h_arm(void) {
    if (h_armed) return;
    struct sigaction sa; memset(&sa, 0, sizeof sa); sa.sa_handler = h_tick; sa.sa_flags = SA_RESTART; sigaction(SIGALRM, &sa, NULL);
    struct itimerval it; it.it_interval.tv_sec = 0; it.it_interval.tv_usec = HANG_TICK_US; it.it_value = it.it_interval;
    h_good = 0; h_last = now_s(); h_armed = 1; setitimer(ITIMER_REAL, &it, NULL);
}
static void cpu_guard(int seconds) { struct itimerval it; memset(&it, 0, sizeof it); it.it_value.tv_sec = seconds; setitimer(ITIMER_VIRTUAL, &it, NULL); }
static void vt_alarm(int s) { (void)s; _exit(97); }

typedef struct { const char *p; size_t n, pos; int eofs, closed; } ck_t;
static ssize_t ck_read(void *c, char *b, size_t sz) {
    ck_t *k = c; size_t left = k->n - k->pos;
    if (!left) { if (!k->eofs++) h_arm(); return 0; }
    if (sz > left) sz = left; memcpy(b, k->p + k->pos, sz); k->pos += sz; return (ssize_t)sz;
}
static int ck_close(void *c) { ((ck_t *)c)->closed = 1; return 0; }

/* deterministic stale stack under the reader's frames: what the reader finds in its uninitialised buffers must not depend
 * on which case ran before (ASCII '7': a forgotten terminator then shows, a NUL fill would hide it) */
static void __attribute__((noinline)) scrub_stack(void) { volatile char a[160000]; memset((void *)a, '7', sizeof a); __asm__ volatile("" ::: "memory"); }
/* an absurd array size read from a misparsed header must fail fast instead of being allocated and filled */
const char *__asan_default_options(void) { return "max_allocation_size_mb=512:allocator_may_return_null=1"; }
static void call_reader(int rd) {
    scrub_stack();
    r_m = r_n = r_nnz = -777; r_val = NULL; r_row = NULL; r_col = NULL;
    if (rd == RD_HB) Xreadhb(&r_m, &r_n, &r_nnz, &r_val, &r_row, &r_col);
    else if (rd == RD_RB) Xreadrb(&r_m, &r_n, &r_nnz, &r_val, &r_row, &r_col);
    else Xreadmt(&r_m, &r_n, &r_nnz, &r_val, &r_row, &r_col);
}
static void free_result(void) {
    if (r_val) SUPERLU_FREE(r_val); if (r_row) SUPERLU_FREE(r_row); if (r_col) SUPERLU_FREE(r_col);
    r_val = NULL; r_row = NULL; r_col = NULL;
}
/* returns 0, or 1 if the reader was found spinning at end-of-file */
static int read_mem(int rd) {
    static ck_t ck; static FILE *saved; static FILE *f;
    cookie_io_functions_t io = { ck_read, NULL, NULL, ck_close };
    ck.p = TX; ck.n = TXN; ck.pos = 0; ck.eofs = 0; ck.closed = 0;
    f = fopencookie(&ck, "r", io); saved = stdin;
    __fsetlocking(f, FSETLOCKING_BYCALLER);                 /* single-threaded; an abandoned stream must not keep a lock */
    if (sigsetjmp(HJ, 1)) { stdin = saved; return 1; }      /* the abandoned stream is leaked on purpose */
    stdin = f;
    call_reader(rd);
    h_stop(); stdin = saved;
    if (!ck.closed) fclose(f);
    return 0;
}
static void read_fd(int rd) {                                /* only in a process that will not use stdin again */
    int fd = memfd_create("mcread", 0);
    if (fd < 0) { char nm[] = "/tmp/mcread_XXXXXX"; fd = mkstemp(nm); unlink(nm); }
    size_t o = 0; while (o < TXN) { ssize_t w = write(fd, TX + o, TXN - o); if (w <= 0) break; o += (size_t)w; }
    lseek(fd, 0, SEEK_SET); dup2(fd, 0); close(fd);
    call_reader(rd);
}

/* ---------- the oracle ---------- */
#define VFAIL(cl, ...) do { V->status = ST_VIOL; snprintf(V->clause, sizeof V->clause, "%s", cl); snprintf(V->detail, sizeof V->detail, __VA_ARGS__); return; } while (0)
static void fmt_scalar(char *o, size_t ol, scalar_t v) {
#if IS_COMPLEX
    snprintf(o, ol, "(%.17g,%.17g)", (double)v.r, (double)v.i);
#else
    snprintf(o, ol, "%.17g", (double)v);
#endif
}
/* compare the returned arrays (column pointers already known to be sane) with a reference CSC whose rows ascend inside
 * each column; shift is added to the reference rows.  0 equal, 1 entries differ, 2 only values differ */
static int CMP_DR;      /* after cmp_csc: every differing value equals the token rounded through double (double rounding) */
static int cmp_csc(int n, const int *cp, const int *rw, const scalar_t *vl, int shift, char *why, size_t wl) {
    int valdiff = 0; CMP_DR = 1;
    for (int j = 0; j < n; j++) {
        int a = r_col[j], b = r_col[j + 1];
        if (b - a != cp[j + 1] - cp[j]) { snprintf(why, wl, "column %d holds %d entries, the file has %d", j, b - a, cp[j + 1] - cp[j]); return 1; }
        for (int k = a; k < b; k++) { W.ent[k].r = r_row[k]; W.ent[k].v = r_val[k]; }
        qsort(W.ent + a, b - a, sizeof(ent_t), ent_cmp);
        for (int k = a, q = cp[j]; k < b; k++, q++) {
            if (W.ent[k].r != rw[q] + shift) { snprintf(why, wl, "column %d: returned row %d where the file has row %d (0-based)", j, W.ent[k].r, rw[q]); return 1; }
            if (memcmp(&W.ent[k].v, &vl[q], sizeof(scalar_t)) && (vl != W.eval || memcmp(&W.ent[k].v, &W.eval2[q], sizeof(scalar_t)))) CMP_DR = 0;
            if (memcmp(&W.ent[k].v, &vl[q], sizeof(scalar_t)) && !valdiff) {
                char x[64], y[64]; fmt_scalar(x, sizeof x, W.ent[k].v); fmt_scalar(y, sizeof y, vl[q]);
                snprintf(why, wl, "entry (%d,%d): returned %s, the printed decimal rounds to %s", rw[q], j, x, y); valdiff = 1;
            }
        }
    }
    return valdiff ? 2 : 0;
}
static void judge(verdict_t *V) {
    char why[300] = "";
    V->status = ST_OK; V->clause[0] = 0; V->detail[0] = 0;
    unsigned long long h = hmix(hmix(hmix(7, (unsigned long long)r_m), (unsigned long long)r_n), (unsigned long long)r_nnz);
    V->outhash = h;
    if (r_m != E.m || r_n != E.n) VFAIL("dims", "returned %d x %d, the file says %d x %d (nnz returned %d, written %d)", (int)r_m, (int)r_n, E.m, E.n, (int)r_nnz, F.nnz);
    int unexpanded = F.sym && E.nnz != F.nnz && r_nnz == F.nnz;
    if (r_nnz != E.nnz && !unexpanded) VFAIL("nnz", "returned nnz %d, the file encodes %d entries", (int)r_nnz, E.nnz);
    if (!r_col || !r_row || !r_val) VFAIL("arrays", "a returned array pointer is NULL");
    h = hbytes(h, r_col, sizeof(int_t) * (r_n + 1)); h = hbytes(h, r_row, sizeof(int_t) * r_nnz); h = hbytes(h, r_val, sizeof(scalar_t) * r_nnz); V->outhash = h;
    if (r_col[0] != 0) VFAIL("colptr", "colptr[0] = %d", (int)r_col[0]);
    for (int j = 0; j < r_n; j++) if (r_col[j + 1] < r_col[j] || r_col[j + 1] > r_nnz) VFAIL("colptr", "colptr[%d] = %d, colptr[%d] = %d (nnz %d): not monotone / out of range", j, (int)r_col[j], j + 1, (int)r_col[j + 1], (int)r_nnz);
    if (r_col[r_n] != r_nnz) VFAIL("colptr", "colptr[n] = %d but nnz = %d", (int)r_col[r_n], (int)r_nnz);
    if (unexpanded) {
        /* exactly the stored triangle came back? */
        int save = F.sym; F.sym = 0; build_expected(); F.sym = save;
        int c = cmp_csc(F.n, W.ecolptr, W.erow, W.eval, 0, why, sizeof why);
        F.sym = save; build_expected();
        if (c == 0) VFAIL("symmetric-not-expanded", "type code says symmetric, the file stores the lower triangle (%d entries); the reader returned exactly those %d entries instead of the %d of the full matrix", F.nnz, F.nnz, E.nnz);
        VFAIL("nnz", "returned nnz %d, the file encodes %d entries", (int)r_nnz, E.nnz);
    }
    int inrange = 1, shifted = 1;
    for (int k = 0; k < r_nnz; k++) { if (r_row[k] < 0 || r_row[k] >= r_m) inrange = 0; if (r_row[k] < 1 || r_row[k] > r_m) shifted = 0; }
    int c = cmp_csc(E.n, W.ecolptr, W.erow, W.eval, 0, why, sizeof why);
    if (c == 1) {
        char w2[300];
        if (cmp_csc(E.n, W.ecolptr, W.erow, W.eval, 1, w2, sizeof w2) != 1 || cmp_csc(E.n, W.ecolptr, W.erow, W.eval, -1, w2, sizeof w2) != 1)
            VFAIL("index-base", "every returned row index is off by one (%s)", shifted ? "1-based returned" : "shifted down");
        if (!inrange) VFAIL("rowind", "row index out of range 0..%d; %s", (int)r_m - 1, why);
        VFAIL("entries", "%s", why);
    }
    if (c == 2 && CMP_DR) VFAIL("values:double-rounding", "%s; the returned value is the decimal rounded to double first and to single precision afterwards", why);
    if (c == 2) VFAIL("values", "%s", why);
}

/* run the reader on TX and judge it.  Inline (stdin replaced by an in-memory stream), or isolated: in a child of its own
 * (so that a crash is a verdict, not the end of the sweep); with --io fd the child's fd 0 really is the file. */
/* a sanitizer log nobody will read (e.g. the warning about a refused giant allocation) must not pile up */
static void drop_san_log(pid_t pid) { const char *pre = getenv("VF_ASAN_LOG"); if (pre) { char p[512]; snprintf(p, sizeof p, "%s.%d", pre, (int)pid); unlink(p); } }
static int ISOLATE;                          /* force isolation (attribution probes, re-run of a case that killed the sweep child) */
static void run_text(int rd, verdict_t *V) {
    memset(V, 0, sizeof *V);
    if (IOMODE == IO_MEM && !ISOLATE) {
        if (read_mem(rd)) { V->status = ST_HANG; strcpy(V->clause, "hang"); snprintf(V->detail, sizeof V->detail, "the reader asked for input beyond the end of the file and then kept running without returning (%d timer ticks of %d us: spinning at end-of-file)", HANG_TICKS, HANG_TICK_US); free_result(); return; }
        judge(V); free_result(); return;
    }
    memset(VS, 0, sizeof *VS); VS->status = -1; fflush(vf_out);
    if (vf_sh) vf_sh->where[0] = 0;
    pid_t pid = fork();
    if (pid == 0) {
        vf_install_fault_handlers();
        if (IOMODE == IO_FD) { signal(SIGALRM, vf_alarm); alarm(3); read_fd(rd); judge(VS); }
        else {
            signal(SIGVTALRM, vt_alarm); cpu_guard(CASE_CPU_S);
            if (read_mem(rd)) { VS->status = ST_HANG; strcpy(VS->clause, "hang"); snprintf(VS->detail, sizeof VS->detail, "the reader asked for input beyond the end of the file and then kept running without returning (%d timer ticks of %d us: spinning at end-of-file)", HANG_TICKS, HANG_TICK_US); }
            else judge(VS);
        }
        _exit(0);
    }
    int st = 0; waitpid(pid, &st, 0); vf_last_child = pid;
    if (WIFEXITED(st) && WEXITSTATUS(st) == 0 && VS->status >= 0) { *V = *VS; drop_san_log(pid); return; }
    int kind, code;
    if (WIFSIGNALED(st)) { kind = VF_SIGNAL; code = WTERMSIG(st); } else if (WEXITSTATUS(st) == 99) { kind = VF_ASAN; code = 99; }
    else if (WEXITSTATUS(st) == 97) { kind = VF_TIMEOUT; code = 97; } else if (WEXITSTATUS(st) == 98) { kind = VF_FAULT; code = 98; } else { kind = VF_EXIT; code = WEXITSTATUS(st); }
    if (kind != VF_ASAN) drop_san_log(pid);
    if (kind == VF_TIMEOUT) { V->status = ST_HANG; strcpy(V->clause, "hang"); snprintf(V->detail, sizeof V->detail, IOMODE == IO_FD ? "the reader did not return within 3 s although stdin is a regular file at end-of-file" : "the reader did not return within %d s of CPU time", CASE_CPU_S); return; }
    V->status = ST_DEATH; strcpy(V->clause, "crash"); vf_crash_desc(kind, code, V->cd, sizeof V->cd);
    snprintf(V->detail, sizeof V->detail, "the reader process died (%s)", V->cd);
    drop_san_log(pid);
}

/* one case = (layout, matrix) */
static void exec_case(layout_t *L, const smat_t *M, verdict_t *V) {
    memset(V, 0, sizeof *V);
    const char *rule = build_fmat(L, M);
    if (!rule) { layout_fmts(L); if (L->rd == RD_MT) write_mt(L); else if (write_hbrb(L) < 0) rule = "an integer does not fit the field width"; }
    if (rule) { V->status = ST_SKIP; snprintf(V->detail, sizeof V->detail, "%s", rule); return; }
    build_expected();
    run_text(L->rd, V);
}

#include "mcread_sample.h"
#include "mcread_main.h"
