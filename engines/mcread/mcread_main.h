/* mcread_main.h - attribution of a failure to layout attributes, accounting, sweep driver, replay */
#ifndef MCREAD_MAIN_H
#define MCREAD_MAIN_H
#include <sys/resource.h>
static double cpu_total_s(void) { struct rusage a, b; getrusage(RUSAGE_SELF, &a); getrusage(RUSAGE_CHILDREN, &b);
    return a.ru_utime.tv_sec + b.ru_utime.tv_sec + a.ru_stime.tv_sec + b.ru_stime.tv_sec + 1e-6 * (a.ru_utime.tv_usec + b.ru_utime.tv_usec + a.ru_stime.tv_usec + b.ru_stime.tv_usec); }

/* ---------- which layout attribute is responsible?  Each non-base attribute of the failing layout is tried alone on the
 * base layout with the same matrix; those that reproduce the same clause name the class.  Memoised per layout. ---------- */
typedef struct { unsigned long long key; char cls[100]; } memo_t;
typedef struct { int n; memo_t e[1024]; } memotab_t;
static memotab_t *MEMO;
static unsigned long long layout_key(const layout_t *L, const char *clause) {
    unsigned long long h = 1469598103934665603ULL;
    int v[] = { L->rd, L->vs, L->title, L->pad, L->rhs, L->tvar, L->ptr.k, L->ptr.w, L->ptr.lower, L->ind.k, L->ind.w, L->ind.lower, L->val.L, L->val.lower, L->val.p, L->val.k, L->val.w, L->val.d,
                L->val.mant, L->val.ex, L->hdr, L->sep, L->order, L->nf, L->eol };
    h = hbytes(h, v, sizeof v); return hbytes(h, clause, strlen(clause));
}
/* site of a crash, precision-neutral: sanitizer:stack-buffer-overflow@dParseIntFormat -> XParseIntFormat */
static const char *crash_site(const char *cd) {
    static char b[4][128]; static int k; char *o = b[k++ & 3];
    const char *a = strchr(cd, '@'); snprintf(o, 128, "%s", a ? a + 1 : cd);
    if (strchr("sdcz", o[0]) && o[0] && (isupper((unsigned char)o[1]) || !strncmp(o + 1, "read", 4) || !strncmp(o + 1, "allocate", 8))) o[0] = 'X';
    return o;
}
/* same failure? (same status and clause; for a crash the same site) */
static int same_failure(const verdict_t *a, const verdict_t *b) {
    return a->status == b->status && !strcmp(a->clause, b->clause) && (a->status != ST_DEATH || !strcmp(crash_site(a->cd), crash_site(b->cd)));
}
static void layout_from_attrs(const layout_t *L, unsigned set, layout_t *P) { base_layout(L->rd, P); for (int at = 0; at < A_N; at++) if (set >> at & 1) attr_apply(P, L, at); }
static void attribute(const layout_t *L, const smat_t *M, const verdict_t *V0, char *cls, size_t cl) {
    layout_t B; base_layout(L->rd, &B);
    unsigned nonbase = 0; int cnt = 0;
    for (int at = 0; at < A_N; at++) if (attr_differs(L, &B, at)) { nonbase |= 1u << at; cnt++; }
    if (cnt <= 1) { layout_class(L, nonbase, cls, cl); return; }
    char ck[200]; snprintf(ck, sizeof ck, "%d:%s:%s", V0->status, V0->clause, V0->status == ST_DEATH ? crash_site(V0->cd) : "");
    unsigned long long key = layout_key(L, ck);
    for (int i = 0; i < MEMO->n; i++) if (MEMO->e[i].key == key) { snprintf(cls, cl, "%s", MEMO->e[i].cls); return; }
    char *keep = malloc(TXN + 1); size_t keepn = TXN; memcpy(keep, TX, TXN + 1);
    int save_iso = ISOLATE; ISOLATE = 1;
    unsigned resp = 0; layout_t P; verdict_t Vp;
    for (int at = 0; at < A_N; at++) if (nonbase >> at & 1) {
        layout_from_attrs(L, 1u << at, &P); exec_case(&P, M, &Vp); G->probes++;
        if (same_failure(&Vp, V0)) resp |= 1u << at;
    }
    if (resp) layout_class(L, resp, cls, cl);
    else {
        /* an interaction: drop attributes one by one while the failure persists (a 1-minimal set) */
        unsigned S = nonbase;
        for (int at = 0; at < A_N; at++) if (S >> at & 1) {
            layout_from_attrs(L, S & ~(1u << at), &P); exec_case(&P, M, &Vp); G->probes++;
            if (same_failure(&Vp, V0)) S &= ~(1u << at);
        }
        layout_class(L, S, cls, cl);
    }
    ISOLATE = save_iso;
    if (MEMO->n < 1024) { MEMO->e[MEMO->n].key = key; snprintf(MEMO->e[MEMO->n].cls, sizeof MEMO->e[0].cls, "%s", cls); MEMO->n++; }
    tx_reset(); tx_put(keep, keepn); free(keep);
}
static void account(layout_t *L, const smat_t *M, verdict_t *V, const char *cs, long idx) {
    if (V->status == ST_SKIP) { G->skipped++; return; }
    G->runs++; G->judged++;
    note_distinct(hbytes(hmix(V->outhash, (unsigned long long)V->status * 977 + 13), TX, TXN));
    if (V->status == ST_OK) {
        G->clean++;
        if (G->samples_left > 0 && (!M || (F.nnz >= 4 && (idx % 97) == 5))) { G->samples_left--; char tx[1500]; text_excerpt(tx, sizeof tx); out_sample(PROP, "%s -> %d x %d, nnz %d: identical to the file | file:\n%s", cs, E.m, E.n, E.nnz, M ? tx : "(sample file)"); }
        return;
    }
    char cls[128], sig[300];
    if (!M) snprintf(cls, sizeof cls, "sample");
    else if (!strcmp(V->clause, "symmetric-not-expanded") || !strcmp(V->clause, "values:double-rounding")) cls[0] = 0;
    else attribute(L, M, V, cls, sizeof cls);
    if (V->status == ST_HANG) { G->hangs++; snprintf(sig, sizeof sig, "%s:crash:hang:%s:%s", PROP, RDN[L->rd], cls); }
    else if (V->status == ST_DEATH) { G->deaths++; snprintf(sig, sizeof sig, "%s:crash:%s:%s:%s", PROP, crash_site(V->cd), RDN[L->rd], cls); }
    else if (!cls[0]) snprintf(sig, sizeof sig, "%s:%s:%s", PROP, RDN[L->rd], V->clause);
    else snprintf(sig, sizeof sig, "%s:%s:%s:%s", PROP, RDN[L->rd], V->clause, cls);
    record_violation(sig, cs, V->detail);
}

static void run_case(long idx) {
    layout_t L = LAY[idx / NMAT]; const smat_t *M = &MATS[idx % NMAT]; verdict_t V; char cs[400];
    if (L.maxdim && (M->m > L.maxdim || M->n > L.maxdim)) { G->restricted++; return; }
    case_str(&L, M, cs, sizeof cs);
    if (vf_sh) snprintf((char *)vf_sh->note, sizeof vf_sh->note, "%s", cs);
    cpu_guard(CASE_CPU_S);
    ISOLATE = (G->isolate_idx == idx) || L.pad == PAD_T;     /* trimmed files misparse wildly: always in a child of their own */
    exec_case(&L, M, &V);
    ISOLATE = 0; cpu_guard(0);
    account(&L, M, &V, cs, idx);
}
/* the sweep child died while running case idx: run that case again, isolated, so that the death becomes a verdict that
 * can be attributed.  If it dies again outside the isolated reader call, that is the harness's fault. */
static long on_death(long idx, int kind, int code) {
    if (G->isolate_idx != idx) { G->isolate_idx = idx; return idx; }
    char cd[128], cs[400], detail[300], sig[200]; vf_crash_desc(kind, code, cd, sizeof cd);
    layout_t L = LAY[idx / NMAT]; smat_t M = MATS[idx % NMAT]; case_str(&L, &M, cs, sizeof cs); tx_reset();
    G->harness_deaths++; G->runs++; G->judged++;
    snprintf(sig, sizeof sig, "%s:crash:harness:%s", PROP, RDN[L.rd]);
    snprintf(detail, sizeof detail, "the sweep process died (%s) outside the isolated reader call", cd);
    record_violation(sig, cs, detail);
    return idx + 1;
}
static int wait_kind(int st, int *code) {
    if (WIFSIGNALED(st)) { *code = WTERMSIG(st); return VF_SIGNAL; }
    *code = WEXITSTATUS(st);
    return *code == 99 ? VF_ASAN : *code == 97 ? VF_TIMEOUT : *code == 98 ? VF_FAULT : VF_EXIT;
}
/* run cases [lo,hi) in forked children; a death is attributed and the sweep goes on behind it */
static void run_range(long lo, long hi, void (*fn)(long)) {
    long next = lo;
    while (next < hi) {
        vf_sh->cur = next; vf_sh->done = 0; vf_sh->where[0] = 0; fflush(NULL);
        pid_t pid = fork();
        if (pid == 0) {
            signal(SIGVTALRM, vt_alarm); vf_install_fault_handlers();
            for (long i = next; i < hi; i++) { vf_sh->cur = i; fn(i); }
            vf_sh->done = 1; fflush(vf_out); _exit(0);      /* not fflush(NULL): it would visit abandoned streams */
        }
        int st = 0, code; waitpid(pid, &st, 0); vf_last_child = pid;
        if (WIFEXITED(st) && WEXITSTATUS(st) == 0 && vf_sh->done) { drop_san_log(pid); break; }
        int kind = wait_kind(st, &code);
        next = on_death(vf_sh->cur, kind, code);
        drop_san_log(pid);
    }
}

/* ---------- replay of one case ---------- */
static layout_t ONE_L; static smat_t ONE_M; static const char *ONE_S;
static void one_fn(long i) {
    (void)i; verdict_t V;
    exec_case(&ONE_L, &ONE_M, &V);
    if (DUMP) { fputs(TX, stderr); fprintf(stderr, "---- %zu bytes; verdict: %s %s\n", TXN, V.status == ST_OK ? "ok" : V.clause, V.detail); }
    account(&ONE_L, &ONE_M, &V, ONE_S, -1);
}
static int replay_one(const char *s) {
    char path[256], as[16]; int rd = RD_HB;
    if (getkv(s, "sample", path, sizeof path)) {
        if (getkv(s, "as", as, sizeof as)) for (int i = 0; i < 3; i++) if (!strcmp(as, RDN[i])) rd = i;
        char msg[300]; int rc = run_sample(path, rd, msg, sizeof msg);
        if (rc) fprintf(stderr, "sample: %s\n", msg);
        return G->viol ? 1 : rc == 2 ? 3 : 0;
    }
    if (parse_case(s, &ONE_L, &ONE_M)) { fprintf(stderr, "bad case string\n"); return 2; }
    ONE_S = s; LAY = &ONE_L; NLAY = 1; MATS[0] = ONE_M; NMAT = 1;
    run_range(0, 1, one_fn);
    return G->viol ? 1 : 0;
}

int main(int argc, char **argv) {
    out_init();
    G = mmap(NULL, sizeof *G, PROT_READ | PROT_WRITE, MAP_SHARED | MAP_ANONYMOUS | MAP_NORESERVE, -1, 0);
    MEMO = mmap(NULL, sizeof *MEMO, PROT_READ | PROT_WRITE, MAP_SHARED | MAP_ANONYMOUS, -1, 0);
    VS = mmap(NULL, sizeof *VS, PROT_READ | PROT_WRITE, MAP_SHARED | MAP_ANONYMOUS, -1, 0);
    vf_sh = mmap(NULL, sizeof *vf_sh, PROT_READ | PROT_WRITE, MAP_SHARED | MAP_ANONYMOUS, -1, 0);
    G->samples_left = 3; G->isolate_idx = -1; TOK_REF_DIFF = &G->ref_diff;
    HANG_TICKS = arg_int(argc, argv, "--hang-ticks", 6);
    PROP = arg_str(argc, argv, "--prop", "C20");
    DUMP = arg_int(argc, argv, "--dump", 0);
    build_titles();
    double t0 = now_s();
    const char *one = arg_str(argc, argv, "--one", NULL);
    const char *io = arg_str(argc, argv, "--io", one ? "fd" : "mem"); IOMODE = !strcmp(io, "fd") ? IO_FD : IO_MEM;
    if (one) { int rc = replay_one(one); out_stats(PROP, "\"runs\":%ld,\"violations\":%ld,\"io\":\"%s\"", G->runs, G->viol, io); return rc; }
    const char *rdn = arg_str(argc, argv, "--reader", "hb"); int rd = -1; for (int i = 0; i < 3; i++) if (!strcmp(rdn, RDN[i])) rd = i;
    if (rd < 0) { fprintf(stderr, "--reader hb|rb|mt\n"); return 2; }
    const char *grid = arg_str(argc, argv, "--grid", "quick"); int full = !strcmp(grid, "full");
    int islice = 0, nslice = 1; sscanf(arg_str(argc, argv, "--slice", "0/1"), "%d/%d", &islice, &nslice); if (nslice < 1) nslice = 1;
    double deadline = atof(arg_str(argc, argv, "--deadline", "1e9"));
    int selfcheck = arg_int(argc, argv, "--selfcheck", 1);
    build_mats(arg_int(argc, argv, "--maxdim", 3));
    if (rd == RD_MT) gen_mt(full); else gen_hbrb(rd, full);
    /* start-up self-check of the writer against the sample files (slice 0 only unless --selfcheck 2) */
    char sc[900] = "skipped"; int sc_bad = 0;
    if (rd != RD_MT && (selfcheck == 2 || (selfcheck == 1 && islice == 0))) {
        static const char *SAMPLES[] = { "g10", "g5.rua", "big.rua", "cg20.cua", "cmat" };
        const char *repo = getenv("VERIF_REPO") ? getenv("VERIF_REPO") : "/repo"; size_t o = 0; sc[0] = 0;
        for (int i = 0; i < 5; i++) {
            char path[400], msg[300]; snprintf(path, sizeof path, "%s/EXAMPLE/%s", repo, SAMPLES[i]);
            int rc = run_sample(path, rd, msg, sizeof msg);
            if (rc == 2) sc_bad = 1;
            if (rc != -1 || strcmp(msg, "other number type")) o += snprintf(sc + o, sizeof sc - o, "%s%s: %s", o ? "; " : "", SAMPLES[i], msg);
        }
        if (sc_bad) fprintf(stderr, "mcread: WRITER SELF-CHECK FAILED: %s\n", sc);
    }
    long total = (long)NLAY * NMAT, CH = 1024, mine = 0, done = 0; int complete = 1;
    for (long c = 0; c * CH < total; c++) if (c % nslice == islice) mine += (c * CH + CH <= total ? CH : total - c * CH);
    for (long c = 0; c * CH < total; c++) {
        if (c % nslice != islice) continue;
        if (now_s() - t0 > deadline) { complete = 0; break; }
        long lo = c * CH, hi = lo + CH < total ? lo + CH : total;
        run_range(lo, hi, run_case);
        done += hi - lo;
    }
    char fam[300]; size_t fo = 0; for (int i = 0; i < NFAM; i++) fo += snprintf(fam + fo, sizeof fam - fo, "%s\"%s\":%d", i ? "," : "", FAM_NAME[i], FAM_END[i] - (i ? FAM_END[i - 1] : 0));
    static char bs[24000]; size_t bo = 0; bs[0] = 0;
    for (int i = 0; i < G->nsigs && bo + 200 < sizeof bs; i++) { bo += snprintf(bs + bo, sizeof bs - bo, "%s", i ? "," : ""); FILE *m = fmemopen(bs + bo, sizeof bs - bo, "w"); out_str(m, G->sigs[i].sig); fclose(m); bo += strlen(bs + bo); bo += snprintf(bs + bo, sizeof bs - bo, ":%ld", G->sigs[i].count); }
    out_init();
    fprintf(vf_out, "{\"type\":\"stats\",\"property\":\"%s\",\"prec\":\"%c\",\"reader\":\"%s\",\"grid\":\"%s\",\"io\":\"%s\",\"slice\":\"%d/%d\",\"matrices\":%d,\"layouts\":%d,\"families\":{%s},"
            "\"cases\":%ld,\"cases_total\":%ld,\"complete\":%s,\"runs\":%ld,\"judged\":%ld,\"skipped\":%ld,\"skip_rule\":\"symmetric type code on a non-symmetric pattern / number does not fit the field\","
            "\"not_enumerated_for_this_layout\":%ld,\"clean\":%ld,\"violations\":%ld,\"hangs\":%ld,\"deaths\":%ld,\"harness_deaths\":%ld,\"attribution_probes\":%ld,\"distinct_outcomes\":%ld,\"reference_tokens_where_strtold_rounds_differently\":%ld,\"selfcheck\":",
            PROP, PCH, RDN[rd], grid, io, islice, nslice, NMAT, NLAY, fam, done, mine, complete ? "true" : "false", G->runs, G->judged, G->skipped, G->restricted, G->clean, G->viol, G->hangs, G->deaths, G->harness_deaths, G->probes, G->distinct, G->ref_diff);
    out_str(vf_out, sc);
    fprintf(vf_out, ",\"by_sig\":{%s},\"cpu_s\":%.2f,\"wall_s\":%.2f}\n", bs, cpu_total_s(), now_s() - t0); fflush(vf_out);
    return sc_bad ? 3 : 0;
}
#endif
