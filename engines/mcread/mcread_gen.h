/* mcread_gen.h - the enumerated layout space: a union of families, each one a complete product of a few layout
 * dimensions with the remaining dimensions at the base layout.  case index = layout index * NMAT + matrix index. */
#ifndef MCREAD_GEN_H
#define MCREAD_GEN_H

static layout_t *LAY; static int NLAY, LAYCAP;
static int FAM_END[8], NFAM; static const char *FAM_NAME[8];
static void push(const layout_t *L) {
    if (NLAY == LAYCAP) { LAYCAP = LAYCAP ? LAYCAP * 2 : 1024; LAY = realloc(LAY, sizeof(layout_t) * LAYCAP); }
    LAY[NLAY] = *L; layout_fmts(&LAY[NLAY]); NLAY++;
}
static void fam_close(const char *name) { FAM_NAME[NFAM] = name; FAM_END[NFAM++] = NLAY; }
static int kset(int w, int which) { return which == 0 ? 1 : which == 1 ? 2 : 80 / w; }

static void set_val(layout_t *L, char let, int p, int mant, int dcase, int ecase, int w, int k, int tight) {
    rdesc_t *v = &L->val; v->L = let; v->p = p; v->lower = dcase; v->w = w; v->k = k;
    if (let == 'F') { v->mant = 0; v->ex = 0; v->d = w - 9 + tight; }
    else { v->mant = mant; v->d = w - 8 + tight; v->ex = let == 'E' ? (ecase ? 'e' : 'E') : (ecase ? 'd' : 'D'); }
}

static void gen_hbrb(int rd, int full) {
    layout_t B, L; base_layout(rd, &B);
    /* family I: integer descriptors (kIw), w = 2..10, k in {1, 2, max = 80/w}, upper/lower case, repeat count omitted */
    if (full) {
        for (int wp = 2; wp <= 10; wp++) for (int a = 0; a < 3; a++) for (int wi = 2; wi <= 10; wi++) for (int b = 0; b < 3; b++) {
            L = B; L.ptr.w = wp; L.ptr.k = kset(wp, a); L.ind.w = wi; L.ind.k = kset(wi, b); push(&L); }
        for (int w = 2; w <= 10; w++) for (int a = 0; a < 3; a++) { L = B; L.ptr.w = w; L.ptr.k = kset(w, a); L.ptr.lower = 1; L.ind = L.ptr; push(&L); }
        for (int w = 2; w <= 10; w++) { L = B; L.ptr.w = w; L.ptr.k = 0; push(&L); L = B; L.ind.w = w; L.ind.k = 0; push(&L); }
    } else {
        for (int w = 2; w <= 10; w++) for (int a = 0; a < 3; a++) { L = B; L.ptr.w = w; L.ptr.k = kset(w, a); L.ind = L.ptr; push(&L); }
        for (int w = 2; w <= 10; w += 4) { L = B; L.ptr.w = w; L.ptr.k = kset(w, 2); L.ptr.lower = 1; L.ind = L.ptr; push(&L); }
        L = B; L.ptr.k = 0; push(&L); L = B; L.ind.k = 0; push(&L);
    }
    fam_close("int");
    /* family V: real descriptors E/D/F x (no scale factor, data 0.ddd | no scale factor, data d.ddd | 1P, data d.ddd) x descriptor case
     * x exponent-letter case x width 12..25 x k in {1,2,max} x digits (loose: a blank always separates fields | tight: a negative number fills the field) */
    static const int WQ[3] = { 12, 16, 25 };
    int nw = full ? 14 : 3;
    for (int li = 0; li < 3; li++) for (int pm = 0; pm < 3; pm++) for (int dc = 0; dc < 2; dc++) for (int ec = 0; ec < 2; ec++)
        for (int wi = 0; wi < nw; wi++) for (int a = 0; a < 3; a++) for (int tight = 0; tight < 2; tight++) {
            char let = "EDF"[li]; int w = full ? 12 + wi : WQ[wi];
            if (let == 'F' && (pm == 1 || ec)) continue;      /* F has no exponent letter / mantissa style */
            if (!full && a == 1) continue;
            L = B; set_val(&L, let, pm == 2, pm >= 1, dc, ec, w, kset(w, a), tight); push(&L);
        }
    fam_close("real");
    /* family X: other legal spellings: "1P," with a comma, repeat count omitted "(E16.8)", "(1PE16.8)" */
    for (int li = 0; li < 3; li++) for (int dc = 0; dc < 2; dc++) for (int sp = 0; sp < 3; sp++) for (int wi = 0; wi < 3; wi++) for (int a = 0; a < 2; a++) {
        char let = "EDF"[li]; int w = WQ[wi];
        if (!full && (wi != 1 || (dc && li != 1) || (sp == 0 && !a) || (sp == 2 && li))) continue;
        if (sp > 0 && a) continue;
        L = B; set_val(&L, let, sp == 0 ? 2 : sp == 2 ? 1 : 0, sp != 1, dc, dc, w, sp == 0 ? (a ? 80 / w : 1) : 0, 0); push(&L);
    }
    fam_close("spelling");
    /* family L: long decimals (value table 1), only where 16+ digits are printed */
    for (int li = 0; li < 3; li++) for (int pm = 0; pm < 3; pm++) for (int w = 24; w <= 25; w++) for (int a = 0; a < 3; a += 2) for (int tight = 0; tight < 2; tight++) {
        char let = "EDF"[li];
        if (let == 'F' && pm == 1) continue;
        if (!full && (w != 25 || a != 2)) continue;
        L = B; L.vs = 1; set_val(&L, let, pm == 2, pm >= 1, 0, 0, w, kset(w, a), tight); push(&L);
    }
    fam_close("longvals");
    /* family H: header: title x padding x right-hand-side block x type code x three descriptor sets */
    for (int ti = 0; ti < NTITLE_HB; ti++) for (int pad = 0; pad < 2; pad++) for (int rhs = 0; rhs < (rd == RD_HB ? 2 : 1); rhs++) for (int tv = 0; tv < 3; tv++) for (int ds = 0; ds < 3; ds++) {
        if (!full && ds == 2 && tv != 0) continue;
        L = B; L.title = ti; L.pad = pad; L.rhs = rhs; L.tvar = tv;
        if (ds == 1) { L.ptr.k = 8; L.ptr.w = 10; L.ind.k = 40; L.ind.w = 2; set_val(&L, 'D', 1, 1, 0, 0, 25, 3, 0); }
        if (ds == 2) { L.ptr.k = 4; L.ptr.w = 6; L.ptr.lower = 1; L.ind.k = 2; L.ind.w = 7; set_val(&L, 'E', 0, 1, 1, 1, 20, 2, 0); }
        push(&L);
    }
    fam_close("header");
    /* family T: trailing blanks trimmed from every line (what editors and transfer tools do to card images; a Fortran
     * formatted read pads short records with blanks).  Crash-prone, therefore a small product; quick: matrices up to 2 x 2 */
    for (int ti = 0; ti < NTITLE_HB; ti++) for (int rhs = 0; rhs < (rd == RD_HB ? 2 : 1); rhs++) for (int ds = 0; ds < 1; ds++) {
        L = B; L.title = ti; L.pad = PAD_T; L.rhs = rhs; L.maxdim = full ? 0 : 2;
        if (ds == 1) { L.ptr.k = 8; L.ptr.w = 10; L.ind.k = 40; L.ind.w = 2; set_val(&L, 'D', 1, 1, 0, 0, 25, 3, 0); }
        push(&L);
    }
    fam_close("trim");
}
static void gen_mt(int full) {
    layout_t B, L; base_layout(RD_MT, &B);
    for (int ti = 0; ti < NTITLE_MT; ti++) for (int hdr = 0; hdr < 3; hdr++) for (int eol = 0; eol < 3; eol++) { L = B; L.title = ti; L.hdr = hdr; L.eol = eol; push(&L); }
    fam_close("header");
    for (int sep = 0; sep < 5; sep++) for (int ord = 0; ord < 3; ord++) for (int nf = 0; nf < 6; nf++) for (int eol = 0; eol < 3; eol++) {
        if (!full && eol == 2) continue;
        L = B; L.sep = sep; L.order = ord; L.nf = nf; L.eol = eol; push(&L);
    }
    fam_close("body");
    for (int sep = 0; sep < 5; sep++) for (int ord = 0; ord < 3; ord++) { if (!full && ord) continue; L = B; L.sep = sep; L.order = ord; L.nf = 5; L.vs = 1; push(&L); }
    fam_close("longvals");
    if (full) { for (int ti = 1; ti < NTITLE_MT; ti++) for (int sep = 1; sep < 5; sep++) for (int hdr = 0; hdr < 3; hdr++) { L = B; L.title = ti; L.sep = sep; L.hdr = hdr; push(&L); } fam_close("title-x-sep"); }
}
#endif
