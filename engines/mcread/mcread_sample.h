/* mcread_sample.h - start-up self-check on the sample files of /repo/EXAMPLE: an independent parser reads the sample,
 * the writer must reproduce its layout (byte for byte, header lines modulo trailing blanks), and the library reader must
 * read original and re-written file identically.  The sample itself is judged as one more C20 case. */
#ifndef MCREAD_SAMPLE_H
#define MCREAD_SAMPLE_H

static void account(layout_t *L, const smat_t *M, verdict_t *V, const char *cs, long idx);   /* mcread_main.h */

typedef struct { char *buf; size_t len; char **ln; int *ll; int n; } lines_t;
static int load_lines(const char *path, lines_t *T) {
    FILE *f = fopen(path, "rb"); if (!f) return -1;
    fseek(f, 0, SEEK_END); long sz = ftell(f); fseek(f, 0, SEEK_SET);
    T->buf = malloc(sz + 2); T->len = fread(T->buf, 1, sz, f); fclose(f); T->buf[T->len] = 0;
    int cap = 0; T->n = 0; T->ln = NULL; T->ll = NULL;
    for (size_t p = 0; p < T->len;) {
        size_t e = p; while (e < T->len && T->buf[e] != '\n') e++;
        if (T->n == cap) { cap = cap ? cap * 2 : 1024; T->ln = realloc(T->ln, sizeof(char *) * cap); T->ll = realloc(T->ll, sizeof(int) * cap); }
        T->ln[T->n] = T->buf + p; T->ll[T->n] = (int)(e - p); T->n++; p = e + 1;
    }
    return 0;
}
static void field(const lines_t *T, int li, int col0, int w, char *out) {      /* blank padded, as a Fortran read would see it */
    for (int i = 0; i < w; i++) out[i] = (li < T->n && col0 + i < T->ll[li]) ? T->ln[li][col0 + i] : ' ';
    out[w] = 0;
}
static void rtrim(char *s) { int n = (int)strlen(s); while (n > 0 && s[n - 1] == ' ') s[--n] = 0; }
static const char *ltrim(const char *s) { while (*s == ' ') s++; return s; }

/* returns 0 checked, -1 not applicable (file absent / other number type), 2 harness failure (message in msg) */
static int run_sample(const char *path, int rd, char *msg, size_t ml) {
    lines_t T; msg[0] = 0;
    if (load_lines(path, &T) < 0 || T.n < 5) { snprintf(msg, ml, "absent"); return -1; }
    static char title[80], key[16], type[8], l5[100], f1[24], f2[24], f3[28], f4[28], b[64];
    field(&T, 0, 0, 72, title); field(&T, 0, 72, 8, key);
    int crd[5]; for (int i = 0; i < 5; i++) { field(&T, 1, 14 * i, 14, b); crd[i] = atoi(b); }
    field(&T, 2, 0, 3, type);
    if ((toupper((unsigned char)type[0]) == 'C') != IS_COMPLEX) { free(T.buf); free(T.ln); free(T.ll); snprintf(msg, ml, "other number type"); return -1; }
    field(&T, 2, 14, 14, b); int m = atoi(b); field(&T, 2, 28, 14, b); int n = atoi(b); field(&T, 2, 42, 14, b); int nnz = atoi(b);
    field(&T, 3, 0, 16, f1); field(&T, 3, 16, 16, f2); field(&T, 3, 32, 20, f3); field(&T, 3, 52, 20, f4); rtrim(f1); rtrim(f2); rtrim(f3); rtrim(f4);
    layout_t L; base_layout(RD_HB, &L);
    idesc_t ID; rdesc_t R; memset(&R, 0, sizeof R);
    if (parse_fmt(f1, &L.ptr, &R) != 'I' || parse_fmt(f2, &L.ind, &R) != 'I' || parse_fmt(f3, &ID, &L.val) != 'R') { snprintf(msg, ml, "cannot parse the format line of %s", path); return 2; }
    int li = 4; l5[0] = 0;
    if (crd[4] > 0) { field(&T, 4, 0, 80, l5); rtrim(l5); li = 5; }
    w_ensure(n, nnz);
    int cx = IS_COMPLEX ? 2 : 1, kp = L.ptr.k ? L.ptr.k : 1, ki = L.ind.k ? L.ind.k : 1, kv = L.val.k ? L.val.k : 1;
    if (crd[1] != ceil_div(n + 1, kp) || crd[2] != ceil_div(nnz, ki) || crd[3] != ceil_div(nnz * cx, kv)) { snprintf(msg, ml, "%s: card counts do not match its formats", path); return 2; }
    for (int q = 0; q < n + 1; q++) { field(&T, li + q / kp, (q % kp) * L.ptr.w, L.ptr.w, b); W.colptr[q] = atoi(b) - 1; } li += crd[1];
    for (int q = 0; q < nnz; q++) { field(&T, li + q / ki, (q % ki) * L.ind.w, L.ind.w, b); W.rowind[q] = atoi(b) - 1; } li += crd[2];
    for (int q = 0; q < nnz * cx; q++) { field(&T, li + q / kv, (q % kv) * L.val.w, L.val.w, b); rtrim(b); char *dst = (q % cx) ? W.im[q / cx] : W.re[q / cx]; snprintf(dst, sizeof(tok_t), "%s", ltrim(b)); } li += crd[3];
    F.m = m; F.n = n; F.nnz = nnz; F.sym = toupper((unsigned char)type[1]) == 'S';
    /* data style: exponent letter, 0.ddd or d.ddd mantissa */
    L.val.ex = 0; L.val.mant = 0;
    for (int q = 0; q < nnz && L.val.L != 'F'; q++) {
        const char *t = W.re[q]; for (const char *c = t; *c; c++) if (strchr("EeDd", *c)) L.val.ex = *c;
        if (strtold(t, NULL) != 0 || strpbrk(t, "123456789")) { const char *c = t; if (*c == '-' || *c == '+') c++; L.val.mant = (*c != '0'); break; }
    }
    /* formatter check: re-print every token from its value */
    long reprint_diff = 0;
    for (int q = 0; q < nnz * cx; q++) {
        const char *t = (q % cx) ? W.im[q / cx] : W.re[q / cx]; char e[48], o[48]; int k = 0; for (const char *c = t; *c && k < 47; c++) e[k++] = (*c == 'D' || *c == 'd') ? 'E' : *c; e[k] = 0;
        if (fmt_real(o, strtold(e, NULL), &L.val) < 0 || strcmp(o, t)) reprint_diff++;
    }
    L.rtitle = title; L.rkey = key; L.rtype = type; L.rawfmt = 1; L.rhs = crd[4] > 0; L.pad = PAD_F; L.rtot = crd[0];
    strcpy(L.ptrfmt, f1); strcpy(L.indfmt, f2); strcpy(L.valfmt, f3); strcpy(L.rhsfmt, f4);
    if (crd[4] > 0) { L.rl5 = l5; L.rtail = li < T.n ? T.ln[li] : ""; L.rtail_len = li < T.n ? (size_t)(T.buf + T.len - T.ln[li]) : 0; }
    smat_t M0; memset(&M0, 0, sizeof M0);
    int save_io = IOMODE; IOMODE = IO_FD;
    char cs[300]; snprintf(cs, sizeof cs, "sample=%s as=%s", path, RDN[rd]);
    int rc = 0; verdict_t V1, V2;
    if (rd == RD_HB) {
        /* 1. the writer reproduces the file */
        write_hbrb(&L);
        size_t p = 0; int lno = 0, diff = 0;
        for (; lno < T.n && !diff; lno++) {
            size_t e = p; while (e < TXN && TX[e] != '\n') e++;
            int la = (int)(e - p), lb = T.ll[lno];
            if (lno < li - crd[1] - crd[2] - crd[3]) { while (la > 0 && TX[p + la - 1] == ' ') la--; while (lb > 0 && T.ln[lno][lb - 1] == ' ') lb--; }
            if (la != lb || memcmp(TX + p, T.ln[lno], la)) diff = lno + 1;
            p = e + 1;
        }
        if (diff || p < TXN) { snprintf(msg, ml, "writer does not reproduce %s (first difference at line %d)", path, diff); rc = 2; }
        if (reprint_diff) { snprintf(msg, ml, "%ld value tokens of %s are not reproduced by the number formatter", reprint_diff, path); rc = 2; }
        char *mine = malloc(TXN + 1); size_t minelen = TXN; memcpy(mine, TX, TXN + 1);
        /* 2. the library on the original: one more C20 case */
        build_expected();
        tx_reset(); tx_put(T.buf, T.len); run_text(RD_HB, &V1);
        /* 3. the library on the re-written file */
        tx_reset(); tx_put(mine, minelen); run_text(RD_HB, &V2); free(mine);
        if (!rc && (V1.status != V2.status || V1.outhash != V2.outhash || strcmp(V1.clause, V2.clause))) { snprintf(msg, ml, "%s: reader result differs between the original and the re-written file (%s / %s)", path, V1.clause, V2.clause); rc = 2; }
        tx_reset(); tx_put(T.buf, T.len);
        account(&L, NULL, &V1, cs, -1);
    } else if (rd == RD_RB) {
        /* the same matrix through the Rutherford-Boeing writer (no right-hand sides in that format) */
        L.rd = RD_RB; L.rl5 = NULL; L.rtail = NULL; L.rtail_len = 0; L.rhs = 0;
        write_hbrb(&L); build_expected(); run_text(RD_RB, &V1);
        account(&L, NULL, &V1, cs, -1);
    }
    if (!msg[0]) snprintf(msg, ml, "ok");
    IOMODE = save_io;
    free(T.buf); free(T.ln); free(T.ll);
    return rc;
}
#endif
