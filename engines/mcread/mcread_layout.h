/* mcread_layout.h - layouts (everything a writer may choose), the matrix table, the value tables, the three writers,
 * the case string and the coarse layout class used in signatures.  Independent of the library. */
#ifndef MCREAD_LAYOUT_H
#define MCREAD_LAYOUT_H

typedef struct {
    int rd;
    int vs;                       /* value table: 0 short decimals, 1 long (17 digit) decimals */
    /* hb / rb */
    int maxdim;                   /* 0, or: the layout is enumerated only over matrices with m,n <= maxdim */
    int rtot;                     /* 0, or TOTCRD to print instead of the computed one (sample files with a wrong count) */
    int title, pad, rhs, tvar;    /* tvar: bit0 symmetric type code (lower triangle stored), bit1 lower-case type code */
    idesc_t ptr, ind; rdesc_t val;
    /* mt */
    int hdr, sep, order, nf, eol;
    /* raw overrides (sample files) */
    const char *rtitle, *rkey, *rtype, *rl5, *rtail; size_t rtail_len;
    char ptrfmt[24], indfmt[24], valfmt[28], rhsfmt[28]; int rawfmt;
} layout_t;

/* ---------- matrices: all m x n 0/1 patterns with at least one entry, m,n <= 3 (empty columns/rows included), plus 7 full card-count matrices ---------- */
typedef struct { int m, n; unsigned bits; int symok; } smat_t;
static smat_t MATS[800]; static int NMAT;
static int mbit(const smat_t *M, int i, int j) { return (M->bits >> (i * M->n + j)) & 1; }
static void build_mats(int maxdim) {
    NMAT = 0;
    for (int m = 1; m <= maxdim; m++) for (int n = 1; n <= maxdim; n++) for (unsigned b = 1; b < (1u << (m * n)); b++) {
        smat_t *M = &MATS[NMAT++]; M->m = m; M->n = n; M->bits = b; M->symok = (m == n);
        if (m == n) for (int i = 0; i < m; i++) for (int j = 0; j < n; j++) if (mbit(M, i, j) != mbit(M, j, i)) M->symok = 0;
    }
    /* card-count matrices (added after seeded change C20/2 was missed): full patterns with 10, 12, 20 and 30 entries, so that the header's
       card counts PTRCRD/INDCRD/VALCRD take the values 1..30 (with one or two numbers per line: 10, 12, 15, 20, 30 lines) */
    if (maxdim >= 3) { static const int XM[7][2] = { { 5, 2 }, { 2, 5 }, { 4, 3 }, { 3, 4 }, { 5, 4 }, { 4, 5 }, { 5, 6 } };
        for (int k = 0; k < 7; k++) { smat_t *M = &MATS[NMAT++]; M->m = XM[k][0]; M->n = XM[k][1]; M->bits = (unsigned)((1ull << (M->m * M->n)) - 1); M->symok = 0; } }
}
/* value seeds.  vs 0: short decimals with signs and exponents; vs 1: 16-18 digit decimals, among them decimals that sit
 * just beside the midpoint of two adjacent floats (a reader that rounds decimal -> double -> float gets those wrong) */
static const long double VT0[9] = { 1.0L, -2.5L, 0.125L, 3e5L, -7.25e-3L, 42.0L, -0.5L, 9.75L, -1.5e-4L };
static const long double VT1[9] = { 1.00000005960464478L, 0.1L, -0.9999999701976776L, 1234.5678901234567L, 0.333333333333333333L,
                                    3.0000001192092896L, -6.02214076e-3L, 2.718281828459045L, -299792.458L };
static long double seed_value(int vs, int i, int j, int part) {
    int k = (i * 3 + j + (part ? 4 : 0)) % 9;
    return vs ? VT1[k] : VT0[k];
}

/* ---------- titles ---------- */
#define NTITLE_HB 6
static char TITLE_HB[NTITLE_HB][73], KEY_HB[NTITLE_HB][9];
static const char *TITLE_HB_NAME[NTITLE_HB] = { "", "title80", "titledigits", "titleblank", "title72", "titleparen" };
#define NTITLE_MT 5
static char TITLE_MT[NTITLE_MT][64];
static const char *TITLE_MT_NAME[NTITLE_MT] = { "", "title60", "titleblank", "titledigits", "titlespaces" };
static void build_titles(void) {
    strcpy(TITLE_HB[0], "C20 verification matrix"); strcpy(KEY_HB[0], "VF000001");
    for (int i = 0; i < 72; i++) TITLE_HB[1][i] = (char)('A' + i % 26); TITLE_HB[1][72] = 0; strcpy(KEY_HB[1], "KEY45678");      /* 80 non-blank columns */
    strcpy(TITLE_HB[2], "matrix no. 00712345678901234567890 9 8 7 6 5 4 3 2 1 0 12 13 14 15 16"); strcpy(KEY_HB[2], "00000042");  /* digits in columns 12.. (15-16 included) */
    TITLE_HB[3][0] = 0; KEY_HB[3][0] = 0;                                                                                         /* blank line */
    for (int i = 0; i < 72; i++) TITLE_HB[4][i] = (char)('a' + (i * 7) % 26); TITLE_HB[4][72] = 0; KEY_HB[4][0] = 0;              /* 72 non-blank columns, blank key */
    strcpy(TITLE_HB[5], "(20I4) (1P,3D25.17) format-like title ((( ))) . . E D F I (2"); strcpy(KEY_HB[5], "(8I10)");
    strcpy(TITLE_MT[0], "C20 verification matrix");
    for (int i = 0; i < 60; i++) TITLE_MT[1][i] = (char)('A' + i % 26); TITLE_MT[1][60] = 0;                                      /* exactly the documented 60 characters */
    TITLE_MT[2][0] = 0;
    strcpy(TITLE_MT[3], "3 3 9 1 1 1.0 12345 -7");
    strcpy(TITLE_MT[4], "   spaced  title   ");
}

/* ---------- fill F / W from (matrix, layout): returns NULL or the rule by which the case is outside the hypothesis ---------- */
static const char *mt_number(char *out, long double v, int nf) {
    switch (nf) {
    case 0: snprintf(out, 40, "%.6Lg", v); break;
    case 1: snprintf(out, 40, "%.8LE", v); break;
    case 2: snprintf(out, 40, "%.8Le", v); break;
    case 3: snprintf(out, 40, "%.10Lf", v); break;
    case 4: snprintf(out, 40, "%+.6Le", v); break;
    default: snprintf(out, 40, "%.17Lg", v); break;
    }
    return out;
}
static const char *build_fmat(const layout_t *L, const smat_t *M) {
    int sym = (L->rd != RD_MT) && (L->tvar & 1);
    if (sym && !M->symok) return "symmetric type code needs a square matrix with symmetric pattern";
    w_ensure(M->n, M->m * M->n);
    F.m = M->m; F.n = M->n; F.sym = sym; int nz = 0;
    for (int j = 0; j < M->n; j++) {
        W.colptr[j] = nz;
        int rows[8], nr = 0;
        for (int i = 0; i < M->m; i++) if (mbit(M, i, j) && (!sym || i >= j)) rows[nr++] = i;
        if (L->rd == RD_MT && L->order == 1) for (int a = 0, b = nr - 1; a < b; a++, b--) { int t = rows[a]; rows[a] = rows[b]; rows[b] = t; }
        if (L->rd == RD_MT && L->order == 2 && nr > 1) { int t = rows[0]; for (int a = 0; a + 1 < nr; a++) rows[a] = rows[a + 1]; rows[nr - 1] = t; }
        for (int q = 0; q < nr; q++) {
            int i = rows[q]; W.rowind[nz] = i;
            long double re = seed_value(L->vs, i, j, 0), im = seed_value(L->vs, i, j, 1);
            if (L->rd == RD_MT) { mt_number(W.re[nz], re, L->nf); mt_number(W.im[nz], im, L->nf); }
            else if (fmt_real(W.re[nz], re, &L->val) < 0 || fmt_real(W.im[nz], im, &L->val) < 0) return "value does not fit the field width";
            nz++;
        }
    }
    W.colptr[M->n] = nz; F.nnz = nz;
    return NULL;
}

/* ---------- writers ---------- */
static void type_code(const layout_t *L, char *t) {
    if (L->rtype) { snprintf(t, 4, "%-3.3s", L->rtype); return; }
    t[0] = IS_COMPLEX ? 'C' : 'R'; t[1] = (L->tvar & 1) ? 'S' : (F.m == F.n ? 'U' : 'R'); t[2] = 'A'; t[3] = 0;
    if (L->tvar & 2) for (int i = 0; i < 3; i++) t[i] = (char)tolower(t[i]);
}
static void layout_fmts(layout_t *L) {       /* the format fields that go into header line 4 */
    if (L->rawfmt) return;
    idesc_str(&L->ptr, L->ptrfmt); idesc_str(&L->ind, L->indfmt); rdesc_str(&L->val, L->valfmt);
    if (L->rhs) strcpy(L->rhsfmt, L->valfmt); else L->rhsfmt[0] = 0;
}
/* Harwell-Boeing (rd = RD_HB) or Rutherford-Boeing (RD_RB).  returns -1 if some field does not fit */
static int write_hbrb(const layout_t *L) {
    char b[160], t[8]; int cx = IS_COMPLEX ? 2 : 1;
    int kp = L->ptr.k ? L->ptr.k : 1, ki = L->ind.k ? L->ind.k : 1, kv = L->val.k ? L->val.k : 1;
    int ptrcrd = ceil_div(F.n + 1, kp), indcrd = ceil_div(F.nnz, ki), valcrd = ceil_div(F.nnz * cx, kv);
    int nrhs = 1, rhscrd = (L->rd == RD_HB && L->rhs && !L->rtail) ? ceil_div(nrhs * F.m * cx, kv) : 0;
    if (L->rtail) { rhscrd = 0; for (size_t i = 0; i < L->rtail_len; i++) if (L->rtail[i] == '\n') rhscrd++; }
    const char *title = L->rtitle ? L->rtitle : TITLE_HB[L->title], *key = L->rkey ? L->rkey : KEY_HB[L->title];
    tx_reset();
    snprintf(b, sizeof b, "%-72.72s%-8.8s", title, key); tx_header(b, 80, L->pad);
    type_code(L, t);
    if (L->rd == RD_HB) {
        snprintf(b, sizeof b, "%14d%14d%14d%14d%14d", L->rtot ? L->rtot : ptrcrd + indcrd + valcrd + rhscrd, ptrcrd, indcrd, valcrd, rhscrd); tx_header(b, 70, L->pad);
        snprintf(b, sizeof b, "%-3.3s%11s%14d%14d%14d%14d", t, "", F.m, F.n, F.nnz, 0); tx_header(b, 70, L->pad);
        snprintf(b, sizeof b, "%-16.16s%-16.16s%-20.20s%-20.20s", L->ptrfmt, L->indfmt, L->valfmt, L->rhsfmt); tx_header(b, 72, L->pad);
        if (L->rl5) tx_header(L->rl5, 42, L->pad);
        else if (L->rhs) { snprintf(b, sizeof b, "%-3.3s%11s%14d%14d", "F", "", nrhs, 0); tx_header(b, 42, L->pad); }
    } else {
        snprintf(b, sizeof b, "%14d %13d %13d %13d", ptrcrd + indcrd + valcrd, ptrcrd, indcrd, valcrd); tx_header(b, 56, L->pad);
        snprintf(b, sizeof b, "%-3.3s%11s %13d %13d %13d %13d", t, "", F.m, F.n, F.nnz, 0); tx_header(b, 70, L->pad);
        snprintf(b, sizeof b, "%-16.16s%-16.16s%-20.20s", L->ptrfmt, L->indfmt, L->valfmt); tx_header(b, 52, L->pad);
    }
    int bad = 0;
    tf_begin(kp, L->ptr.w); for (int j = 0; j <= F.n; j++) { snprintf(b, 32, "%d", W.colptr[j] + 1); bad |= tf_put(b); } tf_end();
    tf_begin(ki, L->ind.w); for (int k = 0; k < F.nnz; k++) { snprintf(b, 32, "%d", W.rowind[k] + 1); bad |= tf_put(b); } tf_end();
    tf_begin(kv, L->val.w); for (int k = 0; k < F.nnz; k++) { bad |= tf_put(W.re[k]); if (IS_COMPLEX) bad |= tf_put(W.im[k]); } tf_end();
    if (L->rtail) tx_put(L->rtail, L->rtail_len);
    else if (rhscrd) {
        tf_begin(kv, L->val.w);
        for (int i = 0; i < nrhs * F.m * cx; i++) { char tk[40]; if (fmt_real(tk, 1.5L * (i + 1), &L->val) < 0) bad = -1; else bad |= tf_put(tk); }
        tf_end();
    }
    return bad ? -1 : 0;
}
/* the ?readmt format: title / nrow ncol nonz / per column: count, then (1-based row index, value) pairs */
static void write_mt(const layout_t *L) {
    char b[200]; tx_reset();
    tx_put(TITLE_MT[L->title], strlen(TITLE_MT[L->title])); tx_put("\n", 1);
    if (L->hdr == 0) snprintf(b, sizeof b, "%d %d %d\n", F.m, F.n, F.nnz);
    else if (L->hdr == 1) snprintf(b, sizeof b, "%d\n%d\n%d\n", F.m, F.n, F.nnz);
    else snprintf(b, sizeof b, "%8d%8d%8d\n", F.m, F.n, F.nnz);
    tx_put(b, strlen(b));
    for (int j = 0; j < F.n; j++) {
        int cnt = W.colptr[j + 1] - W.colptr[j];
        if (L->sep == 4) snprintf(b, sizeof b, "%d", cnt); else if (L->sep == 2) snprintf(b, sizeof b, "%6d\n", cnt); else snprintf(b, sizeof b, "%d\n", cnt);
        tx_put(b, strlen(b));
        for (int k = W.colptr[j]; k < W.colptr[j + 1]; k++) {
            int r = W.rowind[k] + 1;
            switch (L->sep) {
            case 0: if (IS_COMPLEX) snprintf(b, sizeof b, "%d %s %s\n", r, W.re[k], W.im[k]); else snprintf(b, sizeof b, "%d %s\n", r, W.re[k]); break;
            case 1: if (IS_COMPLEX) snprintf(b, sizeof b, "%d\t%s\t%s\n", r, W.re[k], W.im[k]); else snprintf(b, sizeof b, "%d\t%s\n", r, W.re[k]); break;
            case 2: if (IS_COMPLEX) snprintf(b, sizeof b, "%6d%28s%28s\n", r, W.re[k], W.im[k]); else snprintf(b, sizeof b, "%6d%28s\n", r, W.re[k]); break;
            case 3: if (IS_COMPLEX) snprintf(b, sizeof b, "%d\n%s\n%s\n", r, W.re[k], W.im[k]); else snprintf(b, sizeof b, "%d\n%s\n", r, W.re[k]); break;
            default: if (IS_COMPLEX) snprintf(b, sizeof b, " %d %s %s", r, W.re[k], W.im[k]); else snprintf(b, sizeof b, " %d %s", r, W.re[k]); break;
            }
            tx_put(b, strlen(b));
        }
        if (L->sep == 4) tx_put("\n", 1);
    }
    if (L->eol == 1 && TXN && TX[TXN - 1] == '\n') TX[--TXN] = 0;
    if (L->eol == 2) tx_put("\n", 1);
}

/* ---------- base layouts, attributes, coarse class ---------- */
static void base_layout(int rd, layout_t *L) {
    memset(L, 0, sizeof *L); L->rd = rd;
    L->ptr.k = 16; L->ptr.w = 5; L->ind = L->ptr;
    L->val.L = 'E'; L->val.k = 5; L->val.w = 16; L->val.d = 8; L->val.ex = 'E';
}
enum { A_TITLE, A_PAD, A_RHS, A_TYPE, A_PTR, A_IND, A_VLET, A_VP, A_VK, A_VCASE, A_VEX, A_VMANT, A_VW, A_VS, A_HDR, A_SEP, A_ORDER, A_NF, A_EOL, A_N };
static int idesc_eq(const idesc_t *a, const idesc_t *b) { return a->k == b->k && a->w == b->w && a->lower == b->lower; }
static int attr_differs(const layout_t *a, const layout_t *b, int at) {
    int mt = a->rd == RD_MT;
    switch (at) {
    case A_TITLE: return a->title != b->title;
    case A_VS: return a->vs != b->vs;
    case A_PAD: return !mt && a->pad != b->pad;
    case A_RHS: return !mt && a->rhs != b->rhs;
    case A_TYPE: return !mt && a->tvar != b->tvar;
    case A_PTR: return !mt && !idesc_eq(&a->ptr, &b->ptr);
    case A_IND: return !mt && !idesc_eq(&a->ind, &b->ind);
    case A_VLET: return !mt && a->val.L != b->val.L;
    case A_VP: return !mt && a->val.p != b->val.p;
    case A_VK: return !mt && a->val.k != b->val.k;
    case A_VCASE: return !mt && a->val.lower != b->val.lower;
    case A_VEX: return !mt && a->val.ex != b->val.ex && a->val.L != 'F';
    case A_VMANT: return !mt && a->val.mant != b->val.mant;
    case A_VW: return !mt && (a->val.w != b->val.w || a->val.d != b->val.d);
    case A_HDR: return mt && a->hdr != b->hdr;
    case A_SEP: return mt && a->sep != b->sep;
    case A_ORDER: return mt && a->order != b->order;
    case A_NF: return mt && a->nf != b->nf;
    case A_EOL: return mt && a->eol != b->eol;
    }
    return 0;
}
static void attr_apply(layout_t *d, const layout_t *s, int at) {
    switch (at) {
    case A_TITLE: d->title = s->title; break; case A_VS: d->vs = s->vs; break; case A_PAD: d->pad = s->pad; break; case A_RHS: d->rhs = s->rhs; break;
    case A_TYPE: d->tvar = s->tvar; break; case A_PTR: d->ptr = s->ptr; break; case A_IND: d->ind = s->ind; break;
    case A_VLET: d->val.L = s->val.L; if (s->val.L == 'F') { d->val.ex = 0; d->val.mant = 0; } break;
    case A_VP: d->val.p = s->val.p; break; case A_VK: d->val.k = s->val.k; break; case A_VCASE: d->val.lower = s->val.lower; break;
    case A_VEX: d->val.ex = s->val.ex; break; case A_VMANT: d->val.mant = s->val.mant; break; case A_VW: d->val.w = s->val.w; d->val.d = s->val.d; break;
    case A_HDR: d->hdr = s->hdr; break; case A_SEP: d->sep = s->sep; break; case A_ORDER: d->order = s->order; break; case A_NF: d->nf = s->nf; break; case A_EOL: d->eol = s->eol; break;
    }
}
static void idesc_name(const char *which, const idesc_t *d, char *o) {
    if (!d->k) sprintf(o, "%s=norepeat", which); else if (d->lower) sprintf(o, "%s=lower", which); else if (d->w != 5) sprintf(o, "%s=w%d", which, d->w); else sprintf(o, "%s=k%d", which, d->k);
}
static void attr_name(const layout_t *L, int at, char *o) {
    static const char *PADN[3] = { "", "pad80", "trim" }, *TV[4] = { "", "sym", "lctype", "sym+lctype" }, *PN[3] = { "", "1P", "1P," };
    static const char *HDRN[3] = { "", "hdr=lines", "hdr=fixed" }, *SEPN[5] = { "", "sep=tab", "sep=fixed", "sep=lines", "sep=oneline" }, *ORDN[3] = { "", "order=desc", "order=rot" };
    static const char *NFN[6] = { "", "num=E", "num=e", "num=F", "num=plus", "num=17g" }, *EOLN[3] = { "", "eol=none", "eol=blank" };
    switch (at) {
    case A_TITLE: strcpy(o, L->rd == RD_MT ? TITLE_MT_NAME[L->title] : TITLE_HB_NAME[L->title]); break;
    case A_VS: strcpy(o, "vals=long"); break; case A_PAD: strcpy(o, PADN[L->pad]); break; case A_RHS: strcpy(o, "rhs"); break; case A_TYPE: strcpy(o, TV[L->tvar & 3]); break;
    case A_PTR: idesc_name("ptr", &L->ptr, o); break; case A_IND: idesc_name("ind", &L->ind, o); break;
    case A_VLET: sprintf(o, "desc=%c", L->val.L); break; case A_VP: strcpy(o, PN[L->val.p]); break;
    case A_VK: if (L->val.k) sprintf(o, "val=k%d", L->val.k); else strcpy(o, "val=norepeat"); break;
    case A_VCASE: strcpy(o, "desc=lower"); break; case A_VEX: sprintf(o, "exp=%c", L->val.ex ? L->val.ex : '-'); break; case A_VMANT: strcpy(o, "mant=d.ddd"); break;
    case A_VW: sprintf(o, "w=%d.%d", L->val.w, L->val.d); break;
    case A_HDR: strcpy(o, HDRN[L->hdr]); break; case A_SEP: strcpy(o, SEPN[L->sep]); break; case A_ORDER: strcpy(o, ORDN[L->order]); break; case A_NF: strcpy(o, NFN[L->nf]); break; case A_EOL: strcpy(o, EOLN[L->eol]); break;
    default: o[0] = 0;
    }
}
/* class built from the attributes in mask (bit per attribute) that differ from the base layout */
static void layout_class(const layout_t *L, unsigned mask, char *o, size_t ol) {
    layout_t B; base_layout(L->rd, &B); size_t n = 0; o[0] = 0;
    for (int at = 0; at < A_N; at++) if ((mask >> at & 1) && attr_differs(L, &B, at)) {
        char nm[48]; attr_name(L, at, nm);
        n += snprintf(o + n, n < ol ? ol - n : 0, "%s%s", n ? "+" : "", nm); if (n >= ol) break;
    }
    if (!o[0]) snprintf(o, ol, "base");
}

/* ---------- case string ---------- */
static void case_str(const layout_t *L, const smat_t *M, char *b, size_t bl) {
    int o = snprintf(b, bl, "rd=%s m=%d n=%d pat=", RDN[L->rd], M->m, M->n);
    for (int i = 0; i < M->m; i++) for (int j = 0; j < M->n; j++) b[o++] = mbit(M, i, j) ? '1' : '0';
    if (L->rd == RD_MT) snprintf(b + o, bl - o, " vs=%d title=%d hdr=%d sep=%d order=%d nf=%d eol=%d", L->vs, L->title, L->hdr, L->sep, L->order, L->nf, L->eol);
    else {
        char p[24], i2[24], v[28]; idesc_str(&L->ptr, p); idesc_str(&L->ind, i2); rdesc_str(&L->val, v);
        snprintf(b + o, bl - o, " vs=%d title=%d pad=%c rhs=%d tvar=%d ptr=%s ind=%s val=%s mant=%d ex=%c", L->vs, L->title, "f8t"[L->pad], L->rhs, L->tvar, p, i2, v, L->val.mant, L->val.ex ? L->val.ex : '-');
    }
}
static int getkv(const char *s, const char *key, char *out, size_t ol) {
    size_t kl = strlen(key); const char *p = s;
    while ((p = strstr(p, key))) {
        if ((p == s || p[-1] == ' ') && p[kl] == '=') { p += kl + 1; size_t n = 0; while (*p && *p != ' ' && n + 1 < ol) out[n++] = *p++; out[n] = 0; return 1; }
        p += kl;
    }
    return 0;
}
static int parse_case(const char *s, layout_t *L, smat_t *M) {
    char v[256]; int rd = -1;
    if (!getkv(s, "rd", v, sizeof v)) return -1;
    for (int i = 0; i < 3; i++) if (!strcmp(v, RDN[i])) rd = i;
    if (rd < 0) return -1;
    base_layout(rd, L);
    if (!getkv(s, "m", v, sizeof v)) return -1; M->m = atoi(v);
    if (!getkv(s, "n", v, sizeof v)) return -1; M->n = atoi(v);
    if (M->m < 1 || M->n < 1 || M->m > 6 || M->n > 6 || M->m * M->n > 32 || !getkv(s, "pat", v, sizeof v) || (int)strlen(v) != M->m * M->n) return -1;
    M->bits = 0; for (int i = 0; i < M->m * M->n; i++) if (v[i] == '1') M->bits |= 1u << i;
    M->symok = M->m == M->n; if (M->symok) for (int i = 0; i < M->m; i++) for (int j = 0; j < M->n; j++) if (mbit(M, i, j) != mbit(M, j, i)) M->symok = 0;
#define KVI(key, field) if (getkv(s, key, v, sizeof v)) L->field = atoi(v)
    KVI("vs", vs); KVI("title", title); KVI("rhs", rhs); KVI("tvar", tvar); KVI("hdr", hdr); KVI("sep", sep); KVI("order", order); KVI("nf", nf); KVI("eol", eol); KVI("mant", val.mant);
    if (getkv(s, "pad", v, sizeof v)) L->pad = v[0] == '8' ? PAD_80 : v[0] == 't' ? PAD_T : PAD_F;
    idesc_t ID; rdesc_t R = L->val;
    if (getkv(s, "ptr", v, sizeof v)) { if (parse_fmt(v, &ID, &R) != 'I') return -1; L->ptr = ID; }
    if (getkv(s, "ind", v, sizeof v)) { if (parse_fmt(v, &ID, &R) != 'I') return -1; L->ind = ID; }
    if (getkv(s, "val", v, sizeof v)) { R = L->val; if (parse_fmt(v, &ID, &R) != 'R') return -1; R.mant = L->val.mant; R.ex = L->val.ex; L->val = R; }
    if (getkv(s, "ex", v, sizeof v)) L->val.ex = v[0] == '-' ? 0 : v[0];
    if (L->val.L == 'F') L->val.ex = 0;
    if (L->title < 0 || L->title >= (rd == RD_MT ? NTITLE_MT : NTITLE_HB)) return -1;
    return 0;
}
#endif
