/* The protocol model of the factorization's scheduling layer, shared by
 *   - mcproto  (explicit-state breadth-first search over ALL its behaviours), and
 *   - mcsched  (conformance: every execution of the REAL workers explored by Engine S is replayed on the model,
 *               event by event, and the model's shared state must equal the real structures after every step).
 *
 * Only the worker SKELETON is hand-written here (poll -> schedule -> relaxed: release | regular: mark busy, wait up the busy
 * chain exactly as p?gstrf_panel_bmod.c does, then per column: supernode membership, release -> DONE -> poll ... exit).
 * The scheduler itself, ParallelInit, pxgstrf_relax_snode and pxgstrf_mark_busy_descends are the REAL compiled functions of
 * /repo, called on a shadow copy of the shared structures.
 */
#ifndef PROTO_MODEL_H
#define PROTO_MODEL_H

#define PM_NMAX 10
#define PM_PMAX 3
enum { PH_CHECK, PH_SCHED, PH_RELAX_SUPER, PH_RELAX_REL, PH_MARK, PH_WAIT, PH_COLSUPER, PH_COLREL, PH_DONE, PH_EXIT };
typedef struct { signed char ph, jcol, bcol, kcol, ksup, inner, ci, krep, fsupc, pad; unsigned short marked, consumed; } pm_wk_t;
typedef struct {
    signed char state[PM_NMAX + 1], ukids[PM_NMAX + 1], fb[PM_NMAX + 1], spin[PM_NMAX], q[PM_NMAX]; signed char head, tail, count, tasks;
    signed char supno[PM_NMAX];      /* supernode id = its first column; -1 = not yet entered */
    signed char xsend[PM_NMAX];      /* for a supernode id f: published end (last column + 1) */
    signed char taken[PM_NMAX], released[PM_NMAX], done[PM_NMAX];
    pm_wk_t w[PM_PMAX];
} pm_state_t;

typedef struct {
    int n, P, W, RLX; int_t etree[PM_NMAX + 1];
    pxgstrf_shared_t sh; GlobalLU_t glu; Gstat_t gstat; superlumt_options_t opt;
    int_t xsupA[PM_NMAX + 1], xsup_endA[PM_NMAX + 1], supnoA[PM_NMAX + 1], lbusy[PM_NMAX + 1], panel_histo[64];
    int size_of[PM_NMAX + 1], type_of[PM_NMAX + 1];
    long viol[16]; char first_msg[16][160];
} pm_ctx_t;

static int pm_in_shadow_call;       /* hooks / mutexes must be inert while the real functions run on the shadow structures */

static void pm_fail(pm_ctx_t *c, int k, const char *msg) { if (!c->viol[k]++) snprintf(c->first_msg[k], sizeof c->first_msg[k], "%s", msg); }
static int pm_is_desc(const pm_ctx_t *c, int a, int j) { while (a < j) a = (int)c->etree[a]; return a == j; }
static int pm_lead(const pm_ctx_t *c, int col) { return c->size_of[col] > 0 ? col : col + c->size_of[col]; }
static int pm_unfin(const pm_ctx_t *c, const pm_state_t *s, int L) { for (int k = L; k < L + c->size_of[L]; k++) if (!s->released[k]) return 1; return 0; }

static void pm_load(pm_ctx_t *c, const pm_state_t *s) {
    int n = c->n;
    for (int i = 0; i <= n; i++) { c->sh.pan_status[i].state = s->state[i]; c->sh.pan_status[i].ukids = s->ukids[i]; c->sh.fb_cols[i] = s->fb[i]; }
    for (int i = 0; i < n; i++) { ((int_t *)c->sh.spin_locks)[i] = s->spin[i]; c->sh.taskq.queue[i] = s->q[i]; }
    c->sh.taskq.head = s->head; c->sh.taskq.tail = s->tail; c->sh.taskq.count = s->count; c->sh.tasks_remain = s->tasks;
    /* supernode maps as the real code sees them: numbers = leader columns */
    for (int i = 0; i <= n; i++) { c->xsupA[i] = i; c->xsup_endA[i] = i + 1; }
    for (int i = 0; i < n; i++) { c->supnoA[i] = s->supno[i] >= 0 ? s->supno[i] : 0x7f7f7f7f; if (s->supno[i] == i) c->xsup_endA[i] = s->xsend[i]; }
}
static void pm_store(pm_ctx_t *c, pm_state_t *s) {
    int n = c->n;
    for (int i = 0; i <= n; i++) { s->state[i] = (signed char)c->sh.pan_status[i].state; s->ukids[i] = (signed char)c->sh.pan_status[i].ukids; s->fb[i] = (signed char)c->sh.fb_cols[i]; }
    for (int i = 0; i < n; i++) { s->spin[i] = (signed char)c->sh.spin_locks[i]; s->q[i] = (signed char)c->sh.taskq.queue[i]; }
    s->head = (signed char)c->sh.taskq.head; s->tail = (signed char)c->sh.taskq.tail; s->count = (signed char)c->sh.taskq.count; s->tasks = (signed char)c->sh.tasks_remain;
}
/* build the shadow structures for one configuration with the REAL initialisation code; returns the initial state */
static void pm_init(pm_ctx_t *c, int n, int P, int W, int RLX, const int *parent, pm_state_t *s0) {
    memset(c, 0, sizeof *c); c->n = n; c->P = P; c->W = W; c->RLX = RLX;
    for (int i = 0; i < n; i++) c->etree[i] = parent[i]; c->etree[n] = n;
    c->opt.etree = c->etree; c->opt.panel_size = W; c->opt.relax = RLX; c->opt.nprocs = P;
    c->gstat.panel_histo = c->panel_histo; c->sh.Gstat = &c->gstat; c->sh.Glu = &c->glu; c->glu.xsup = c->xsupA; c->glu.xsup_end = c->xsup_endA; c->glu.supno = c->supnoA;
    pm_in_shadow_call = 1;
    pxgstrf_relax_t *rel = malloc((n + 2) * sizeof *rel); pxgstrf_relax_snode(n, &c->opt, rel); ParallelInit(n, rel, &c->opt, &c->sh); free(rel);
    pm_in_shadow_call = 0;
    for (int i = 0; i <= n; i++) { c->size_of[i] = (int)c->sh.pan_status[i].size; c->type_of[i] = (int)c->sh.pan_status[i].type; }
    memset(s0, 0, sizeof *s0); pm_store(c, s0);
    for (int i = 0; i < n; i++) { s0->supno[i] = -1; s0->xsend[i] = 0; }
    for (int i = 0; i < P; i++) { s0->w[i].ph = PH_CHECK; s0->w[i].jcol = EMPTY; s0->w[i].bcol = -1; s0->w[i].kcol = -1; s0->w[i].krep = -1; s0->w[i].ksup = -1; s0->w[i].fsupc = -1; }
}
static void pm_free(pm_ctx_t *c) { free(c->sh.lu_locks); free((void *)c->sh.spin_locks); free(c->sh.pan_status); free(c->sh.fb_cols); free(c->sh.taskq.queue); }

/* I1: evaluated when the scheduler returns a regular panel */
static void pm_check_sched_result(pm_ctx_t *c, const pm_state_t *s, int jcol, int bcol) {
    if (c->type_of[jcol] == RELAXED_SNODE) return;
    int n = c->n, w = c->size_of[jcol], last = jcol + w - 1, nbusy = 0, deepest = -1; int dads[PM_NMAX + 1] = { 0 };
    for (int k = 0; k < jcol; k++) {
        if (!pm_is_desc(c, k, last) || pm_lead(c, k) != k) continue;
        if (!s->taken[k]) { pm_fail(c, 1, "descendant panel not even taken"); return; }
        if (!pm_unfin(c, s, k)) continue;
        nbusy++; if (deepest < 0 || k < deepest) deepest = k;
        int d = (int)c->etree[k + c->size_of[k] - 1]; d = d < n ? pm_lead(c, d) : n;
        if (++dads[d] > 1) { pm_fail(c, 1, "two unfinished child panels under one parent panel"); return; }
        if (d != jcol && d < n && !pm_unfin(c, s, d)) { pm_fail(c, 1, "unfinished panel below a finished one"); return; }
    }
    if (nbusy && bcol > deepest) pm_fail(c, 1, "bcol is above the deepest unfinished panel");
}

/* --- the worker skeleton, one atomic step each -------------------------------------------------------------------------- */
/* poll: reads tasks_remain */
static void pm_step_check(pm_state_t *s, int wi) { pm_wk_t *w = &s->w[wi]; w->ph = s->tasks > 0 ? PH_SCHED : PH_EXIT; }
/* scheduler call (critical section) on the shadow structures; returns the panel or EMPTY */
static int pm_step_sched(pm_ctx_t *c, pm_state_t *s, int wi, int *bcol_out) {
    pm_wk_t *w = &s->w[wi]; int n = c->n;
    pm_load(c, s); int_t cur = w->jcol, b = -9;
    pm_in_shadow_call = 1; pxgstrf_scheduler(wi, n, c->etree, &cur, &b, &c->sh); pm_in_shadow_call = 0;
    pm_store(c, s);
    if (s->head < 0 || s->tail > n || s->head > s->tail || s->count != s->tail - s->head) pm_fail(c, 5, "queue bounds");
    if (cur == EMPTY) { w->jcol = EMPTY; w->ph = PH_CHECK; if (bcol_out) *bcol_out = -1; return EMPTY; }
    if (cur < 0 || cur >= n || c->size_of[cur] <= 0) { pm_fail(c, 4, "scheduler returned something that is not a panel"); w->ph = PH_EXIT; return (int)cur; }
    if (s->taken[cur]) pm_fail(c, 4, "panel returned twice"); s->taken[cur] = 1; w->jcol = (signed char)cur; w->bcol = (signed char)b;
    int untaken = 0; for (int k = 0; k < n; k++) if (pm_lead(c, k) == k && !s->taken[k]) untaken++;
    if (untaken != s->tasks) pm_fail(c, 4, "tasks_remain != untaken panels");
    pm_check_sched_result(c, s, (int)cur, (int)b);
    w->ph = c->type_of[cur] == RELAXED_SNODE ? PH_RELAX_SUPER : PH_MARK;
    if (bcol_out) *bcol_out = (int)b;
    return (int)cur;
}
/* relaxed supernode: snode_dfs enters all its columns into one new supernode */
static void pm_step_relax_super(pm_ctx_t *c, pm_state_t *s, int wi) { pm_wk_t *w = &s->w[wi]; int j = w->jcol, ww = c->size_of[j]; for (int k = j; k < j + ww; k++) s->supno[k] = (signed char)j; s->xsend[j] = (signed char)(j + ww); w->ph = PH_RELAX_REL; }
static void pm_step_relax_release(pm_ctx_t *c, pm_state_t *s, int wi) { pm_wk_t *w = &s->w[wi]; int j = w->jcol, ww = c->size_of[j]; for (int k = j; k < j + ww; k++) { s->spin[k] = 0; s->released[k] = 1; } w->ph = PH_DONE; }
/* regular panel: the real mark_busy_descends on the shadow structures (I2) */
static int pm_step_mark(pm_ctx_t *c, pm_state_t *s, int wi) {
    pm_wk_t *w = &s->w[wi]; int cur = w->jcol;
    if (w->bcol < cur && c->type_of[w->bcol] != RELAXED_SNODE && (w->bcol == 0 || s->supno[w->bcol - 1] < 0)) { pm_fail(c, 2, "mark_busy_descends reads the supernode of a column that has not been entered yet (uninitialised supno)"); w->ph = PH_EXIT; return w->bcol; }
    pm_load(c, s); for (int i = 0; i <= c->n; i++) c->lbusy[i] = -1; int_t bb = w->bcol;
    pm_in_shadow_call = 1; pxgstrf_mark_busy_descends(wi, cur, c->etree, &c->sh, &bb, c->lbusy); pm_in_shadow_call = 0;
    int last = cur + c->size_of[cur] - 1;
    for (int k = 0; k < cur; k++) if (pm_is_desc(c, k, last) && !s->released[k] && c->lbusy[k] != cur) pm_fail(c, 2, "unreleased descendant not marked busy");
    w->marked = 0; w->consumed = 0; for (int k = 0; k < cur; k++) if (c->lbusy[k] == cur) w->marked |= (unsigned short)(1u << k);
    w->bcol = (signed char)bb; w->kcol = (signed char)bb; w->inner = 0; w->krep = -1; w->ci = 0;
    w->ph = (bb < cur) ? PH_WAIT : PH_COLSUPER;
    return (int)bb;
}
/* wait loop of p?gstrf_panel_bmod.c lines "kcol = bcol; while (kcol < jcol) {...}": one step = the flag of w->kcol has been seen 0.
   returns 1 if a supernode was consumed in this step (then *cf..*cr is its column range) */
static int pm_step_wait(pm_ctx_t *c, pm_state_t *s, int wi, int *cf, int *cr) {
    pm_wk_t *w = &s->w[wi]; int j = w->jcol, k = w->kcol, consume = 0;
    if (!s->released[k]) pm_fail(c, 3, "flag clear but column not released");
    if (!w->inner) { w->ksup = s->supno[k]; w->fsupc = (signed char)k; }
    else if (s->supno[k] != w->ksup) consume = 1;                       /* left the supernode: krep is the one read before */
    if (!consume) {
        if (w->ksup < 0) { pm_fail(c, 3, "released column without supernode"); w->ph = PH_EXIT; return 0; }
        w->krep = (signed char)(s->xsend[w->ksup] - 1);                 /* SUPER_REP( ksupno ) as published NOW */
        int nk = (int)c->etree[k];
        if (nk >= j) consume = 1; else { w->kcol = (signed char)nk; w->inner = 1; return 0; }
    }
    for (int q = w->fsupc; q <= w->krep; q++) { if (q < j && !s->released[q]) pm_fail(c, 3, "consumed unreleased column");
        /* I2c (added after seeded change C03-4): what the wait loop consumes must have been marked busy at the start of the panel; an unmarked column is taken for a
           finished descendant by the depth-first search, and its supernode's update is then applied in both stages */
        if (q < j && !(w->marked & (1u << q))) pm_fail(c, 2, "column consumed in the pipeline stage although it was not marked busy: its update is applied twice (I2c)"); if (w->consumed & (1u << q)) pm_fail(c, 3, "column consumed twice"); w->consumed |= (unsigned short)(1u << q); }
    if (cf) *cf = w->fsupc; if (cr) *cr = w->krep;
    int nk = (int)c->etree[w->krep]; w->inner = 0;
    if (nk >= j) { if (w->marked & ~w->consumed) pm_fail(c, 2, "column marked busy but never waited for/consumed (I2b)"); w->ph = PH_COLSUPER; w->ci = 0; }
    else w->kcol = (signed char)nk;
    return 1;
}
/* own column: supernode membership (join the supernode of column c-1, or start a new one) */
static int pm_can_join(const pm_ctx_t *c, const pm_state_t *s, int col) { return col > 0 && c->etree[col - 1] == col && s->supno[col - 1] >= 0; }
static void pm_step_colsuper(pm_ctx_t *c, pm_state_t *s, int wi, int join) {
    pm_wk_t *w = &s->w[wi]; int j = w->jcol, col = j + w->ci;
    if (w->ci == 0) { int last = j + c->size_of[j] - 1; for (int d = 0; d < j; d++) if (pm_is_desc(c, d, last) && !s->released[d]) pm_fail(c, 2, "own column started with unreleased descendant"); }
    int id = join ? s->supno[col - 1] : col;
    s->supno[col] = (signed char)id; s->xsend[id] = (signed char)(col + 1);
    w->ph = PH_COLREL;
}
static void pm_step_colrelease(pm_ctx_t *c, pm_state_t *s, int wi) {
    pm_wk_t *w = &s->w[wi]; int j = w->jcol, col = j + w->ci;
    s->spin[col] = 0; s->released[col] = 1; w->ci++;
    w->ph = (w->ci == c->size_of[j]) ? PH_DONE : PH_COLSUPER;
}
static void pm_step_done(pm_state_t *s, int wi) { pm_wk_t *w = &s->w[wi]; s->state[w->jcol] = DONE; s->done[w->jcol] = 1; w->ph = PH_CHECK; }
#endif
