/* Engine P: explicit-state breadth-first search of the scheduling protocol.  The transition function calls the REAL compiled
 * pxgstrf_relax_snode / ParallelInit / pxgstrf_scheduler / pxgstrf_mark_busy_descends of /repo (library variant p) on a shadow
 * copy of the shared structures; only the worker skeleton (proto_model.h) is hand-written, and that skeleton is bound to the
 * implementation by Engine S, which replays every explored execution of the real workers on it (mcsched, conformance).
 *
 *   mcproto --prop C03 --n 6 --P 2 --w 1 --relax 1 [--slice i/k over the forests]
 *   mcproto --prop C03 --one "n=4 P=2 w=1 rlx=1 etree=1334"
 *
 * Enumerated: all postordered elimination forests with n columns (Catalan(n) of them) for the given (panel size, relaxation, P);
 * per configuration ALL reachable states.  Invariants I1-I7 (+I2b) are evaluated in every state / on every transition.
 */
#include "../common/common.h"
#include "proto_model.h"

/* inert synchronisation / hooks for the real functions */
int vf_mutex_init(void *m, void *a) { (void)m; (void)a; return 0; } int vf_mutex_destroy(void *m) { (void)m; return 0; }
int vf_mutex_lock(void *m) { (void)m; return 0; } int vf_mutex_unlock(void *m) { (void)m; return 0; }
int vf_thread_create() { return 0; } int vf_thread_join() { return 0; }
void slu_mt_verif_ev(int k, long a, long b, long c) { (void)k; (void)a; (void)b; (void)c; }

static const char *PROP = "C03";
static pm_ctx_t C; static int N_, P_, W_, RLX_;
static pm_state_t *tab, *queue_; static unsigned char *used; static long cap, nstates, ntrans, qh, qt;
typedef struct { long tot_states, tot_trans, nforests, finals_total, max_states_cfg; long tviol[16]; char tmsg[16][200]; char tcfg[16][120]; char curcfg[120]; int is_complete; long resume_after; } pshared_t;
static pshared_t *PS;
#define tot_states PS->tot_states
#define tot_trans PS->tot_trans
#define nforests PS->nforests
#define finals_total PS->finals_total
#define max_states_cfg PS->max_states_cfg
#define tviol PS->tviol
#define tmsg PS->tmsg
#define tcfg PS->tcfg

static unsigned long hsh(const pm_state_t *s) { const unsigned char *p = (const void *)s; unsigned long h = 1469598103934665603UL; for (size_t i = 0; i < sizeof *s; i++) { h ^= p[i]; h *= 1099511628211UL; } return h; }
static int wcmp(const void *a, const void *b) { return memcmp(a, b, sizeof(pm_wk_t)); }
/* canonical form: workers are symmetric (pnum only indexes statistics) -> sort the worker records */
static int insert(pm_state_t *s) {
    qsort(s->w, P_, sizeof(pm_wk_t), wcmp);
    unsigned long h = hsh(s) % cap; while (used[h]) { if (!memcmp(&tab[h], s, sizeof *s)) return 0; h = (h + 1) % cap; }
    if (nstates + 1 >= cap / 2) { fflush(NULL); _exit(4); }      /* capacity of the state table reached: the configuration is reported as not exhausted (never as a violation) */
    used[h] = 1; tab[h] = *s; nstates++; queue_[qt++] = *s; return 1;
}
/* I6 (termination): a rank that every transition except the fruitless poll (SCHED -> CHECK on EMPTY) strictly increases;
   hence the transition graph minus poll self-loops is acyclic and weak fairness gives termination */
static long rank_of(const pm_state_t *s) {
    long N = N_, WMAX = 4 * N * N + 2 * N + 8, BIG = WMAX + 2 * N + 8, r = 0;
    for (int i = 0; i < N_; i++) r += s->taken[i] + s->released[i] + (s->supno[i] >= 0) + s->done[i] * BIG;
    for (int i = 0; i < P_; i++) { const pm_wk_t *w = &s->w[i]; long v = 0;
        switch (w->ph) { case PH_CHECK: v = 0; break; case PH_SCHED: v = 1; break; case PH_RELAX_SUPER: case PH_MARK: v = 2; break; case PH_RELAX_REL: v = 3; break;
            case PH_WAIT: v = 3 + __builtin_popcount(w->consumed) * 4 * N + 2 * w->kcol + w->inner; break;
            case PH_COLSUPER: v = WMAX + 2 * w->ci; break; case PH_COLREL: v = WMAX + 2 * w->ci + 1; break; case PH_DONE: v = WMAX + 2 * N + 2; break; case PH_EXIT: v = BIG - 1; break; }
        r += v; }
    return r;
}
static void expand(const pm_state_t *s0) {
    for (int wi = 0; wi < P_; wi++) {
        if (wi > 0 && !memcmp(&s0->w[wi], &s0->w[wi - 1], sizeof(pm_wk_t))) continue;      /* symmetric workers */
        pm_state_t s = *s0; pm_wk_t *w = &s.w[wi]; int stutter = 0;
        switch (w->ph) {
        case PH_EXIT: continue;
        case PH_CHECK: pm_step_check(&s, wi); break;
        case PH_SCHED: { int b; int r = pm_step_sched(&C, &s, wi, &b); if (r == EMPTY) stutter = 1; break; }
        case PH_RELAX_SUPER: pm_step_relax_super(&C, &s, wi); break;
        case PH_RELAX_REL: pm_step_relax_release(&C, &s, wi); break;
        case PH_MARK: pm_step_mark(&C, &s, wi); break;
        case PH_WAIT: if (s.spin[w->kcol]) continue; pm_step_wait(&C, &s, wi, NULL, NULL); break;       /* blocked while the flag is set */
        case PH_COLSUPER: {
            int col = w->jcol + w->ci, cj = pm_can_join(&C, &s, col);
            for (int join = 0; join <= cj; join++) { pm_state_t t = s; pm_step_colsuper(&C, &t, wi, join); ntrans++; if (rank_of(&t) <= rank_of(s0)) pm_fail(&C, 6, "progress transition does not increase the rank"); insert(&t); }
            continue; }
        case PH_COLREL: pm_step_colrelease(&C, &s, wi); break;
        case PH_DONE: pm_step_done(&s, wi); break;
        }
        ntrans++;
        /* I6: every non-stuttering transition strictly increases the rank (poll -> EMPTY -> poll is the only stutter) */
        if (!stutter && rank_of(&s) <= rank_of(s0)) pm_fail(&C, 6, "progress transition does not increase the rank");
        insert(&s);
    }
}
static void run_config(const int *parent) {
    { int o = snprintf(PS->curcfg, sizeof PS->curcfg, "n=%d P=%d w=%d rlx=%d etree=", N_, P_, W_, RLX_); for (int i = 0; i < N_; i++) o += snprintf(PS->curcfg + o, sizeof PS->curcfg - o, "%c", parent[i] < 10 ? '0' + parent[i] : 'a' + parent[i] - 10); }
    pm_state_t s0; pm_init(&C, N_, P_, W_, RLX_, parent, &s0);
    memset(used, 0, cap); nstates = 0; qh = qt = 0; long t0 = ntrans; insert(&s0);
    while (qh < qt) {
        pm_state_t cur = queue_[qh++]; long before = ntrans;
        int allexit = 1; for (int i = 0; i < P_; i++) if (cur.w[i].ph != PH_EXIT) allexit = 0;
        if (allexit) { finals_total++;
            for (int k = 0; k < N_; k++) { if (!cur.released[k]) pm_fail(&C, 7, "final state with unreleased column"); if (pm_lead(&C, k) == k && !cur.done[k]) pm_fail(&C, 7, "final state with panel not DONE"); if (cur.spin[k]) pm_fail(&C, 7, "final state with a flag still set"); }
            if (cur.tasks != 0) pm_fail(&C, 7, "final state with tasks_remain != 0");
            continue; }
        /* I4 in every state: tasks_remain == untaken panels */
        { int untaken = 0; for (int k = 0; k < N_; k++) if (pm_lead(&C, k) == k && !cur.taken[k]) untaken++; if (untaken != cur.tasks) pm_fail(&C, 4, "tasks_remain != untaken panels (state invariant)"); }
        expand(&cur);
        if (ntrans == before) pm_fail(&C, 6, "deadlock: no enabled transition in a non-final state");
        else {
            /* lost wake-up: tasks remain, nobody holds a panel, and a poll of the queue comes back EMPTY -> only fruitless polls are left forever */
            int working = 0, poller = -1;
            for (int wi = 0; wi < P_; wi++) { int ph = cur.w[wi].ph; if (ph == PH_EXIT) continue; if ((ph != PH_CHECK && ph != PH_SCHED) || cur.w[wi].jcol != EMPTY) working = 1; else poller = wi; }
            if (!working && cur.tasks > 0 && poller >= 0) { pm_state_t t = cur; t.w[poller].ph = PH_SCHED; int bb; long sv4 = C.viol[4], sv1 = C.viol[1], sv5 = C.viol[5]; if (pm_step_sched(&C, &t, poller, &bb) == EMPTY) pm_fail(&C, 6, "lost wake-up: tasks remain, no worker holds a panel, and the scheduler has nothing to hand out"); C.viol[4] = sv4; C.viol[1] = sv1; C.viol[5] = sv5; }
        }
    }
    (void)t0;
    for (int k = 1; k < 8; k++) if (C.viol[k]) { if (!tviol[k]) { snprintf(tmsg[k], sizeof tmsg[k], "%s", C.first_msg[k]); int o = snprintf(tcfg[k], sizeof tcfg[k], "n=%d P=%d w=%d rlx=%d etree=", N_, P_, W_, RLX_); for (int i = 0; i < N_; i++) o += snprintf(tcfg[k] + o, sizeof tcfg[k] - o, "%c", parent[i] < 10 ? '0' + parent[i] : 'a' + parent[i] - 10); } tviol[k] += C.viol[k]; }
    tot_states += nstates; tot_trans += ntrans; ntrans = 0; if (nstates > max_states_cfg) max_states_cfg = nstates;
    pm_free(&C);
}
/* all postordered forests: parent[j] in (j, n], every subtree a contiguous range ending at its root */
static int par[PM_NMAX + 1]; static long fidx; static int isl, nsl; static double T0, DEADLINE;
#define complete PS->is_complete
static void gen(int k) {
    if (k == N_) {
        int size[PM_NMAX + 1], first[PM_NMAX + 1]; for (int j = 0; j <= N_; j++) { size[j] = 1; first[j] = j; }
        for (int j = 0; j < N_; j++) { int p = par[j]; size[p] += size[j]; if (first[j] < first[p]) first[p] = first[j]; }
        for (int j = 0; j < N_; j++) if (first[j] != j - size[j] + 1) return;
        long my = fidx++; if (my % nsl != isl) return;
        if (my <= PS->resume_after) return;        /* resume behind a configuration that crashed the search */
        if (now_s() - T0 > DEADLINE) { complete = 0; return; }
        PS->resume_after = my - 1; nforests++; run_config(par); PS->resume_after = my; return; }
    for (int p = k + 1; p <= N_; p++) { par[k] = p; gen(k + 1); }
}
int main(int argc, char **argv) {
    out_init();
    PS = mmap(NULL, sizeof *PS, PROT_READ | PROT_WRITE, MAP_SHARED | MAP_ANONYMOUS, -1, 0); PS->is_complete = 1; PS->resume_after = -1;
    vf_sh = mmap(NULL, sizeof *vf_sh, PROT_READ | PROT_WRITE, MAP_SHARED | MAP_ANONYMOUS, -1, 0);
    PROP = arg_str(argc, argv, "--prop", "C03");
    N_ = arg_int(argc, argv, "--n", 5); P_ = arg_int(argc, argv, "--P", 2); W_ = arg_int(argc, argv, "--w", 1); RLX_ = arg_int(argc, argv, "--relax", 1);
    sscanf(arg_str(argc, argv, "--slice", "0/1"), "%d/%d", &isl, &nsl); DEADLINE = atof(arg_str(argc, argv, "--deadline", "1e9")); T0 = now_s();
    const char *one = arg_str(argc, argv, "--one", NULL);
    if (one) { const char *p; if ((p = strstr(one, "n="))) N_ = atoi(p + 2); if ((p = strstr(one, " P="))) P_ = atoi(p + 3); if ((p = strstr(one, " w="))) W_ = atoi(p + 3); if ((p = strstr(one, "rlx="))) RLX_ = atoi(p + 4); }
    if (N_ > PM_NMAX || P_ > PM_PMAX) { fprintf(stderr, "bounds\n"); return 2; }
    cap = 1L << arg_int(argc, argv, "--log2cap", 23); tab = malloc(cap * sizeof *tab); used = malloc(cap); queue_ = malloc((cap / 2 + 8) * sizeof *queue_);
    long crashes = 0, capacity_hits = 0;
    for (;;) {      /* the search runs in a child: a crash of the real scheduler code on the shadow structures is a finding, not the end of the run */
        fflush(NULL); vf_sh->where[0] = 0;
        pid_t pid = fork();
        if (pid == 0) { vf_install_fault_handlers();
            if (one) { const char *p = strstr(one, "etree="); if (!p) _exit(2); p += 6; for (int i = 0; i < N_; i++) par[i] = (p[i] >= '0' && p[i] <= '9') ? p[i] - '0' : 10 + p[i] - 'a'; par[N_] = N_; nforests = 1; run_config(par); }
            else { par[N_] = N_; fidx = 0; gen(0); }
            fflush(NULL); _exit(0); }
        int st = 0; waitpid(pid, &st, 0); vf_last_child = pid;
        if (WIFEXITED(st) && WEXITSTATUS(st) == 0) break;
        if (WIFEXITED(st) && WEXITSTATUS(st) == 4) { complete = 0; capacity_hits++; PS->resume_after += 1; if (one || capacity_hits > 500) break; continue; }
        crashes++;
        { char cd[160]; int kind = WIFSIGNALED(st) ? VF_SIGNAL : WEXITSTATUS(st) == 98 ? VF_FAULT : WEXITSTATUS(st) == 99 ? VF_ASAN : VF_EXIT; vf_crash_desc(kind, WIFSIGNALED(st) ? WTERMSIG(st) : WEXITSTATUS(st), cd, sizeof cd);
          const char *site = strchr(cd, '@'); char sig[160]; snprintf(sig, sizeof sig, "%s:protocol:crash:%s", PROP, site ? site : cd);
          if (crashes <= 3) out_violation(PROP, sig, PS->curcfg, "the real scheduler code crashed (%s) on a reachable protocol state of this configuration", cd); }
        PS->resume_after += 1;      /* skip the configuration that crashed */
        if (one || crashes > 200) { complete = 0; break; }
    }
    long nv = crashes;
    for (int k = 1; k < 8; k++) if (tviol[k]) { nv += tviol[k]; char sig[64]; static const char *nm[8] = { "", "I1:handout", "I2:busy-marking", "I3:consume", "I4:exactly-once", "I5:queue", "I6:progress", "I7:final" };
        /* I1-I3 belong to C03, I4-I7 to C04 */
        const char *owner = k <= 3 ? "C03" : "C04"; snprintf(sig, sizeof sig, "%s:protocol:%s", owner, nm[k]);
        if (!strcmp(owner, PROP)) out_violation(PROP, sig, tcfg[k], "%s (%ld states/transitions violate it; first configuration given)", tmsg[k], tviol[k]); }
    if (nforests) out_sample(PROP, "forests with n=%d columns, P=%d, panel size %d, relax %d: e.g. parent vector of the last one explored: %d%d%d...; %ld reachable states in the largest configuration", N_, P_, W_, RLX_, par[0], N_ > 1 ? par[1] : 0, N_ > 2 ? par[2] : 0, max_states_cfg);
    out_stats(PROP, "\"engine\":\"mcproto\",\"n\":%d,\"P\":%d,\"w\":%d,\"relax\":%d,\"slice\":\"%d/%d\",\"forests\":%ld,\"states\":%ld,\"transitions\":%ld,\"final_states\":%ld,\"distinct_states\":%ld,\"runs\":%ld,\"violations\":%ld,\"state_table_full\":%ld,\"complete\":%s,\"wall_s\":%.2f",
              N_, P_, W_, RLX_, isl, nsl, nforests, tot_states, tot_trans, finals_total, tot_states, nforests, nv, capacity_hits, complete ? "true" : "false", now_s() - T0);
    return one ? (nv ? 1 : 0) : 0;
}
