/* Engine "mcargs": bounded-exhaustive enumeration of ILLEGAL calls (property C15).
 *
 *   C15  Illegal arguments yield info = -i for the first offender and no side effects.
 *
 * For every routine (p?gssv, p?gssvx, ?gstrs, ?gsrfs, ?gscon, ?gsequ, sp_?trsv, sp_?gemv) and every baseline
 * (one LEGAL call on a 4x4 nonsingular matrix; its legality is checked at start-up) the engine applies every
 * single documented-precondition violation and every ordered pair of two different violations, calls the routine
 * and judges
 *   oracle 1  info == -i (i = DOCUMENTED position of the first offender) and xerbla_ called exactly once with the
 *             same i and the routine's name,
 *   oracle 2  every byte reachable from the arguments is unchanged,
 *   oracle 3  no tracked allocation is retained.
 *
 * usage: mcargs --prop C15 --routine gssv|gssvx|gstrs|gsrfs|gscon|gsequ|trsv|gemv|all --pairs 0|1
 *               [--slice i/k] [--deadline s] [--timeout s]
 *        mcargs --prop C15 --one "rt=gstrs base=notrans v=L-nonsquare:0+B-lda:0"
 */
#include "../common/common.h"

static const char *PROP = "C15";

/* ------------------------------------------------------------------ shared counters */
#define MAXSIG 512
typedef struct { char sig[120]; long count; } sigcnt_t;
typedef struct {
    long runs, judged, skipped, viol, viol_cases, deaths, distinct, undetected, detected_ok, opt_perm_written;
    long baselines, baselines_ok;
    int samples_left; int nsig; sigcnt_t sigs[MAXSIG];
    unsigned long long dh[1 << 18];
} shared_counters_t;
static shared_counters_t *G;

static void note_distinct(unsigned long long h) {
    unsigned long long z = h; z ^= z >> 33; z *= 0xff51afd7ed558ccdULL; z ^= z >> 33; z *= 0xc4ceb9fe1a85ec53ULL; z ^= z >> 33;
    unsigned k = (unsigned)z & 0x3ffff;
    for (int t = 0; t < 64; t++) { unsigned s = (k + t) & 0x3ffff; if (G->dh[s] == h) return; if (!G->dh[s]) { G->dh[s] = h; G->distinct++; return; } }
}
static unsigned long long hmix(unsigned long long h, unsigned long long v) { h ^= v + 0x9E3779B97F4A7C15ULL + (h << 6) + (h >> 2); return h; }

/* count a violation; print at most 5 per signature per process */
static int sig_note(const char *sig) {
    for (int i = 0; i < G->nsig; i++) if (!strcmp(G->sigs[i].sig, sig)) return (int)++G->sigs[i].count;
    if (G->nsig < MAXSIG) { snprintf(G->sigs[G->nsig].sig, sizeof G->sigs[0].sig, "%s", sig); G->sigs[G->nsig].count = 1; G->nsig++; return 1; }
    return 1;
}
static void viol(const char *sig, const char *cs, const char *fmt, ...) {
    char buf[1500]; va_list ap; va_start(ap, fmt); vsnprintf(buf, sizeof buf, fmt, ap); va_end(ap);
    G->viol++;
    if (sig_note(sig) <= 5) out_violation(PROP, sig, cs, "%s", buf);
}

/* ------------------------------------------------------------------ routines, baselines */
enum { RT_GSSV, RT_GSSVX, RT_GSTRS, RT_GSRFS, RT_GSCON, RT_GSEQU, RT_TRSV, RT_GEMV, NRT };
static const char *RT_NAME[NRT] = { "gssv", "gssvx", "gstrs", "gsrfs", "gscon", "gsequ", "trsv", "gemv" };
static const int RT_NBASE[NRT] = { 2, 4, 3, 4, 2, 1, 4, 2 };
/* baselines with ZERO right-hand sides (B and X are n x 0; added after seeded change C15/3 was missed): a legal call that the routines answer by a quick
   return, around which every argument violation must still be reported */
static int base_nrhs(int rt, int base) { return (rt == RT_GSTRS && base == 2) || (rt == RT_GSRFS && base == 3) ? 0 : 2; }       /* 2 = WNRHS */
static const char *BASE_NAME[NRT][4] = {
    { "nc", "nr" },
    { "dofact-nc", "dofact-nr", "equil-nc-trans", "factored-nc" },
    { "notrans", "trans", "notrans-nrhs0" },
    { "notrans", "trans", "notrans-both", "notrans-nrhs0" },
    { "one", "inf" },
    { "nc" },
    { "LNU", "UNN", "LTU", "UTN" },
    { "N", "T" },
};
static const int RT_HAS_INFO[NRT] = { 1, 1, 1, 1, 1, 1, 1, 0 };
/* name the routine must hand to the error handler */
static void rt_xname(int rt, char *b, size_t bl) {
    switch (rt) {
    case RT_GSSV: snprintf(b, bl, "p%cgssv", PCH); break;
    case RT_GSSVX: snprintf(b, bl, "p%cgssvx", PCH); break;
    case RT_GSTRS: snprintf(b, bl, "%cgstrs", PCH); break;
    case RT_GSRFS: snprintf(b, bl, "%cgsrfs", PCH); break;
    case RT_GSCON: snprintf(b, bl, "%cgscon", PCH); break;
    case RT_GSEQU: snprintf(b, bl, "%cgsequ", PCH); break;
    case RT_TRSV: snprintf(b, bl, "sp_%ctrsv", PCH); break;
    default: snprintf(b, bl, "sp_%cgemv", PCH); break;
    }
}

/* ------------------------------------------------------------------ the argument set ("world") of one call */
#define WN 4
#define WNRHS 2
typedef struct { const char *obj; void *p; size_t len; unsigned char *copy; } region_t;
typedef struct {
    int rt, base, n, nrhs, ldb;
    tmat_t T; amat_t am;
    int_t nprocs;
    superlumt_options_t opt, opt0;
    int_t *perm_c, *perm_r;
    equed_t equed; real_t *R, *C;
    SuperMatrix L, U, B, X, L0, U0; int have_lu;
    DNformat Bst, Xst; scalar_t *bval, *xval; size_t bbytes;
    real_t outs[4];            /* rpg, rcond | rowcnd, colcnd, amax */
    real_t *ferr, *berr; superlu_memusage_t mu;
    Gstat_t Gstat; int have_gstat;
    trans_t trans;
    char cnorm[2], cuplo[2], ctrans[2], cdiag[2]; real_t anorm;
    scalar_t *vx, *vy; scalar_t alpha, beta; int_t incx, incy;
    int_t info;
    region_t reg[64]; int nreg;
} world_t;

static void *xmalloc(size_t sz) { void *p = malloc(sz ? sz : 1); if (!p) { fprintf(stderr, "mcargs: out of memory\n"); _exit(3); } return p; }

/* the test matrix: fixed pattern with a full diagonal, generic values, diagonal shifted (well conditioned);
 * scaled != 0: diag(Rs) * A * diag(Cs) with powers of two (the "equilibrated" matrix of the reused-factor baselines) */
static const double W_RS[WN] = { 1.0, 0.5, 4.0, 2.0 }, W_CS[WN] = { 2.0, 0.25, 1.0, 8.0 };
static void build_matrix(tmat_t *T, int scaled) {
    static const int P[WN][WN] = { { 1, 1, 0, 1 }, { 0, 1, 1, 0 }, { 1, 0, 1, 1 }, { 0, 1, 0, 1 } };
    int pat[NMAX][NMAX]; ldc D[NMAX][NMAX]; memset(pat, 0, sizeof pat);
    for (int i = 0; i < WN; i++) for (int j = 0; j < WN; j++) {
        pat[i][j] = P[i][j]; D[i][j] = generic_value(i, j, 1) + (i == j ? 6.0L : 0.0L);
        if (scaled) D[i][j] *= (ld)W_RS[i] * (ld)W_CS[j];
    }
    tm_from_dense(T, WN, WN, pat, D);
}
static void dn_build(SuperMatrix *M, DNformat *st, scalar_t *val, int n, int nrhs, int lda) {
    memset(M, 0, sizeof *M); memset(st, 0, sizeof *st);
    st->lda = lda; st->nzval = val;
    M->Stype = SLU_DN; M->Dtype = SLU_DT; M->Mtype = SLU_GE; M->nrow = n; M->ncol = nrhs; M->Store = st;
}
/* legal factorization of W->am.A (column storage), factors stay alive in W->L, W->U */
static int make_factors(world_t *W) {
    int n = W->n; superlumt_options_t o; memset(&o, 0, sizeof o); SuperMatrix AC; int_t info = -999;
    for (int i = 0; i < n; i++) { W->perm_c[i] = i; W->perm_r[i] = -7; }
    o.nprocs = 1; o.fact = DOFACT; o.trans = NOTRANS; o.refact = NO; o.panel_size = vf_ienv[1]; o.relax = vf_ienv[2];
    o.diag_pivot_thresh = 1.0; o.drop_tol = 0; o.usepr = NO; o.SymmetricMode = NO; o.PrintStat = NO;
    o.perm_c = W->perm_c; o.perm_r = W->perm_r; o.work = NULL; o.lwork = 0;
    o.etree = intMalloc(n); o.colcnt_h = intMalloc(n); o.part_super_h = intMalloc(n);
    StatAlloc(n, 1, o.panel_size, o.relax, &W->Gstat); StatInit(n, 1, &W->Gstat); W->have_gstat = 1;
    memset(&W->L, 0, sizeof W->L); memset(&W->U, 0, sizeof W->U);
    sp_colorder(&W->am.A, W->perm_c, &o, &AC);
    pXgstrf(&o, &AC, W->perm_r, &W->L, &W->U, &W->Gstat, &info);
    pxgstrf_finalize(&o, &AC);
    W->have_lu = (info == 0);
    return (int)info;
}

static int build_world(world_t *W, int rt, int base) {
    memset(W, 0, sizeof *W);
    int n = WN, nrhs = base_nrhs(rt, base), ldb = WN + 1;
    W->rt = rt; W->base = base; W->n = n; W->nrhs = nrhs; W->ldb = ldb;
    vf_ienv[1] = 1; vf_ienv[2] = 1; vf_ienv[3] = 4; vf_ienv[4] = 200; vf_ienv[5] = 100; vf_ienv[6] = -50; vf_ienv[7] = -50; vf_ienv[8] = -30;
    int scaled = (rt == RT_GSSVX && base == 3) || (rt == RT_GSRFS && base == 2);
    int as_nr = (rt == RT_GSSV && base == 1) || (rt == RT_GSSVX && base == 1);
    build_matrix(&W->T, scaled);
    am_build(&W->am, &W->T, as_nr);
    W->perm_c = xmalloc(sizeof(int_t) * (n + 1)); W->perm_r = xmalloc(sizeof(int_t) * (n + 1));
    for (int i = 0; i <= n; i++) { W->perm_c[i] = i < n ? i : -77; W->perm_r[i] = i < n ? -7 : -77; }
    W->R = xmalloc(sizeof(real_t) * (n + 1)); W->C = xmalloc(sizeof(real_t) * (n + 1));
    for (int i = 0; i <= n; i++) { W->R[i] = scaled && i < n ? (real_t)W_RS[i] : (real_t)-3.5; W->C[i] = scaled && i < n ? (real_t)W_CS[i] : (real_t)-4.5; }
    W->ferr = xmalloc(sizeof(real_t) * (nrhs + 2)); W->berr = xmalloc(sizeof(real_t) * (nrhs + 2));
    for (int i = 0; i < nrhs + 2; i++) { W->ferr[i] = (real_t)-5.5; W->berr[i] = (real_t)-6.5; }
    for (int i = 0; i < 4; i++) W->outs[i] = (real_t)-1.0;
    memset(&W->mu, 0x5a, sizeof W->mu);
    /* B, X: n x nrhs with one row of padding and one spare column */
    int cells = ldb * (nrhs + 1);
    W->bbytes = sizeof(scalar_t) * cells;
    W->bval = xmalloc(W->bbytes); W->xval = xmalloc(W->bbytes);
    for (int k = 0; k < cells; k++) { W->bval[k] = L2S(generic_value(k % ldb, k / ldb, 3)); W->xval[k] = L2S(generic_value(k % ldb, k / ldb, 5)); }
    dn_build(&W->B, &W->Bst, W->bval, n, nrhs, ldb);
    dn_build(&W->X, &W->Xst, W->xval, n, nrhs, ldb);
    /* output factor headers: recognisable garbage (never dereferenced by the harness) */
    memset(&W->L, 0xA5, sizeof W->L); memset(&W->U, 0xA5, sizeof W->U);
    W->nprocs = 1; W->equed = ROW; W->trans = NOTRANS; W->info = -999;
    /* options of the expert driver: the documented fields + the three arrays; perm_c/perm_r fields deliberately NULL */
    memset(&W->opt, 0, sizeof W->opt);
    W->opt.nprocs = 1; W->opt.fact = DOFACT; W->opt.trans = NOTRANS; W->opt.refact = NO; W->opt.panel_size = vf_ienv[1]; W->opt.relax = vf_ienv[2];
    W->opt.diag_pivot_thresh = 1.0; W->opt.drop_tol = 0; W->opt.usepr = NO; W->opt.SymmetricMode = NO; W->opt.PrintStat = NO;
    W->opt.work = NULL; W->opt.lwork = 0;
    W->opt.etree = xmalloc(sizeof(int_t) * (n + 1)); W->opt.colcnt_h = xmalloc(sizeof(int_t) * (n + 1)); W->opt.part_super_h = xmalloc(sizeof(int_t) * (n + 1));
    for (int i = 0; i <= n; i++) { W->opt.etree[i] = -11; W->opt.colcnt_h[i] = -12; W->opt.part_super_h[i] = -13; }
    strcpy(W->cnorm, "1"); strcpy(W->cuplo, "L"); strcpy(W->ctrans, "N"); strcpy(W->cdiag, "U");
    W->vx = xmalloc(sizeof(scalar_t) * (n + 2)); W->vy = xmalloc(sizeof(scalar_t) * (n + 2));
    for (int i = 0; i < n + 2; i++) { W->vx[i] = L2S(generic_value(i, 2, 7)); W->vy[i] = L2S(generic_value(i, 5, 9)); }
    W->alpha = L2S(generic_value(1, 1, 2)); W->beta = L2S(generic_value(2, 3, 4)); W->incx = 1; W->incy = 1;

    int need_lu = rt == RT_GSTRS || rt == RT_GSRFS || rt == RT_GSCON || rt == RT_TRSV || (rt == RT_GSSVX && base == 3);
    if (need_lu) { int fi = make_factors(W); if (fi != 0) return 100 + fi; }
    W->L0 = W->L; W->U0 = W->U;
    switch (rt) {
    case RT_GSSV: break;
    case RT_GSSVX:
        if (base == 2) { W->opt.fact = EQUILIBRATE; W->opt.trans = TRANS; }
        if (base == 3) { W->opt.fact = FACTORED; W->equed = BOTH; }
        break;
    case RT_GSTRS: W->trans = base == 1 ? TRANS : NOTRANS; break;
    case RT_GSRFS: {
        W->trans = base == 1 ? TRANS : NOTRANS; W->equed = base == 2 ? BOTH : NOEQUIL;
        /* X := solution computed by a legal ?gstrs call */
        memcpy(W->xval, W->bval, W->bbytes);
        int_t i2 = -999; Xgstrs(W->trans, &W->L, &W->U, W->perm_r, W->perm_c, &W->X, &W->Gstat, &i2);
        if (i2 != 0) return 200;
        break; }
    case RT_GSCON: strcpy(W->cnorm, base == 1 ? "I" : "1"); W->anorm = (real_t)Xlangs(W->cnorm, &W->am.A); break;
    case RT_GSEQU: break;
    case RT_TRSV: strcpy(W->cuplo, (base & 1) ? "U" : "L"); strcpy(W->ctrans, (base & 2) ? "T" : "N"); strcpy(W->cdiag, (base & 1) ? "N" : "U"); break;
    case RT_GEMV: strcpy(W->ctrans, base == 1 ? "T" : "N"); break;
    }
    return 0;
}
static void free_world(world_t *W) {
    for (int i = 0; i < W->nreg; i++) free(W->reg[i].copy);
    if (W->have_lu) { Destroy_SuperNode_SCP(&W->L0); Destroy_CompCol_NCP(&W->U0); }
    if (W->have_gstat) StatFree(&W->Gstat);
    free(W->perm_c); free(W->perm_r); free(W->R); free(W->C); free(W->ferr); free(W->berr); free(W->bval); free(W->xval);
    free(W->opt0.etree); free(W->opt0.colcnt_h); free(W->opt0.part_super_h); free(W->vx); free(W->vy);
    am_free(&W->am);
}

/* ------------------------------------------------------------------ violations (mutators of the legal argument set) */
enum { O_A, O_L, O_U, O_B, O_X };
enum { OP_NPROCS, OP_FACT, OP_OTRANS, OP_REFACT, OP_USEPR, OP_LWORK, OP_TRANSARG, OP_CNORM, OP_CUPLO, OP_CTRANS, OP_CDIAG,
       OP_NONSQUARE, OP_NEGATIVE, OP_STYPE, OP_DTYPE, OP_MTYPE, OP_DN_NCOL, OP_DN_LDA, OP_DN_NROW, OP_DN_MISMATCH,
       OP_EQUED, OP_RNONPOS, OP_CNONPOS, OP_INCX, OP_INCY };
typedef struct { char kind[28]; int op, obj, param, pos; } viol_t;
#define MAXV 160
typedef struct { int nv; viol_t v[MAXV]; } vlist_t;
static vlist_t VL[NRT][4];

static void addv(vlist_t *l, const char *kind, int op, int obj, int param, int pos) {
    if (l->nv >= MAXV) { fprintf(stderr, "mcargs: MAXV too small\n"); exit(3); }
    viol_t *v = &l->v[l->nv++]; snprintf(v->kind, sizeof v->kind, "%s", kind); v->op = op; v->obj = obj; v->param = param; v->pos = pos;
}
/* a sparse matrix argument: shape (square), storage/data/matrix type.  stype_ok: bit mask of the documented storage types;
 * flags: 1 = square required (non-square / negative), 2 = only negative sizes (rectangular allowed), 4 = no storage-type mutations */
static void add_sm(vlist_t *l, const char *nm, int obj, int pos, unsigned stype_ok, int mtype_ok, int flags) {
    char k[28];
    if (flags & 1) {
        snprintf(k, sizeof k, "%s-nonsquare", nm); addv(l, k, OP_NONSQUARE, obj, 0, pos); addv(l, k, OP_NONSQUARE, obj, 1, pos);
        snprintf(k, sizeof k, "%s-negative", nm); addv(l, k, OP_NEGATIVE, obj, 2, pos);
    }
    if (flags & 2) { snprintf(k, sizeof k, "%s-negative", nm); for (int p = 0; p < 3; p++) addv(l, k, OP_NEGATIVE, obj, p, pos); }
    if (!(flags & 4)) { snprintf(k, sizeof k, "%s-stype", nm); for (int s = 0; s <= (int)SLU_NR_loc; s++) if (!(stype_ok >> s & 1)) addv(l, k, OP_STYPE, obj, s, pos); }
    snprintf(k, sizeof k, "%s-dtype", nm); for (int d = 0; d <= (int)SLU_Z; d++) if (d != (int)SLU_DT) addv(l, k, OP_DTYPE, obj, d, pos);
    snprintf(k, sizeof k, "%s-mtype", nm); for (int m = 0; m <= (int)SLU_HEU; m++) if (m != mtype_ok) addv(l, k, OP_MTYPE, obj, m, pos);
}
/* a dense matrix argument: columns < 0, leading dimension < rows, rows != order, types; mismatch: X->ncol != B->ncol */
static void add_dn(vlist_t *l, const char *nm, int obj, int pos, int mismatch) {
    char k[28];
    snprintf(k, sizeof k, "%s-ncol", nm); addv(l, k, OP_DN_NCOL, obj, -1, pos);
    snprintf(k, sizeof k, "%s-lda", nm); addv(l, k, OP_DN_LDA, obj, WN - 1, pos); addv(l, k, OP_DN_LDA, obj, 0, pos); addv(l, k, OP_DN_LDA, obj, -1, pos);
    snprintf(k, sizeof k, "%s-nrow", nm); addv(l, k, OP_DN_NROW, obj, WN - 1, pos);
    if (mismatch) { snprintf(k, sizeof k, "%s-ncol-mismatch", nm); addv(l, k, OP_DN_MISMATCH, obj, WNRHS + 1, pos); addv(l, k, OP_DN_MISMATCH, obj, WNRHS - 1, pos); }
    add_sm(l, nm, obj, pos, 1u << SLU_DN, SLU_GE, 0);
}
#define M_NC (1u << SLU_NC)
#define M_NR (1u << SLU_NR)
#define M_NCP (1u << SLU_NCP)
#define M_SCP (1u << SLU_SCP)
static void gen_violations(int rt, int base, vlist_t *l) {
    l->nv = 0;
    switch (rt) {
    case RT_GSSV:     /* documented order: nprocs 1, A 2, perm_c 3, perm_r 4, L 5, U 6, B 7, info 8 */
        addv(l, "nprocs", OP_NPROCS, 0, 0, 1); addv(l, "nprocs", OP_NPROCS, 0, -1, 1);
        add_sm(l, "A", O_A, 2, M_NC | M_NR, SLU_GE, 1);
        add_dn(l, "B", O_B, 7, 0);
        break;
    case RT_GSSVX:    /* nprocs 1, options 2, A 3, perm_c 4, perm_r 5, equed 6, R 7, C 8, L 9, U 10, B 11, X 12, ..., info 18 */
        addv(l, "nprocs", OP_NPROCS, 0, 0, 1); addv(l, "nprocs", OP_NPROCS, 0, -1, 1);
        addv(l, "fact", OP_FACT, 0, 3, 2); addv(l, "fact", OP_FACT, 0, -1, 2);
        addv(l, "trans", OP_OTRANS, 0, 3, 2); addv(l, "trans", OP_OTRANS, 0, -1, 2);
        addv(l, "refact", OP_REFACT, 0, 2, 2); addv(l, "refact", OP_REFACT, 0, -1, 2);
        addv(l, "usepr", OP_USEPR, 0, 2, 2); addv(l, "usepr", OP_USEPR, 0, -1, 2);
        addv(l, "lwork", OP_LWORK, 0, -2, 2); addv(l, "lwork", OP_LWORK, 0, -100, 2);
        add_sm(l, "A", O_A, 3, M_NC | M_NR, SLU_GE, 1);
        if (base == 3) {   /* reused factors: equed, R, C, L, U are inputs */
            addv(l, "equed", OP_EQUED, 0, 4, 6); addv(l, "equed", OP_EQUED, 0, -1, 6);
            addv(l, "R-nonpositive", OP_RNONPOS, 0, 0, 7); addv(l, "R-nonpositive", OP_RNONPOS, 0, 1, 7);
            addv(l, "C-nonpositive", OP_CNONPOS, 0, 0, 8); addv(l, "C-nonpositive", OP_CNONPOS, 0, 1, 8);
            add_sm(l, "L", O_L, 9, M_SCP, SLU_TRLU, 1);
            add_sm(l, "U", O_U, 10, M_NCP, SLU_TRU, 1);
        }
        add_dn(l, "B", O_B, 11, 0);
        add_dn(l, "X", O_X, 12, 1);
        break;
    case RT_GSTRS:    /* trans 1, L 2, U 3, perm_r 4, perm_c 5, B 6, Gstat 7, info 8 */
        addv(l, "trans", OP_TRANSARG, 0, 3, 1); addv(l, "trans", OP_TRANSARG, 0, -1, 1);
        add_sm(l, "L", O_L, 2, M_SCP, SLU_TRLU, 1);
        add_sm(l, "U", O_U, 3, M_NCP, SLU_TRU, 1);
        add_dn(l, "B", O_B, 6, 0);
        break;
    case RT_GSRFS:    /* trans 1, A 2, L 3, U 4, perm_r 5, perm_c 6, equed 7, R 8, C 9, B 10, X 11, ferr 12, berr 13, Gstat 14, info 15 */
        addv(l, "trans", OP_TRANSARG, 0, 3, 1); addv(l, "trans", OP_TRANSARG, 0, -1, 1);
        add_sm(l, "A", O_A, 2, M_NC, SLU_GE, 1);
        add_sm(l, "L", O_L, 3, M_SCP, SLU_TRLU, 1);
        add_sm(l, "U", O_U, 4, M_NCP, SLU_TRU, 1);
        addv(l, "equed", OP_EQUED, 0, 4, 7); addv(l, "equed", OP_EQUED, 0, -1, 7);
        add_dn(l, "B", O_B, 10, 0);
        add_dn(l, "X", O_X, 11, 1);
        break;
    case RT_GSCON:    /* norm 1, L 2, U 3, anorm 4, rcond 5, info 6 */
        addv(l, "norm", OP_CNORM, 0, 'X', 1); addv(l, "norm", OP_CNORM, 0, 'Q', 1);
        add_sm(l, "L", O_L, 2, M_SCP, SLU_TRLU, 1);
        add_sm(l, "U", O_U, 3, M_NCP, SLU_TRU, 1);
        break;
    case RT_GSEQU:    /* A 1 (rectangular allowed) */
        add_sm(l, "A", O_A, 1, M_NC, SLU_GE, 2);
        break;
    case RT_TRSV:     /* uplo 1, trans 2, diag 3, L 4, U 5, x 6, info 7; L's storage type is documented as SC although the
                         factors are SCP: storage type of L not enumerated */
        addv(l, "uplo", OP_CUPLO, 0, 'X', 1); addv(l, "uplo", OP_CUPLO, 0, 'Q', 1);
        addv(l, "trans", OP_CTRANS, 0, 'X', 2); addv(l, "trans", OP_CTRANS, 0, 'Q', 2);
        addv(l, "diag", OP_CDIAG, 0, 'X', 3); addv(l, "diag", OP_CDIAG, 0, 'Q', 3);
        add_sm(l, "L", O_L, 4, M_SCP, SLU_TRLU, 1 | 4);
        add_sm(l, "U", O_U, 5, M_NCP, SLU_TRU, 1);
        break;
    case RT_GEMV:     /* trans 1, alpha 2, A 3, x 4, incx 5, beta 6, y 7, incy 8 */
        addv(l, "trans", OP_CTRANS, 0, 'X', 1); addv(l, "trans", OP_CTRANS, 0, 'Q', 1);
        add_sm(l, "A", O_A, 3, M_NC | M_NCP, SLU_GE, 2);
        addv(l, "incx", OP_INCX, 0, 0, 5);
        addv(l, "incy", OP_INCY, 0, 0, 8);
        break;
    }
}
static SuperMatrix *objp(world_t *W, int obj) { return obj == O_A ? &W->am.A : obj == O_L ? &W->L : obj == O_U ? &W->U : obj == O_B ? &W->B : &W->X; }
static void apply_violation(world_t *W, const viol_t *v) {
    SuperMatrix *M = objp(W, v->obj); DNformat *st = v->obj == O_X ? &W->Xst : &W->Bst;
    switch (v->op) {
    case OP_NPROCS: W->nprocs = v->param; break;
    case OP_FACT: W->opt.fact = (fact_t)v->param; break;
    case OP_OTRANS: W->opt.trans = (trans_t)v->param; break;
    case OP_REFACT: W->opt.refact = (yes_no_t)v->param; break;
    case OP_USEPR: W->opt.usepr = (yes_no_t)v->param; break;
    case OP_LWORK: W->opt.lwork = v->param; break;
    case OP_TRANSARG: W->trans = (trans_t)v->param; break;
    case OP_CNORM: W->cnorm[0] = (char)v->param; break;
    case OP_CUPLO: W->cuplo[0] = (char)v->param; break;
    case OP_CTRANS: W->ctrans[0] = (char)v->param; break;
    case OP_CDIAG: W->cdiag[0] = (char)v->param; break;
    case OP_NONSQUARE: if (v->param == 0) M->nrow = W->n + 1; else M->ncol = W->n + 1; break;
    case OP_NEGATIVE: if (v->param != 1) M->nrow = -1; if (v->param != 0) M->ncol = -1; break;
    case OP_STYPE: M->Stype = (Stype_t)v->param; break;
    case OP_DTYPE: M->Dtype = (Dtype_t)v->param; break;
    case OP_MTYPE: M->Mtype = (Mtype_t)v->param; break;
    case OP_DN_NCOL: M->ncol = v->param; break;
    case OP_DN_LDA: st->lda = v->param; break;
    case OP_DN_NROW: M->nrow = v->param; break;
    case OP_DN_MISMATCH: M->ncol = v->param; break;
    case OP_EQUED: W->equed = (equed_t)v->param; break;
    case OP_RNONPOS: if (v->param == 0) W->R[1] = 0; else W->R[W->n - 1] = (real_t)-0.5; break;
    case OP_CNONPOS: if (v->param == 0) W->C[1] = 0; else W->C[W->n - 1] = (real_t)-0.5; break;
    case OP_INCX: W->incx = v->param; break;
    case OP_INCY: W->incy = v->param; break;
    }
}

/* does violation v (still) hold in the argument set W?  (a second mutation of the same field may have replaced or cancelled it) */
static int holds(world_t *W, const viol_t *v) {
    SuperMatrix *M = objp(W, v->obj); DNformat *st = v->obj == O_X ? &W->Xst : &W->Bst;
    switch (v->op) {
    case OP_NPROCS: return W->nprocs <= 0;
    case OP_FACT: return (int)W->opt.fact == v->param;
    case OP_OTRANS: return (int)W->opt.trans == v->param;
    case OP_REFACT: return (int)W->opt.refact == v->param;
    case OP_USEPR: return (int)W->opt.usepr == v->param;
    case OP_LWORK: return W->opt.lwork < -1;
    case OP_TRANSARG: return (int)W->trans == v->param;
    case OP_CNORM: return W->cnorm[0] == (char)v->param;
    case OP_CUPLO: return W->cuplo[0] == (char)v->param;
    case OP_CTRANS: return W->ctrans[0] == (char)v->param;
    case OP_CDIAG: return W->cdiag[0] == (char)v->param;
    case OP_NONSQUARE: return M->nrow != M->ncol;
    case OP_NEGATIVE: return M->nrow < 0 || M->ncol < 0;
    case OP_STYPE: return (int)M->Stype == v->param;
    case OP_DTYPE: return (int)M->Dtype == v->param;
    case OP_MTYPE: return (int)M->Mtype == v->param;
    case OP_DN_NCOL: return M->ncol < 0;
    case OP_DN_LDA: return st->lda == v->param;
    case OP_DN_NROW: return M->nrow == v->param;
    case OP_DN_MISMATCH: return W->X.ncol != W->B.ncol && W->X.ncol >= 0;
    case OP_EQUED: return (int)W->equed == v->param;
    case OP_RNONPOS: for (int i = 0; i < W->n; i++) if (!(W->R[i] > 0)) return 1; return 0;
    case OP_CNONPOS: for (int i = 0; i < W->n; i++) if (!(W->C[i] > 0)) return 1; return 0;
    case OP_INCX: return W->incx == 0;
    case OP_INCY: return W->incy == 0;
    }
    return 0;
}
/* the headers and scalars of a legal argument set without any library call: enough to apply violations and to evaluate holds() */
static void dry_world(world_t *W, int rt, int base) {
    static real_t ones_r[WN + 1], ones_c[WN + 1];
    memset(W, 0, sizeof *W); W->rt = rt; W->base = base; W->n = WN; W->nrhs = base_nrhs(rt, base); W->ldb = WN + 1;
    for (int i = 0; i <= WN; i++) ones_r[i] = ones_c[i] = 1;
    W->R = ones_r; W->C = ones_c;
    SuperMatrix *A = &W->am.A; A->Stype = SLU_NC; A->Dtype = SLU_DT; A->Mtype = SLU_GE; A->nrow = A->ncol = WN;
    W->L = *A; W->L.Stype = SLU_SCP; W->L.Mtype = SLU_TRLU; W->U = *A; W->U.Stype = SLU_NCP; W->U.Mtype = SLU_TRU;
    dn_build(&W->B, &W->Bst, NULL, WN, W->nrhs, WN + 1); dn_build(&W->X, &W->Xst, NULL, WN, W->nrhs, WN + 1);
    W->nprocs = 1; W->opt.fact = DOFACT; W->opt.trans = NOTRANS; W->opt.refact = NO; W->opt.usepr = NO; W->opt.lwork = 0;
    W->trans = NOTRANS; W->equed = NOEQUIL; W->incx = W->incy = 1;
    strcpy(W->cnorm, "1"); strcpy(W->cuplo, "L"); strcpy(W->ctrans, "N"); strcpy(W->cdiag, "U");
}
/* first offender of a case in documented order: among the violations that hold in the combined argument set the one with the
 * smallest documented position (ties: the one listed first).  returns the number of violations that hold (0: the pair cancels) */
static int decide(int rt, int base, const viol_t *a, const viol_t *b, const viol_t **dec, const viol_t **oth) {
    static world_t D; dry_world(&D, rt, base);
    apply_violation(&D, a); if (b) apply_violation(&D, b);
    int ha = holds(&D, a), hb = b ? holds(&D, b) : 0;
    *dec = *oth = NULL;
    if (ha && hb) { if (b->pos < a->pos || (b->pos == a->pos && b < a)) { *dec = b; *oth = a; } else { *dec = a; *oth = b; } }
    else if (ha) *dec = a; else if (hb) *dec = b;
    return ha + hb;
}

/* ------------------------------------------------------------------ snapshot of everything reachable */
static void reg(world_t *W, const char *obj, void *p, size_t len) {
    if (!p || !len || W->nreg >= 64) return;
    region_t *r = &W->reg[W->nreg++]; r->obj = obj; r->p = p; r->len = len; r->copy = xmalloc(len); memcpy(r->copy, p, len);
}
/* a block handed out by the library's allocator: its full allocated size */
static void reg_block(world_t *W, const char *obj, void *p, size_t fallback) {
    if (!p) return;
    size_t sz = vf_block_size(p); if (sz == (size_t)-1) sz = fallback;
    reg(W, obj, p, sz);
}
static void snapshot(world_t *W) {
    int n = W->n, rt = W->rt; size_t iw = sizeof(int_t);
    W->am.A0 = W->am.A; W->am.nc0 = W->am.nc; W->am.nr0 = W->am.nr;     /* A: am_unchanged() against the (mutated) header */
    int drv = rt == RT_GSSV || rt == RT_GSSVX;
    if (drv || rt == RT_GSTRS || rt == RT_GSRFS) {
        reg(W, "B", &W->B, sizeof W->B); reg(W, "B", &W->Bst, sizeof W->Bst); reg(W, "B", W->bval, W->bbytes);
        reg(W, "perm_c", W->perm_c, iw * (n + 1)); reg(W, "perm_r", W->perm_r, iw * (n + 1));
    }
    if (rt == RT_GSSVX || rt == RT_GSRFS) {
        reg(W, "X", &W->X, sizeof W->X); reg(W, "X", &W->Xst, sizeof W->Xst); reg(W, "X", W->xval, W->bbytes);
        reg(W, "R", W->R, sizeof(real_t) * (n + 1)); reg(W, "C", W->C, sizeof(real_t) * (n + 1));
        reg(W, "equed", &W->equed, sizeof W->equed);
        reg(W, "outputs", W->ferr, sizeof(real_t) * (W->nrhs + 2)); reg(W, "outputs", W->berr, sizeof(real_t) * (W->nrhs + 2));
    }
    if (rt == RT_GSSVX) {
        reg(W, "outputs", W->outs, sizeof W->outs); reg(W, "outputs", &W->mu, sizeof W->mu);
        reg(W, "options", W->opt.etree, iw * (n + 1)); reg(W, "options", W->opt.colcnt_h, iw * (n + 1)); reg(W, "options", W->opt.part_super_h, iw * (n + 1));
        memcpy(&W->opt0, &W->opt, sizeof W->opt);
    } else { W->opt0 = W->opt; }
    if (rt != RT_GSEQU && rt != RT_GEMV) {
        reg(W, "L", &W->L, sizeof W->L); reg(W, "U", &W->U, sizeof W->U);
        if (W->have_lu) {
            SCPformat *Ls = W->L0.Store; NCPformat *Us = W->U0.Store;
            reg_block(W, "L", Ls, sizeof *Ls); reg_block(W, "L", Ls->nzval, 0);
            reg_block(W, "L", Ls->nzval_colbeg, iw * (n + 1)); reg_block(W, "L", Ls->nzval_colend, iw * n);
            reg_block(W, "L", Ls->rowind, 0); reg_block(W, "L", Ls->rowind_colbeg, iw * (n + 1)); reg_block(W, "L", Ls->rowind_colend, iw * n);
            reg_block(W, "L", Ls->col_to_sup, iw * (n + 1)); reg_block(W, "L", Ls->sup_to_colbeg, iw * (n + 1)); reg_block(W, "L", Ls->sup_to_colend, iw * n);
            reg_block(W, "U", Us, sizeof *Us); reg_block(W, "U", Us->nzval, 0); reg_block(W, "U", Us->rowind, 0);
            reg_block(W, "U", Us->colbeg, iw * (n + 1)); reg_block(W, "U", Us->colend, iw * n);
        }
    }
    if ((rt == RT_GSTRS || rt == RT_GSRFS) && W->have_gstat) {
        reg(W, "Gstat", &W->Gstat, sizeof W->Gstat); reg_block(W, "Gstat", W->Gstat.utime, 0); reg_block(W, "Gstat", W->Gstat.ops, 0);
    }
    if (rt == RT_GSCON) reg(W, "outputs", W->outs, sizeof W->outs);
    if (rt == RT_GSEQU) { reg(W, "outputs", W->R, sizeof(real_t) * (n + 1)); reg(W, "outputs", W->C, sizeof(real_t) * (n + 1)); reg(W, "outputs", W->outs, sizeof W->outs); }
    if (rt == RT_TRSV) reg(W, "x", W->vx, sizeof(scalar_t) * (n + 2));
    if (rt == RT_GEMV) { reg(W, "x", W->vx, sizeof(scalar_t) * (n + 2)); reg(W, "y", W->vy, sizeof(scalar_t) * (n + 2)); }
}
/* names of the changed objects, comma separated ("" if none); *nchanged = number of distinct objects */
static int changed_objects(world_t *W, char *out, size_t ol, const char **names, int maxn) {
    int cnt = 0; out[0] = 0; size_t o = 0;
#define ADDOBJ(nm) do { int dup_ = 0; for (int q_ = 0; q_ < cnt; q_++) if (!strcmp(names[q_], nm)) dup_ = 1; \
        if (!dup_ && cnt < maxn) { names[cnt++] = nm; if (o + 24 < ol) o += snprintf(out + o, ol - o, "%s%s", o ? "," : "", nm); } } while (0)
    if (W->rt != RT_GSCON && W->rt != RT_TRSV && W->rt != RT_GSTRS && am_unchanged(&W->am)) ADDOBJ("A");
    for (int i = 0; i < W->nreg; i++) if (memcmp(W->reg[i].p, W->reg[i].copy, W->reg[i].len)) ADDOBJ(W->reg[i].obj);
    if (W->rt == RT_GSSVX) {
        superlumt_options_t a, b; memcpy(&a, &W->opt, sizeof a); memcpy(&b, &W->opt0, sizeof b);
        a.perm_c = b.perm_c = NULL; a.perm_r = b.perm_r = NULL;
        if (memcmp(&a, &b, sizeof a)) ADDOBJ("options");
    }
#undef ADDOBJ
    return cnt;
}

/* ------------------------------------------------------------------ the call */
static void call_routine(world_t *W) {
    switch (W->rt) {
    case RT_GSSV: pXgssv(W->nprocs, &W->am.A, W->perm_c, W->perm_r, &W->L, &W->U, &W->B, &W->info); break;
    case RT_GSSVX: pXgssvx(W->nprocs, &W->opt, &W->am.A, W->perm_c, W->perm_r, &W->equed, W->R, W->C, &W->L, &W->U, &W->B, &W->X,
                           &W->outs[0], &W->outs[1], W->ferr, W->berr, &W->mu, &W->info); break;
    case RT_GSTRS: Xgstrs(W->trans, &W->L, &W->U, W->perm_r, W->perm_c, &W->B, &W->Gstat, &W->info); break;
    case RT_GSRFS: Xgsrfs(W->trans, &W->am.A, &W->L, &W->U, W->perm_r, W->perm_c, W->equed, W->R, W->C, &W->B, &W->X, W->ferr, W->berr, &W->Gstat, &W->info); break;
    case RT_GSCON: Xgscon(W->cnorm, &W->L, &W->U, W->anorm, &W->outs[1], &W->info); break;
    case RT_GSEQU: Xgsequ(&W->am.A, W->R, W->C, &W->outs[0], &W->outs[1], &W->outs[2], &W->info); break;
    case RT_TRSV: sp_Xtrsv(W->cuplo, W->ctrans, W->cdiag, &W->L, &W->U, W->vx, &W->info); break;
    case RT_GEMV: sp_Xgemv(W->ctrans, W->alpha, &W->am.A, W->vx, W->incx, W->beta, W->vy, W->incy); break;
    }
}

/* ------------------------------------------------------------------ cases */
typedef struct { short rt, base, v1, v2; } case_t;
static case_t *CASES; static long NCASES;

static int case_string(const case_t *c, char *b, size_t bl) {
    const vlist_t *l = &VL[c->rt][c->base];
    int o = snprintf(b, bl, "rt=%s base=%s v=%s:%d", RT_NAME[c->rt], BASE_NAME[c->rt][c->base], l->v[c->v1].kind, l->v[c->v1].param);
    if (c->v2 >= 0) o += snprintf(b + o, bl - o, "+%s:%d", l->v[c->v2].kind, l->v[c->v2].param);
    return o;
}

static void run_case(const case_t *c) {
    static world_t W; char cs[200], sig[160];
    const vlist_t *l = &VL[c->rt][c->base];
    const viol_t *a = &l->v[c->v1], *b = c->v2 >= 0 ? &l->v[c->v2] : NULL;
    case_string(c, cs, sizeof cs);
    if (vf_sh) snprintf((char *)vf_sh->note, sizeof vf_sh->note, "%s", cs);
    const viol_t *dec, *oth;
    if (!decide(c->rt, c->base, a, b, &dec, &oth)) { G->skipped++; return; }   /* the two mutations cancel: no documented precondition is violated */
    int rc = build_world(&W, c->rt, c->base);
    if (rc) { viol("C15:harness:world", cs, "could not build the legal argument set (code %d)", rc); return; }
    apply_violation(&W, a); if (b) apply_violation(&W, b);
    int exp_pos = dec->pos;
    snapshot(&W);
    char xn[32]; rt_xname(c->rt, xn, sizeof xn);
    vf_xerbla_calls = 0; vf_xerbla_info = 0; vf_xerbla_name[0] = 0; W.info = -999;
    vf_heap_mark_t h0 = vf_heap_mark(); long seq0 = vf_alloc_calls;
    call_routine(&W);
    vf_heap_mark_t h1 = vf_heap_mark();
    G->runs++; G->judged++;

    int has_info = RT_HAS_INFO[c->rt]; long nv0 = G->viol; const char *o1 = has_info ? "info" : "xerbla";
    int info = (int)W.info, calls = vf_xerbla_calls, xi = vf_xerbla_info;
    char gotname[32]; snprintf(gotname, sizeof gotname, "%s", vf_xerbla_name);
    for (int k = (int)strlen(gotname) - 1; k >= 0 && gotname[k] == ' '; k--) gotname[k] = 0;     /* Fortran-style padding is not a wrong name */
    char chg[200]; const char *chn[24]; int nch = changed_objects(&W, chg, sizeof chg, chn, 24);
    long leaked = h1.nlive - h0.nlive;
    int rejected = has_info ? (info < 0 && info != -999) : (calls > 0);
    /* the position the routine reported (0 = none) */
    int got_pos = has_info ? (rejected ? -info : 0) : (calls > 0 ? xi : 0);

    unsigned long long h = 1469598103934665603ULL;
    h = hmix(h, (((unsigned long long)(c->rt * 4 + c->base) * 256 + (unsigned long long)(c->v1 + 1)) * 256 + (unsigned long long)(c->v2 + 2))); h = hmix(h, (unsigned long long)(long)info); h = hmix(h, calls * 131 + xi);
    for (int q = 0; q < nch; q++) for (const char *p = chn[q]; *p; p++) h = hmix(h, (unsigned char)*p);
    h = hmix(h, (unsigned long long)leaked);
    note_distinct(h);
    if (G->samples_left > 0 && (c->v2 >= 0 || c->v1 % 7 == 3)) { G->samples_left--; out_sample(PROP, "%s -> expected position %d; info=%d, xerbla calls=%d name=\"%s\" i=%d, changed=[%s], blocks retained=%ld", cs, exp_pos, has_info ? info : 0, calls, gotname, xi, chg, leaked); }

    /* oracle 1a: the returned info / reported position */
    if (!rejected) {
        G->undetected++;
        snprintf(sig, sizeof sig, "C15:%s:%s:%s", RT_NAME[c->rt], o1, dec->kind);
        if (has_info) viol(sig, cs, "illegal call not rejected: expected info=-%d (%s), got info=%d, xerbla_ calls=%d; objects changed by the call: [%s], tracked blocks retained: %ld", exp_pos, dec->kind, info, calls, chg, leaked);
        else viol(sig, cs, "illegal call not rejected: expected xerbla_(\"%s\", %d) (%s), the handler was not called; objects changed by the call: [%s]", xn, exp_pos, dec->kind, chg);
    } else {
        if (got_pos != exp_pos) {
            /* a pair whose first offender was overlooked and whose second one was reported: "info"; everything else: "position" */
            int overlooked = oth && got_pos == oth->pos && oth->pos != exp_pos;
            snprintf(sig, sizeof sig, "C15:%s:%s:%s", RT_NAME[c->rt], overlooked ? o1 : "position", dec->kind);
            if (overlooked) viol(sig, cs, "first offender %s is documented as argument %d; the routine reported argument %d, the documented position of the later offender %s", dec->kind, exp_pos, got_pos, oth->kind);
            else viol(sig, cs, "%s is documented as argument %d, the routine reported argument %d (info=%d)", dec->kind, exp_pos, got_pos, has_info ? info : 0);
        }
        /* oracle 1b: the error handler */
        snprintf(sig, sizeof sig, "C15:%s:xerbla:%s", RT_NAME[c->rt], dec->kind);
        if (calls != 1) viol(sig, cs, "xerbla_ called %d times (expected exactly once); info=%d", calls, info);
        else if (strcmp(gotname, xn)) viol(sig, cs, "xerbla_ called with routine name \"%s\", expected \"%s\" (i=%d, info=%d)", vf_xerbla_name, xn, xi, info);
        else if (has_info && xi != -info) viol(sig, cs, "xerbla_ was told argument %d but info=%d", xi, info);
        /* oracle 2: nothing reachable from the arguments changed */
        for (int q = 0; q < nch; q++) {
            snprintf(sig, sizeof sig, "C15:%s:side-effect:%s:%s", RT_NAME[c->rt], chn[q], dec->kind);
            viol(sig, cs, "rejected call (info=%d) modified %s (all changed objects: [%s])", has_info ? info : -xi, chn[q], chg);
        }
        /* oracle 3: nothing retained */
        if (leaked != 0) {
            char lk[200]; vf_live_since(seq0, lk, sizeof lk);
            snprintf(sig, sizeof sig, "C15:%s:leak:%s", RT_NAME[c->rt], dec->kind);
            viol(sig, cs, "rejected call (info=%d) retained %ld tracked blocks: %s", has_info ? info : -xi, leaked, lk);
        }
        if (G->viol == nv0) G->detected_ok++;
    }
    if (c->rt == RT_GSSVX && (W.opt.perm_c != W.opt0.perm_c || W.opt.perm_r != W.opt0.perm_r)) G->opt_perm_written++;
    if (G->viol != nv0) G->viol_cases++;
    /* clean up (a call that was not rejected may have produced new factors: those are simply dropped) */
    free_world(&W);
}

static void case_fn(long idx, void *ctx) { (void)ctx; run_case(&CASES[idx]); }
static void death_fn(long idx, int kind, int code, const char *note, void *ctx) {
    (void)ctx; const case_t *c = &CASES[idx]; const vlist_t *l = &VL[c->rt][c->base];
    char sig[200], cd[128], cs[200]; vf_crash_desc(kind, code, cd, sizeof cd); case_string(c, cs, sizeof cs);
    G->deaths++; G->viol++; G->viol_cases++; G->runs++; G->judged++;
    const viol_t *a = &l->v[c->v1], *b = c->v2 >= 0 ? &l->v[c->v2] : NULL, *dec, *oth;
    decide(c->rt, c->base, a, b, &dec, &oth); if (!dec) dec = a;
    snprintf(sig, sizeof sig, "C15:crash:%s:%s", RT_NAME[c->rt], dec->kind);
    if (sig_note(sig) <= 5) out_violation(PROP, sig, cs, "process died (%s) during the illegal call instead of reporting argument %d (%s)", cd, dec->pos, dec->kind);
    (void)note;
}

/* ------------------------------------------------------------------ legality of the baselines */
static void baseline_fn(long idx, void *ctx) {
    (void)ctx; int rt = (int)(idx / 4), base = (int)(idx % 4); static world_t W; char cs[100];
    snprintf(cs, sizeof cs, "rt=%s base=%s v=none", RT_NAME[rt], BASE_NAME[rt][base]);
    if (vf_sh) snprintf((char *)vf_sh->note, sizeof vf_sh->note, "%s", cs);
    G->baselines++;
    int rc = build_world(&W, rt, base);
    if (rc) { viol("C15:harness:world", cs, "could not build the legal argument set (code %d)", rc); return; }
    snapshot(&W);
    vf_xerbla_calls = 0; W.info = -999;
    call_routine(&W);
    int ok = vf_xerbla_calls == 0 && (!RT_HAS_INFO[rt] || W.info == 0);
    if (ok) G->baselines_ok++;
    else { char sig[96]; snprintf(sig, sizeof sig, "C15:%s:baseline:%s", RT_NAME[rt], BASE_NAME[rt][base]); viol(sig, cs, "the LEGAL baseline call returned info=%d, xerbla_ calls=%d (\"%s\", %d)", (int)W.info, vf_xerbla_calls, vf_xerbla_name, vf_xerbla_info); }
}
static void baseline_death(long idx, int kind, int code, const char *note, void *ctx) {
    (void)ctx; (void)note; int rt = (int)(idx / 4), base = (int)(idx % 4); char sig[96], cd[128], cs[100]; vf_crash_desc(kind, code, cd, sizeof cd);
    snprintf(cs, sizeof cs, "rt=%s base=%s v=none", RT_NAME[rt], BASE_NAME[rt][base]);
    snprintf(sig, sizeof sig, "C15:%s:baseline:%s", RT_NAME[rt], BASE_NAME[rt][base]); G->viol++; G->deaths++;
    if (sig_note(sig) <= 5) out_violation(PROP, sig, cs, "process died (%s) during the LEGAL baseline call", cd);
}

/* ------------------------------------------------------------------ replay */
static int find_viol(const vlist_t *l, const char *s) {
    char kind[40]; int param = 0; const char *c = strrchr(s, ':'); if (!c) return -1;
    snprintf(kind, sizeof kind, "%.*s", (int)(c - s), s); param = atoi(c + 1);
    for (int i = 0; i < l->nv; i++) if (!strcmp(l->v[i].kind, kind) && l->v[i].param == param) return i;
    return -1;
}
static int replay_one(const char *s) {
    char rtn[16] = "", bn[32] = "", vs[120] = ""; const char *p;
    if ((p = strstr(s, "rt="))) sscanf(p + 3, "%15s", rtn);
    if ((p = strstr(s, "base="))) sscanf(p + 5, "%31s", bn);
    if ((p = strstr(s, "v="))) sscanf(p + 2, "%119s", vs);
    int rt = -1, base = -1; for (int r = 0; r < NRT; r++) if (!strcmp(rtn, RT_NAME[r])) rt = r;
    if (rt >= 0) for (int b = 0; b < RT_NBASE[rt]; b++) if (!strcmp(bn, BASE_NAME[rt][b])) base = b;
    if (rt < 0 || base < 0) { fprintf(stderr, "mcargs: bad case string (routine/baseline)\n"); return 2; }
    if (!strcmp(vs, "none")) { baseline_fn(rt * 4 + base, NULL); return G->viol ? 1 : 0; }
    case_t c; c.rt = (short)rt; c.base = (short)base; c.v2 = -1;
    char *plus = strchr(vs, '+'); if (plus) *plus = 0;
    int v1 = find_viol(&VL[rt][base], vs), v2 = plus ? find_viol(&VL[rt][base], plus + 1) : -1;
    if (v1 < 0 || (plus && v2 < 0)) { fprintf(stderr, "mcargs: bad case string (unknown violation)\n"); return 2; }
    c.v1 = (short)v1; c.v2 = (short)v2;
    G->samples_left = 0;
    run_case(&c);
    return G->viol ? 1 : 0;
}

int main(int argc, char **argv) {
    out_init();
    G = mmap(NULL, sizeof *G, PROT_READ | PROT_WRITE, MAP_SHARED | MAP_ANONYMOUS, -1, 0);
    G->samples_left = 3;
    PROP = arg_str(argc, argv, "--prop", "C15");
    for (int r = 0; r < NRT; r++) for (int b = 0; b < RT_NBASE[r]; b++) gen_violations(r, b, &VL[r][b]);
    const char *one = arg_str(argc, argv, "--one", NULL);
    if (one) { int rc = replay_one(one); out_stats(PROP, "\"runs\":%ld,\"violations\":%ld", G->runs, G->viol); return rc; }
    const char *routine = arg_str(argc, argv, "--routine", "all");
    int pairs = arg_int(argc, argv, "--pairs", 0);
    int islice = 0, nslice = 1; sscanf(arg_str(argc, argv, "--slice", "0/1"), "%d/%d", &islice, &nslice); if (nslice < 1) nslice = 1;
    int timeout = arg_int(argc, argv, "--timeout", 20);
    double deadline = atof(arg_str(argc, argv, "--deadline", "1e9")); double t0 = now_s();
    int sel[NRT], nsel = 0; for (int r = 0; r < NRT; r++) { sel[r] = !strcmp(routine, "all") || !strcmp(routine, RT_NAME[r]); nsel += sel[r]; }
    if (!nsel) { fprintf(stderr, "mcargs: unknown --routine %s\n", routine); return 2; }

    /* the case list of this slice (global numbering: routine, baseline, singles, ordered pairs) */
    long total = 0, my_singles = 0;
    for (int pass = 0; pass < 2; pass++) {
        long g = 0, k = 0;
        for (int r = 0; r < NRT; r++) if (sel[r]) for (int b = 0; b < RT_NBASE[r]; b++) {
            int nv = VL[r][b].nv;
            for (int i = 0; i < nv; i++, g++) if (g % nslice == islice) { if (!pass) my_singles++; if (pass) { CASES[k].rt = (short)r; CASES[k].base = (short)b; CASES[k].v1 = (short)i; CASES[k].v2 = -1; } k++; }
            if (pairs) for (int i = 0; i < nv; i++) for (int j = 0; j < nv; j++) if (i != j) { if (g % nslice == islice) { if (pass) { CASES[k].rt = (short)r; CASES[k].base = (short)b; CASES[k].v1 = (short)i; CASES[k].v2 = (short)j; } k++; } g++; }
        }
        if (!pass) { total = g; NCASES = k; CASES = xmalloc(sizeof(case_t) * (k + 1)); }
    }
    /* legality of every baseline in play (slice 0 reports it; every slice relies on it) */
    if (islice == 0) for (int r = 0; r < NRT; r++) if (sel[r]) for (int b = 0; b < RT_NBASE[r]; b++) vf_run_isolated(r * 4 + b, r * 4 + b + 1, baseline_fn, baseline_death, NULL, timeout);

    long done = 0; int complete = 1;
    for (long lo = 0; lo < NCASES; lo += 1000) {
        if (now_s() - t0 > deadline) { complete = 0; break; }
        long hi = lo + 1000 < NCASES ? lo + 1000 : NCASES;
        vf_run_isolated(lo, hi, case_fn, death_fn, NULL, timeout);
        done = hi;
    }
    for (int i = 0; i < G->nsig; i++) {
        fprintf(vf_out, "{\"type\":\"sigcount\",\"property\":\"%s\",\"prec\":\"%c\",\"sig\":", PROP, PCH); out_str(vf_out, G->sigs[i].sig);
        fprintf(vf_out, ",\"count\":%ld}\n", G->sigs[i].count);
    }
    out_stats(PROP, "\"routine\":\"%s\",\"pairs_mode\":\"%s\",\"slice\":\"%d/%d\",\"cases\":%ld,\"cases_total\":%ld,\"single_cases\":%ld,\"pair_cases\":%ld,"
              "\"baselines_checked\":%ld,\"baselines_legal\":%ld,\"complete\":%s,\"runs\":%ld,\"judged\":%ld,\"skipped\":%ld,\"violations\":%ld,\"violating_cases\":%ld,"
              "\"rejected_clean\":%ld,\"not_rejected\":%ld,\"deaths\":%ld,\"options_perm_fields_written\":%ld,\"distinct_outcomes\":%ld,\"wall_s\":%.2f",
              routine, pairs ? "on" : "off", islice, nslice, done, NCASES, my_singles, NCASES - my_singles, G->baselines, G->baselines_ok, complete ? "true" : "false",
              G->runs, G->judged, G->skipped, G->viol, G->viol_cases, G->detected_ok, G->undetected, G->deaths, G->opt_perm_written, G->distinct, now_s() - t0);
    return 0;
}
