/* Engine Q (part 2): the expert driver p?gssvx over every trans / storage / fact / equed combination,
 * judged for C07 (solves the original system), C11 (equilibration), C12 (rcond, pivot growth), C13 (berr, ferr).
 *
 *   mcexpert --prop C07 --family pat --n 3 --grid quick|full [--slice i/k]
 *   mcexpert --prop C11 --family equ          (direct ?gsequ / ?laqgs calls over the exponent alphabet)
 *   mcexpert --prop C12 --family graded       (prescribed singular values, n = 4..6)
 *   mcexpert --prop C07 --one "<case string>"
 */
#include "../common/factor.h"

static const char *PROP = "C07";
typedef struct { long cfg_no, resume_cfg, resumes; long runs, judged, skipped, viol, deaths, distinct, illcond; int samples_left; unsigned long long dh[1 << 16]; int printed[64]; char sigs[64][96]; int nsig; } shared_t;
static shared_t *G;
#define EPSM ((ld)2 * UROUND)          /* machine epsilon of the working precision */

static void note_distinct(unsigned long long h) {
    unsigned k = (unsigned)(h >> 20) & 0xffff;
    for (int t = 0; t < 64; t++) { unsigned s = (k + t) & 0xffff; if (G->dh[s] == h) return; if (!G->dh[s]) { G->dh[s] = h; G->distinct++; return; } }
}
static unsigned long long hmix(unsigned long long h, unsigned long long v) { h ^= v + 0x9E3779B97F4A7C15ULL + (h << 6) + (h >> 2); return h; }
static void viol(const char *sig0, const char *cs, const char *fmt, ...) {
    char sig[128]; snprintf(sig, sizeof sig, "%s:%s", sig0, IS_COMPLEX ? "complex" : "real");     /* the s/d and c/z code paths differ (CONJ, CABS1) */
    char buf[600]; va_list ap; va_start(ap, fmt); vsnprintf(buf, sizeof buf, fmt, ap); va_end(ap);
    G->viol++;
    int k; for (k = 0; k < G->nsig; k++) if (!strcmp(G->sigs[k], sig)) break;
    if (k == G->nsig) { if (G->nsig >= 64) return; snprintf(G->sigs[G->nsig++], 96, "%s", sig); }
    if (G->printed[k]++ < 3) out_violation(PROP, sig, cs, "%s", buf);
}

/* ------------------------------------------------------------------ cases */
typedef struct {
    int n; unsigned long long bits; int salt;
    int scal;        /* 0 none, 1 rows badly scaled, 2 columns, 3 both, 4 huge uniform, 5 tiny uniform */
    int graded;      /* >0: graded family member: log10 of the condition number */
    int trans, as_nr, fact;      /* fact: DOFACT, EQUILIBRATE, FACTORED(=2: a first EQUILIBRATE/DOFACT call supplies the factors) */
    int fact0;       /* for FACTORED: how the factors were produced (DOFACT or EQUILIBRATE) */
    int nrhs, nprocs, ldb_extra, ldx_extra; double u; int w, relax, ord;
} xcase_t;
static int xcase_str(const xcase_t *c, char *b, size_t bl) {
    return snprintf(b, bl, "n=%d bits=%llu salt=%d scal=%d graded=%d tr=%d nr=%d fact=%d fact0=%d nrhs=%d P=%d ldbx=%d ldxx=%d u=%g w=%d rlx=%d ord=%d",
                    c->n, c->bits, c->salt, c->scal, c->graded, c->trans, c->as_nr, c->fact, c->fact0, c->nrhs, c->nprocs, c->ldb_extra, c->ldx_extra, c->u, c->w, c->relax, c->ord);
}
static ld scale_pow(int scal, int which, int i) {     /* which 0 = row factor, 1 = column factor */
    int e = 0;
    if ((scal == 1 || scal == 3) && which == 0) e = (i % 2) ? 24 : -18;
    if ((scal == 2 || scal == 3) && which == 1) e = (i % 2) ? -20 : 22;
    if (scal == 4 && which == 0) e = IS_COMPLEX || sizeof(real_t) == 4 ? 100 : 980;
    if (scal == 5 && which == 0) e = IS_COMPLEX || sizeof(real_t) == 4 ? -100 : -980;
    if (sizeof(real_t) == 4 && (scal == 1 || scal == 2 || scal == 3)) e /= 2;
    return ldexpl(1.0L, e);
}
/* orthogonal-ish factors for the graded family: A = H(u) * diag(sigma) * H(v) with Householder reflectors */
static void graded_matrix(int n, int logc, int salt, ldc D[NMAX][NMAX]) {
    ld u[NMAX], v[NMAX], nu = 0, nv = 0;
    for (int i = 0; i < n; i++) { u[i] = 1 + 0.37L * ((i * 5 + salt) % 7); v[i] = 2 - 0.29L * ((i * 3 + salt * 2) % 5); nu += u[i] * u[i]; nv += v[i] * v[i]; }
    ld S[NMAX]; for (int i = 0; i < n; i++) S[i] = powl(10.0L, -(ld)logc * i / (n - 1));
    for (int i = 0; i < n; i++) for (int j = 0; j < n; j++) {
        ld s = 0;
        for (int k = 0; k < n; k++) { ld hu = (i == k) - 2 * u[i] * u[k] / nu, hv = (k == j) - 2 * v[k] * v[j] / nv; s += hu * S[k] * hv; }
        (void)s; D[i][j] = 0;
    }
    /* (H_u diag(S) H_v)_{ij} = sum_k Hu_{ik} S_k Hv_{kj} */
    for (int i = 0; i < n; i++) for (int j = 0; j < n; j++) { ld s = 0; for (int k = 0; k < n; k++) s += ((i == k) - 2 * u[i] * u[k] / nu) * S[k] * ((k == j) - 2 * v[k] * v[j] / nv); D[i][j] = s; }
}
static int build_matrix(const xcase_t *c, tmat_t *T) {
    int n = c->n; int pat[NMAX][NMAX]; ldc D[NMAX][NMAX];
    if (c->graded) { graded_matrix(n, c->graded, c->salt, D); for (int i = 0; i < n; i++) for (int j = 0; j < n; j++) pat[i][j] = 1; }
    else for (int i = 0; i < n; i++) for (int j = 0; j < n; j++) { pat[i][j] = (c->bits >> (i * n + j)) & 1; D[i][j] = generic_value(i, j, c->salt) * scale_pow(c->scal, 0, i) * scale_pow(c->scal, 1, j); if (c->scal == 6 && i == j && i == 0) D[i][j] *= ldexpl(1, sizeof(real_t) == 4 ? -21 : -50); }
    /* round to the working precision: the matrix the library sees IS the matrix of the problem */
    for (int i = 0; i < n; i++) for (int j = 0; j < n; j++) D[i][j] = S2L(L2S(D[i][j]));
    tm_from_dense(T, n, n, pat, D);
    return 1;
}

/* ------------------------------------------------------------------ one expert-driver call */
typedef struct {
    int info, equed; real_t R[NMAX], C[NMAX], rpg, rcond, ferr[3], berr[3];
    ldc Aout[NMAX][NMAX]; ldc Bout[3 * (NMAX + 4)], X[3 * (NMAX + 4)]; int pad_b_touched, pad_x_touched;
    int_t perm_r[NMAX], perm_c[NMAX];
    int wf; ldc Ld[NMAX][NMAX], Ud[NMAX][NMAX]; char wfmsg[200];
    int xerbla_calls, xerbla_info; char xerbla_name[32];
    int leak; long leak_bytes;
} xres_t;
typedef struct {          /* objects that live across the calls of one case (FACTORED reuses them) */
    amat_t am; SuperMatrix L, U; int_t perm_r[NMAX + 1], perm_c[NMAX + 1]; real_t R[NMAX], C[NMAX]; equed_t equed; superlumt_options_t opt; int have_lu;
} xstate_t;

static void call_gssvx(const xcase_t *c, xstate_t *st, int fact, const ldc *Bin, int nrhs, int ldb, int ldx, xres_t *r)
{
    int n = c->n; memset(r, 0, sizeof *r);
    scalar_t *bm = malloc(sizeof(scalar_t) * (ldb * (nrhs > 0 ? nrhs : 1) + 1)), *xm = malloc(sizeof(scalar_t) * (ldx * (nrhs > 0 ? nrhs : 1) + 1));
    for (int k = 0; k < ldb * nrhs; k++) memset(&bm[k], 0x33, sizeof(scalar_t));
    for (int k = 0; k < ldx * nrhs; k++) memset(&xm[k], 0x55, sizeof(scalar_t));
    for (int k = 0; k < nrhs; k++) for (int i = 0; i < n; i++) bm[k * ldb + i] = L2S(Bin[k * NMAX + i]);
    SuperMatrix B, X; XCreate_Dense_Matrix(&B, n, nrhs, bm, ldb, SLU_DN, SLU_DT, SLU_GE); XCreate_Dense_Matrix(&X, n, nrhs, xm, ldx, SLU_DN, SLU_DT, SLU_GE);
    st->opt.nprocs = c->nprocs; st->opt.fact = fact; st->opt.trans = c->trans; st->opt.refact = NO; st->opt.panel_size = c->w; st->opt.relax = c->relax;
    st->opt.diag_pivot_thresh = c->u; st->opt.drop_tol = 0; st->opt.usepr = NO; st->opt.SymmetricMode = NO; st->opt.PrintStat = NO; st->opt.work = NULL; st->opt.lwork = 0;
    superlu_memusage_t mu; int_t info = -999; real_t rpg = -1, rcond = -1;
    /* equed, R, C are OUTPUTS unless fact = FACTORED: enter with stale values, as a caller who reuses the variables of an earlier call does
       (added after seeded change C07/3 was missed) */
    if (fact != FACTORED) { st->equed = (equed_t)(1 + (int)((c->bits + (unsigned)c->salt + (unsigned)c->scal) % 3)); for (int i = 0; i < n; i++) { st->R[i] = (real_t)7; st->C[i] = (real_t)0.125; } }
    vf_xerbla_calls = 0;
    long heap0_ = vf_nlive, bytes0_ = vf_live_bytes;
    pXgssvx(c->nprocs, &st->opt, &st->am.A, st->perm_c, st->perm_r, &st->equed, st->R, st->C, &st->L, &st->U, &B, &X, &rpg, &rcond, r->ferr, r->berr, &mu, &info);
    r->info = (int)info; r->equed = st->equed; r->rpg = rpg; r->rcond = rcond;
    r->leak = (int)(vf_nlive - heap0_); r->leak_bytes = (long)(vf_live_bytes - bytes0_);
    r->xerbla_calls = vf_xerbla_calls; r->xerbla_info = vf_xerbla_info; snprintf(r->xerbla_name, sizeof r->xerbla_name, "%s", vf_xerbla_name);
    for (int i = 0; i < n; i++) { r->R[i] = st->R[i]; r->C[i] = st->C[i]; r->perm_r[i] = st->perm_r[i]; r->perm_c[i] = st->perm_c[i]; }
    /* A as left by the call (dense, from the live arrays) */
    for (int i = 0; i < n; i++) for (int j = 0; j < n; j++) r->Aout[i][j] = 0;
    if (!st->am.is_nr) { for (int j = 0; j < n; j++) for (int k = st->am.ptr[j]; k < st->am.ptr[j + 1]; k++) r->Aout[st->am.ind[k]][j] = S2L(st->am.val[k]); }
    else { for (int i = 0; i < n; i++) for (int k = st->am.ptr[i]; k < st->am.ptr[i + 1]; k++) r->Aout[i][st->am.ind[k]] = S2L(st->am.val[k]); }
    for (int k = 0; k < nrhs; k++) for (int i = 0; i < n; i++) { r->Bout[k * NMAX + i] = S2L(bm[k * ldb + i]); r->X[k * NMAX + i] = S2L(xm[k * ldx + i]); }
    for (int k = 0; k < nrhs; k++) {
        for (int i = n; i < ldb; i++) { unsigned char *p = (unsigned char *)&bm[k * ldb + i]; for (size_t q = 0; q < sizeof(scalar_t); q++) if (p[q] != 0x33) r->pad_b_touched = 1; }
        for (int i = n; i < ldx; i++) { unsigned char *p = (unsigned char *)&xm[k * ldx + i]; for (size_t q = 0; q < sizeof(scalar_t); q++) if (p[q] != 0x55) r->pad_x_touched = 1; }
    }
    st->have_lu = (info >= 0 && info <= n + 1 && st->L.Store && st->U.Store && !(info > 0 && info <= n));
    if (st->have_lu) r->wf = wellformed(&st->L, &st->U, st->perm_r, st->perm_c, n, r->Ld, r->Ud, r->wfmsg, sizeof r->wfmsg); else r->wf = -1;
    Destroy_SuperMatrix_Store(&B); Destroy_SuperMatrix_Store(&X); free(bm); free(xm);
}

/* Reference solve M x = b in quad precision (__float128, 113-bit mantissa): Gaussian elimination with partial pivoting and
   three refinement sweeps.  Used for the "exact solution" of C13; long double is not enough for cond ~ 1e13. */
typedef __float128 qd; typedef _Complex float __attribute__((mode(TC))) qdc;
static qdc L2Q(ldc v) { return (qd)creall(v) + (qd)cimagl(v) * 1.0i; }
static ldc Q2L(qdc v) { return (ld)__real__ v + (ld)__imag__ v * 1.0iL; }
static qd qabs1(qdc v) { qd a = __real__ v, b = __imag__ v; if (a < 0) a = -a; if (b < 0) b = -b; return a + b; }
static int ref_solve(const ldc M[NMAX][NMAX], int n, const ldc *b, ldc *x) {
    qdc W[NMAX][NMAX], MQ[NMAX][NMAX], y[NMAX], xq[NMAX]; int piv[NMAX];
    for (int i = 0; i < n; i++) for (int j = 0; j < n; j++) MQ[i][j] = W[i][j] = L2Q(M[i][j]);
    for (int k = 0; k < n; k++) {
        int p = k; qd best = qabs1(W[k][k]); for (int i = k + 1; i < n; i++) if (qabs1(W[i][k]) > best) { best = qabs1(W[i][k]); p = i; }
        if (best == 0) return 1; piv[k] = p;
        if (p != k) for (int j = 0; j < n; j++) { qdc t = W[k][j]; W[k][j] = W[p][j]; W[p][j] = t; }
        for (int i = k + 1; i < n; i++) if (qabs1(W[i][k]) != 0) { qdc l = W[i][k] / W[k][k]; W[i][k] = l; for (int j = k + 1; j < n; j++) W[i][j] -= l * W[k][j]; }
    }
    for (int i = 0; i < n; i++) xq[i] = 0;
    for (int sweep = 0; sweep < 3; sweep++) {
        for (int i = 0; i < n; i++) { qdc s = L2Q(b[i]); for (int j = 0; j < n; j++) s -= MQ[i][j] * xq[j]; y[i] = s; }
        for (int k = 0; k < n; k++) if (piv[k] != k) { qdc t = y[k]; y[k] = y[piv[k]]; y[piv[k]] = t; }     /* all interchanges first: the multipliers were swapped with their rows */
        for (int k = 0; k < n; k++) for (int i = k + 1; i < n; i++) y[i] -= W[i][k] * y[k];
        for (int i = n - 1; i >= 0; i--) { qdc s = y[i]; for (int j = i + 1; j < n; j++) s -= W[i][j] * y[j]; y[i] = s / W[i][i]; }
        for (int i = 0; i < n; i++) xq[i] += y[i];
    }
    for (int i = 0; i < n; i++) x[i] = Q2L(xq[i]);
    return 0;
}
/* op(A) as dense */
static void op_matrix(const ldc A[NMAX][NMAX], int n, int trans, ldc M[NMAX][NMAX]) {
    for (int i = 0; i < n; i++) for (int j = 0; j < n; j++) M[i][j] = trans == NOTRANS ? A[i][j] : trans == TRANS ? A[j][i] : conjl(A[j][i]);
}
static ld ulp_rel(ld a, ld b) { ld d = fabsl(a - b), m = fabsl(a) > fabsl(b) ? fabsl(a) : fabsl(b); return m > 0 ? d / (m * EPSM) : 0; }
/* the same with LAPACK's complex magnitude convention CABS1 = |re|+|im| (what ?gsrfs reports as berr) */
static ld cw_backward_error_abs1(const ldc M[NMAX][NMAX], int n, const ldc *x, const ldc *b) {
    ld w = 0;
    for (int i = 0; i < n; i++) { ldc s = 0; ld den = PIVABS(b[i]); for (int j = 0; j < n; j++) { s += M[i][j] * x[j]; den += PIVABS(M[i][j]) * PIVABS(x[j]); } ld r = PIVABS(b[i] - s); if (den > 0) { if (r / den > w) w = r / den; } else if (r > 0) w = INFINITY; }
    return w;
}
static ld cw_backward_error(const ldc M[NMAX][NMAX], int n, const ldc *x, const ldc *b) {
    ld w = 0;
    for (int i = 0; i < n; i++) { ldc s = 0; ld den = ABSL(b[i]); for (int j = 0; j < n; j++) { s += M[i][j] * x[j]; den += ABSL(M[i][j]) * ABSL(x[j]); } ld r = ABSL(b[i] - s); if (den > 0) { if (r / den > w) w = r / den; } else if (r > 0) w = INFINITY; }
    return w;
}

/* row-wise backward error  max_i |b - Mx|_i / (||M_i,:||_1 ||x||_inf + |b_i|): unlike the componentwise measure it stays meaningful when the
   exact solution has zero components (a computed 1e-32 in place of an exact 0 makes the componentwise ratio 1 in a row  m_ij x_j = 0) */
static ld row_backward_error(const ldc M[NMAX][NMAX], int n, const ldc *x, const ldc *b) {
    ld w = 0, xn = 0; for (int j = 0; j < n; j++) if (ABSL(x[j]) > xn) xn = ABSL(x[j]);
    for (int i = 0; i < n; i++) { ldc s = 0; ld rn = 0; for (int j = 0; j < n; j++) { s += M[i][j] * x[j]; rn += ABSL(M[i][j]); } ld den = rn * xn + ABSL(b[i]), r = ABSL(b[i] - s); if (den > 0) { if (r / den > w) w = r / den; } else if (r > 0) w = INFINITY; }
    return w;
}
/* is the componentwise measure degenerate for (M,x,b)?  some row has |M||x|+|b| far below its row-wise scale, or below LAPACK's safe2 */
static int cw_degenerate(const ldc M[NMAX][NMAX], int n, const ldc *x, const ldc *b) {
    ld xn = 0; for (int j = 0; j < n; j++) if (ABSL(x[j]) > xn) xn = ABSL(x[j]);
    ld safe2 = (ld)(n + 1) * (ld)XLAMCH("S") / EPSM;
    for (int i = 0; i < n; i++) { ld den = ABSL(b[i]), rn = 0; for (int j = 0; j < n; j++) { den += ABSL(M[i][j]) * ABSL(x[j]); rn += ABSL(M[i][j]); } if (den <= safe2 * 4 || den < 1e3L * EPSM * rn * xn) return 1; }
    return 0;
}

/* ------------------------------------------------------------------ judge one case (all four properties share the run) */
static void run_case(const xcase_t *c)
{
    static tmat_t T; static xstate_t st; static xres_t r0, r; char cs[500]; xcase_str(c, cs, sizeof cs);
    int n = c->n;
    G->cfg_no++; if (G->resume_cfg && G->cfg_no <= G->resume_cfg) return;
    if (vf_sh) snprintf((char *)vf_sh->note, sizeof vf_sh->note, "%s", cs);
    build_matrix(c, &T);
    ldc A0[NMAX][NMAX], inv0[NMAX][NMAX]; tm_to_dense(&T, A0);
    ld mpr; if (ref_inverse(A0, n, inv0, &mpr)) { G->skipped++; return; }      /* singular: C06's business */
    ld cond1 = ref_norm1(A0, n) * ref_norm1(inv0, n);
    vf_ienv[1] = c->w; vf_ienv[2] = c->relax; vf_ienv[3] = 4; vf_ienv[4] = 200; vf_ienv[5] = 100; vf_ienv[6] = vf_ienv[7] = -50; vf_ienv[8] = -30;
    unsetenv("SuperLU_DYNAMIC_SNODE_STORE");
    long live0 = vf_nlive;
    memset(&st, 0, sizeof st);
    am_build(&st.am, &T, c->as_nr);
    st.opt.etree = intMalloc(n); st.opt.colcnt_h = intMalloc(n); st.opt.part_super_h = intMalloc(n);
    get_perm_c(c->ord, &st.am.A, st.perm_c);
    long live1 = vf_nlive, seq1 = vf_alloc_calls;      /* C17: what is live before the driver is entered (get_perm_c's own known leak stays outside) */
    for (int i = 0; i < n; i++) { st.R[i] = st.C[i] = (real_t)-7; }
    int nrhs = c->nrhs, ldb = n + c->ldb_extra, ldx = n + c->ldx_extra; if (ldb < 1) ldb = 1; if (ldx < 1) ldx = 1;
    /* exact solution and right-hand side: B = op(A) * xtrue, rounded to working precision */
    ldc M0[NMAX][NMAX]; op_matrix(A0, n, c->trans, M0);
    ldc xt[3 * NMAX], B[3 * NMAX];
    /* the second right-hand side has exact zeros in its solution (a decoupled unknown then stays exactly 0 through refinement) */
    for (int k = 0; k < nrhs; k++) for (int i = 0; i < n; i++) xt[k * NMAX + i] = (k == 1) ? (ld)((i + 2) % 3) : (ld)(1 + ((i + 2 * k) % 3)) - (IS_COMPLEX ? 0.5L * ((i + k) % 2) * 1.0iL : 0);
    for (int k = 0; k < nrhs; k++) for (int i = 0; i < n; i++) { ldc s = 0; for (int j = 0; j < n; j++) s += M0[i][j] * xt[k * NMAX + j]; B[k * NMAX + i] = S2L(L2S(s)); }

    xres_t *res = &r;
    int fact = c->fact;
    if (fact == FACTORED) {
        /* a first call produces the factors (and possibly equilibrates A in place); the call under test reuses them */
        call_gssvx(c, &st, c->fact0, B, nrhs, ldb, ldx, &r0);
        if (!(r0.info == 0 || r0.info == n + 1) || r0.wf != 0) { G->skipped++; goto cleanup; }
    }
    /* snapshot of what the library is given for the call under test */
    ldc Ain[NMAX][NMAX];
    for (int i = 0; i < n; i++) for (int j = 0; j < n; j++) Ain[i][j] = (fact == FACTORED) ? r0.Aout[i][j] : A0[i][j];
    int equed_in = (fact == FACTORED) ? r0.equed : NOEQUIL;
    ldc B2[3 * NMAX]; memcpy(B2, B, sizeof B2);
    if (fact == FACTORED) for (int k = 0; k < nrhs; k++) for (int i = 0; i < n; i++) { /* a fresh right-hand side for the second call */
        ldc s = 0; for (int j = 0; j < n; j++) s += M0[i][j] * (xt[k * NMAX + j] * (ld)(1 + k) + (ld)0.5); B2[k * NMAX + i] = S2L(L2S(s)); }
    unsigned char lu_ck0 = 0; (void)lu_ck0;
    call_gssvx(c, &st, fact, B2, nrhs, ldb, ldx, res);
    G->runs++;
    { unsigned long long h = 1469598103934665603ULL; h = hmix(h, c->bits * 31 + c->n); h = hmix(h, c->scal * 7 + c->graded); h = hmix(h, res->info); h = hmix(h, res->equed * 5 + c->trans * 3 + c->as_nr); for (int i = 0; i < n; i++) h = hmix(h, res->perm_r[i] * 17 + res->perm_c[i]); note_distinct(h); }
    if (G->samples_left > 0 && T.nnz > n) { G->samples_left--; out_sample(PROP, "%s -> info=%d equed=%d rcond=%.3g rpg=%.3g berr0=%.3g ferr0=%.3g", cs, res->info, res->equed, (double)res->rcond, (double)res->rpg, nrhs ? (double)res->berr[0] : 0.0, nrhs ? (double)res->ferr[0] : 0.0); }

    /* what the equed flag says about R and C */
    int rowequ = res->equed == ROW || res->equed == BOTH, colequ = res->equed == COL || res->equed == BOTH;
    /* NOTE on orientation: for row-wise input the driver works on A^T stored column-wise; R then scales what the CALLER sees as
       columns.  The statement is phrased for the caller's A:  A_out = diag(Rr)^a A_in diag(Cc)^b  with (Rr,Cc) = (R,C) for NC and (C,R) for NR. */
    const real_t *Rr = c->as_nr ? res->C : res->R, *Cc = c->as_nr ? res->R : res->C;
    int a_row = c->as_nr ? colequ : rowequ, a_col = c->as_nr ? rowequ : colequ;
    ld growth = 1;
    if (res->wf == 0) { ld ma = 0, ms = 0; for (int i = 0; i < n; i++) for (int j = 0; j < n; j++) { ld S = 0; for (int k = 0; k <= (i < j ? i : j); k++) S += ABSL(res->Ld[i][k]) * ABSL(res->Ud[k][j]); if (S > ms) ms = S; if (ABSL(res->Aout[i][j]) > ma) ma = ABSL(res->Aout[i][j]); } if (ma > 0) growth = ms / ma; }
    /* condition of the matrix actually factored (after equilibration) */
    ldc invs[NMAX][NMAX]; ld conds = INFINITY; int sing_s = ref_inverse(res->Aout, n, invs, &mpr);
    if (!sing_s) conds = ref_norm1(res->Aout, n) * ref_norm1(invs, n);
    int wellcond = (!sing_s && conds * growth * n * EPSM <= 1e-3L);

    if (!strcmp(PROP, "C07")) {
        G->judged++;
        /* threshold 0 with a forced tiny first pivot (scal 6): elimination without pivoting is unstable by design, multipliers of 2^50 can cancel a later
           pivot to EXACTLY zero in working precision; 0 < info <= n is then a truthful report, not judged (false alarm of the first thorough run) */
        if (c->scal == 6 && c->u == 0.0 && res->info > 0 && res->info <= n) { G->skipped++; goto cleanup; }
        if (!(res->info == 0 || res->info == n + 1)) { char sig[64]; snprintf(sig, sizeof sig, "C07:info:tr=%d", c->trans); viol(sig, cs, "nonsingular input (cond1=%.3Lg) but info=%d (xerbla calls=%d last=%s/%d)", cond1, res->info, res->xerbla_calls, res->xerbla_name, res->xerbla_info); goto cleanup; }
        if (res->xerbla_calls) { char sig[96]; snprintf(sig, sizeof sig, "C07:inner-error:%s:tr=%d", res->xerbla_name, c->trans); viol(sig, cs, "legal call, but the error handler was invoked by %s (argument %d) and the driver returned info=%d", res->xerbla_name, res->xerbla_info, res->info); }
        /* A_out and B_out are A_in and B_in scaled as the flag and the vectors say */
        if (fact != FACTORED) {
            for (int i = 0; i < n; i++) for (int j = 0; j < n; j++) {
                ldc e = Ain[i][j] * (a_row ? (ld)Rr[i] : 1) * (a_col ? (ld)Cc[j] : 1);
                if (!(a_row || a_col)) { scalar_t x1 = L2S(Ain[i][j]), x2 = L2S(res->Aout[i][j]); if (memcmp(&x1, &x2, sizeof x1)) { viol("C07:A-changed-without-equed", cs, "equed=NOEQUIL but A(%d,%d) changed", i, j); i = n; break; } }
                else if (ABSL(res->Aout[i][j] - e) > 3 * EPSM * ABSL(e)) { viol("C07:A-scaling", cs, "A_out(%d,%d)=%.6Lg but flag equed=%d says %.6Lg", i, j, creall(res->Aout[i][j]), res->equed, creall(e)); i = n; break; }
            }
        } else {
            for (int i = 0; i < n; i++) for (int j = 0; j < n; j++) { scalar_t x1 = L2S(Ain[i][j]), x2 = L2S(res->Aout[i][j]); if (memcmp(&x1, &x2, sizeof x1)) { viol("C07:A-changed-with-FACTORED", cs, "fact=FACTORED but A(%d,%d) changed", i, j); i = n; break; } }
            if (res->equed != equed_in) viol("C07:equed-changed-with-FACTORED", cs, "equed %d -> %d", equed_in, res->equed);
        }
        /* B is scaled by the factor matching the system solved: rows of op(A) */
        for (int k = 0; k < nrhs; k++) for (int i = 0; i < n; i++) {
            int notran_eff = (c->trans == NOTRANS) != (c->as_nr != 0);        /* the driver's internal orientation */
            ld f = notran_eff ? (rowequ ? (ld)res->R[i] : 1) : (colequ ? (ld)res->C[i] : 1);
            ldc e = B2[k * NMAX + i] * f;
            if (f == 1) { scalar_t x1 = L2S(B2[k * NMAX + i]), x2 = L2S(res->Bout[k * NMAX + i]); if (memcmp(&x1, &x2, sizeof x1)) { viol("C07:B-changed", cs, "B(%d,%d) changed although no scaling applies to it (equed=%d)", i, k, res->equed); k = nrhs; break; } }
            else if (ABSL(res->Bout[k * NMAX + i] - e) > 3 * EPSM * ABSL(e)) { viol("C07:B-scaling", cs, "B_out(%d,%d)=%.6Lg, expected B_in*%.6Lg=%.6Lg (equed=%d)", i, k, creall(res->Bout[k * NMAX + i]), f, creall(e), res->equed); k = nrhs; break; }
        }
        if (res->pad_b_touched || res->pad_x_touched) viol("C07:padding", cs, "rows beyond n of %s were written (ldb=%d ldx=%d)", res->pad_b_touched ? "B" : "X", ldb, ldx);
        /* X solves the ORIGINAL system op(A0) X = B */
        if (fact == FACTORED) {   /* original system of the second call: op(A_unscaled) x = B2, where A_unscaled is the caller's first matrix */ }
        for (int k = 0; k < nrhs; k++) {
            ld w = cw_degenerate(M0, n, &res->X[k * NMAX], &B2[k * NMAX]) ? row_backward_error(M0, n, &res->X[k * NMAX], &B2[k * NMAX]) : cw_backward_error(M0, n, &res->X[k * NMAX], &B2[k * NMAX]);
            ld allow = wellcond ? 8 * (n + 1) * EPSM * (IS_COMPLEX ? 3 : 1) : GAMMA(3 * n) * (growth > 1 ? growth : 1) * 16 + 8 * (n + 1) * EPSM;
            if (!(w <= allow)) { char sig[96]; if (IS_COMPLEX && c->trans == CONJ) snprintf(sig, sizeof sig, "C07:solution:tr=2"); else snprintf(sig, sizeof sig, "C07:solution:tr=%d:nr=%d:fact=%d:equed=%d", c->trans, c->as_nr, fact, res->equed); viol(sig, cs, "rhs %d: componentwise backward error %.3Le of the returned X for the original system exceeds %.3Le (cond=%.3Lg growth=%.3Lg)", k, w, allow, conds, growth);
                if (getenv("VF_DUMP")) for (int i = 0; i < n; i++) fprintf(stderr, "i=%d X=%.17Lg xt=%.17Lg b=%.17Lg berr=%g\n", i, creall(res->X[k*NMAX+i]), creall(xt[k*NMAX+i]), creall(B2[k*NMAX+i]), (double)res->berr[k]); break; }
        }
        if (!wellcond) G->illcond++;
    }
    else if (!strcmp(PROP, "C17")) {
        /* the expert driver called again with fact = FACTORED (added after seeded change C17-6 was missed: the temporary column view of a row-stored A was released
           only when the call also factorizes): such a call creates nothing that outlives it, so the heap balance over the call is zero */
        G->judged++;
        if (fact == FACTORED && (res->leak != 0 || res->leak_bytes != 0)) { char sig[96], d[200]; vf_live_since(seq1, d, sizeof d); snprintf(sig, sizeof sig, "C17:leak:gssvx:FACTORED-call:%s", c->as_nr ? "row-stored" : "col-stored");
            viol(sig, cs, "a call with fact=FACTORED (info=%d) left %d more blocks (%ld bytes) allocated than it found: %s", res->info, res->leak, res->leak_bytes, d); }
    }
    else if (!strcmp(PROP, "C11")) {
        /* driver wiring of the equilibration: computed factors agree with the reference, the apply rule is the documented one */
        if (fact != EQUILIBRATE) { G->skipped++; goto cleanup; }
        G->judged++;
        /* the matrix the driver equilibrates is AA = A (NC) or A^T (NR); reference on that matrix */
        ldc AA[NMAX][NMAX]; for (int i = 0; i < n; i++) for (int j = 0; j < n; j++) AA[i][j] = c->as_nr ? A0[j][i] : A0[i][j];
        ld sml = (ld)XLAMCH("S"), big = 1 / sml, Rref[NMAX], Cref[NMAX], rmin = big, rmax = 0, cmin = big, cmax = 0; int zr = -1, zc = -1;
        for (int i = 0; i < n; i++) { ld m = 0; for (int j = 0; j < n; j++) if (PIVABS(AA[i][j]) > m) m = PIVABS(AA[i][j]); if (m > rmax) rmax = m; if (m < rmin) rmin = m; if (m == 0 && zr < 0) zr = i; Rref[i] = m; }
        ld amax = rmax;
        if (zr >= 0) { G->skipped++; goto cleanup; }
        for (int i = 0; i < n; i++) Rref[i] = 1 / fminl(fmaxl(Rref[i], sml), big);
        ld rowcnd = fmaxl(rmin, sml) / fminl(rmax, big);
        for (int j = 0; j < n; j++) { ld m = 0; for (int i = 0; i < n; i++) { ld v = PIVABS(AA[i][j]) * (ld)(real_t)Rref[i]; if (v > m) m = v; } if (m > cmax) cmax = m; if (m < cmin) cmin = m; if (m == 0 && zc < 0) zc = j; Cref[j] = m; }
        if (zc >= 0) { G->skipped++; goto cleanup; }
        for (int j = 0; j < n; j++) Cref[j] = 1 / fminl(fmaxl(Cref[j], sml), big);
        ld colcnd = fmaxl(cmin, sml) / fminl(cmax, big);
        ld small = (ld)XLAMCH("S") / (ld)XLAMCH("P"), large = 1 / small;
        int exp_equed; int rowsc = !(rowcnd >= 0.1L && amax >= small && amax <= large);
        /* tie band: thresholds within a few ulps are not judged */
        int near = fabsl(rowcnd - 0.1L) < 8 * EPSM || fabsl(colcnd - 0.1L) < 8 * EPSM || ulp_rel(amax, small) < 8 || ulp_rel(amax, large) < 8;
        exp_equed = rowsc ? (colcnd >= 0.1L ? ROW : BOTH) : (colcnd >= 0.1L ? NOEQUIL : COL);
        if (!near && res->equed != exp_equed) { char sig[64]; snprintf(sig, sizeof sig, "C11:driver:apply-rule:expected=%d", exp_equed); viol(sig, cs, "equed=%d but the documented thresholds give %d (rowcnd=%.4Lg colcnd=%.4Lg amax=%.4Lg small=%.4Lg large=%.4Lg)", res->equed, exp_equed, rowcnd, colcnd, amax, small, large); }
        for (int i = 0; i < n; i++) {
            if (!(res->R[i] > 0) || !isfinite((double)res->R[i]) || !(res->C[i] > 0) || !isfinite((double)res->C[i])) { viol("C11:driver:factor-sign", cs, "R[%d]=%g C[%d]=%g not finite positive", i, (double)res->R[i], i, (double)res->C[i]); break; }
            if (ulp_rel((ld)res->R[i], Rref[i]) > 4 || ulp_rel((ld)res->C[i], Cref[i]) > 8) { viol("C11:driver:factors", cs, "R[%d]=%.9g (reference %.9Lg)  C[%d]=%.9g (reference %.9Lg)", i, (double)res->R[i], Rref[i], i, (double)res->C[i], Cref[i]); break; }
        }
        /* A_out = R^a AA C^b on the driver's matrix; with flag none bit-identical */
        for (int i = 0; i < n; i++) for (int j = 0; j < n; j++) {
            ldc ao = c->as_nr ? res->Aout[j][i] : res->Aout[i][j];
            if (!rowequ && !colequ) { scalar_t x1 = L2S(AA[i][j]), x2 = L2S(ao); if (memcmp(&x1, &x2, sizeof x1)) { viol("C11:driver:A-not-identical", cs, "flag none but A changed at (%d,%d)", i, j); i = n; break; } }
            else { ldc e = AA[i][j] * (rowequ ? (ld)res->R[i] : 1) * (colequ ? (ld)res->C[j] : 1); if (ABSL(ao - e) > 3 * EPSM * ABSL(e)) { viol("C11:driver:A-scaling", cs, "A_out(%d,%d) does not equal R^a A C^b for equed=%d", i, j, res->equed); i = n; break; } }
        }
        int notran_eff = (c->trans == NOTRANS) != (c->as_nr != 0);
        for (int k = 0; k < nrhs; k++) for (int i = 0; i < n; i++) {
            ld f = notran_eff ? (rowequ ? (ld)res->R[i] : 1) : (colequ ? (ld)res->C[i] : 1); ldc e = B2[k * NMAX + i] * f;
            if (f == 1) { scalar_t x1 = L2S(B2[k * NMAX + i]), x2 = L2S(res->Bout[k * NMAX + i]); if (memcmp(&x1, &x2, sizeof x1)) { viol("C11:driver:B-not-identical", cs, "B(%d,%d) changed though its scale factor is 1", i, k); k = nrhs; break; } }
            else if (ABSL(res->Bout[k * NMAX + i] - e) > 3 * EPSM * ABSL(e)) { viol("C11:driver:B-scaling", cs, "B_out(%d,%d) is not B_in times the matching factor", i, k); k = nrhs; break; }
        }
        if (res->pad_b_touched) viol("C11:driver:B-padding", cs, "rows of B beyond n were scaled (ldb=%d)", ldb);
    }
    else if (!strcmp(PROP, "C12")) {
        if (!(res->info == 0 || res->info == n + 1) || res->wf != 0 || sing_s) { G->skipped++; goto cleanup; }
        if (!(conds <= 1e-3L / EPSM) || !(c->u >= 0.1)) { G->skipped++; G->illcond++; goto cleanup; }
        G->judged++;
        /* the norm: 1-norm of the caller's (equilibrated) A when A X = B is solved, infinity-norm for the transposed system */
        int use_one = (c->trans == NOTRANS);
        ld anorm = use_one ? ref_norm1(res->Aout, n) : ref_norminf(res->Aout, n), inorm = use_one ? ref_norm1(invs, n) : ref_norminf(invs, n);
        /* || inv(A) e/n || in the same norm family (Hager's starting vector) */
        ld first = 0;
        if (use_one) { for (int i = 0; i < n; i++) { ldc s = 0; for (int j = 0; j < n; j++) s += invs[i][j] / n; first += ABSL(s); } }
        else { /* the estimator then runs on A^T (1-norm of inv(A)^T): || inv(A)^T e/n ||_1 */ for (int j = 0; j < n; j++) { ldc s = 0; for (int i = 0; i < n; i++) s += invs[i][j] / n; first += ABSL(s); } }
        ld lo = 1 / (anorm * inorm), hi = 1 / (anorm * first), tol = 64 * n * EPSM * (conds > 1 ? conds : 1) + 1e-3L;
        if (!((ld)res->rcond >= lo * (1 - tol))) { char sig[64]; snprintf(sig, sizeof sig, "C12:rcond-low"); viol(sig, cs, "rcond=%.6g below 1/(|A||inv A|)=%.6Lg (norm %s, cond %.3Lg)", (double)res->rcond, lo, use_one ? "1" : "inf", conds); }
        if (!((ld)res->rcond <= hi * (1 + tol))) { char sig[64]; snprintf(sig, sizeof sig, "C12:rcond-high"); viol(sig, cs, "rcond=%.6g above 1/(|A||inv(A)e/n|)=%.6Lg (norm %s)", (double)res->rcond, hi, use_one ? "1" : "inf"); }
        int below = (ld)res->rcond < EPSM;
        if (below != (res->info == n + 1)) viol("C12:info-n+1", cs, "rcond=%.3g, eps=%.3Lg but info=%d", (double)res->rcond, EPSM, res->info);
        if (res->info == n + 1 && nrhs > 0) { int untouched = 1; scalar_t s = L2S(res->X[0]); unsigned char *p = (unsigned char *)&s; for (size_t q = 0; q < sizeof s; q++) if (p[q] != 0x55) untouched = 0; if (untouched) viol("C12:no-solution-at-n+1", cs, "info=n+1 but X was not computed"); }
        /* reciprocal pivot growth recomputed from the returned factors: min_j max_i|A_ij| / max_i|U_ij|, columns in Pc order, A after equilibration, in the driver's orientation */
        ld rpg = 1 / (ld)XLAMCH("S");
        for (int j = 0; j < n; j++) { int oc = -1; for (int q = 0; q < n; q++) if (res->perm_c[q] == j) oc = q; ld ma = 0, mu = 0;
            for (int i = 0; i < n; i++) { ldc a = c->as_nr ? res->Aout[oc][i] : res->Aout[i][oc]; if (PIVABS(a) > ma) ma = PIVABS(a); if (PIVABS(res->Ud[i][j]) > mu) mu = PIVABS(res->Ud[i][j]); }
            ld q = mu == 0 ? 1 : ma / mu; if (q < rpg) rpg = q; }
        if (ulp_rel((ld)res->rpg, rpg) > 8) viol("C12:pivot-growth", cs, "recip_pivot_growth=%.9g but min_j max|A_j|/max|U_j| from the returned factors is %.9Lg", (double)res->rpg, rpg);
    }
    else if (!strcmp(PROP, "C13")) {
        if (!(res->info == 0 || res->info == n + 1) || res->wf != 0 || sing_s || nrhs == 0) { G->skipped++; goto cleanup; }
        G->judged++;
        /* refinement works on the equilibrated system  op(As) Xs = Bs ; Xs = X un-mapped */
        ldc Ms[NMAX][NMAX]; op_matrix(res->Aout, n, c->trans, Ms);
        int notran_eff = (c->trans == NOTRANS) != (c->as_nr != 0);
        for (int k = 0; k < nrhs; k++) {
            ldc xs[NMAX], bs[NMAX]; ld xnorm = 0, err = 0;
            for (int i = 0; i < n; i++) { ld f = notran_eff ? (colequ ? (ld)res->C[i] : 1) : (rowequ ? (ld)res->R[i] : 1); xs[i] = res->X[k * NMAX + i] / f; bs[i] = res->Bout[k * NMAX + i]; }
            if (cw_degenerate(Ms, n, xs, bs)) { G->skipped++; continue; }      /* componentwise backward error not meaningful (exact zeros / underflow range) */
            ld w = cw_backward_error_abs1(Ms, n, xs, bs);
            ld slackb = 4 * (n + 2) * EPSM * (IS_COMPLEX ? 3 : 1);
            if (fabsl((ld)res->berr[k] - w) > slackb + 0.02L * w) { char sig[64]; snprintf(sig, sizeof sig, "C13:berr-untruthful:tr=%d", c->trans); viol(sig, cs, "rhs %d: returned berr=%.4g but the componentwise backward error of the returned X is %.4Lg", k, (double)res->berr[k], w);
                if (getenv("VF_DUMP")) { for (int i = 0; i < n; i++) fprintf(stderr, "i=%d X=%.17Lg xs=%.17Lg bs=%.17Lg\n", i, creall(res->X[k*NMAX+i]), creall(xs[i]), creall(bs[i])); for (int i = 0; i < n; i++) for (int j = 0; j < n; j++) fprintf(stderr, "Ms[%d][%d]=%.17Lg\n", i, j, creall(Ms[i][j])); } }
            if (conds < 1 / sqrtl(EPSM) && c->u >= 0.1 && !((ld)res->berr[k] <= 4 * (n + 1) * EPSM * (IS_COMPLEX ? 3 : 1))) { { char sg[48]; snprintf(sg, sizeof sg, "C13:berr-large:tr=%d", c->trans); viol(sg, cs, "rhs %d: berr=%.4g although cond=%.3Lg < 1/sqrt(eps)", k, (double)res->berr[k], conds); } }
            if (conds < 0.1L / EPSM && cond1 < 0.1L / EPSM && c->u >= 0.1) {
                /* exact solution of the scaled system in long double */
                /* the exact solution is that of the caller's ORIGINAL system op(A) x = b (quad precision); solving the rounded, scaled
                   system and mapping back is NOT the same problem to the accuracy needed here */
                ldc xsol[NMAX];
                if (!ref_solve(M0, n, &B2[k * NMAX], xsol)) {
                    for (int i = 0; i < n; i++) { ld d = ABSL(res->X[k * NMAX + i] - xsol[i]); if (d > err) err = d; if (ABSL(res->X[k * NMAX + i]) > xnorm) xnorm = ABSL(res->X[k * NMAX + i]); }
                    if (xnorm > 0 && !(err / xnorm <= 40 * (ld)res->ferr[k] + 4 * n * EPSM)) { char sig[64]; snprintf(sig, sizeof sig, "C13:ferr-not-dominating:tr=%d", c->trans); viol(sig, cs, "rhs %d: true relative error %.4Lg exceeds 40*ferr with ferr=%.4g (cond=%.3Lg)", k, err / xnorm, (double)res->ferr[k], conds);
                        if (getenv("VF_DUMP")) for (int i = 0; i < n; i++) fprintf(stderr, "i=%d X=%.17Lg xsol=%.17Lg xt=%.17Lg b=%.17Lg\n", i, creall(res->X[k*NMAX+i]), creall(xsol[i]), creall(xt[k*NMAX+i]), creall(B2[k*NMAX+i])); }
                }
            }
        }
    }
cleanup:
    if (st.have_lu) { Destroy_SuperNode_SCP(&st.L); Destroy_CompCol_NCP(&st.U); }
    if (!strcmp(PROP, "C17") && vf_nlive != live1) { char d[200]; vf_live_since(seq1, d, sizeof d); viol(c->as_nr ? "C17:leak:gssvx:after-destroy:row-stored" : "C17:leak:gssvx:after-destroy:col-stored", cs, "%ld blocks still allocated after destroying L and U: %s", vf_nlive - live1, d); }
    SUPERLU_FREE(st.opt.etree); SUPERLU_FREE(st.opt.colcnt_h); SUPERLU_FREE(st.opt.part_super_h);
    am_free(&st.am);
    (void)live0;
}

/* ------------------------------------------------------------------ C11: direct calls of ?gsequ / ?laqgs over the exponent alphabet */
static ld alpha_value(int k) {
    int big = sizeof(real_t) == 4 ? 120 : 1000, mid = sizeof(real_t) == 4 ? 60 : 500;
    switch (k) { case 0: return 0; case 1: return ldexpl(1, -big); case 2: return ldexpl(1, -mid); case 3: return 1; case 4: return 3; case 5: return ldexpl(1, mid); case 6: return ldexpl(1, big);
    case 7: return sizeof(real_t) == 4 ? (ld)FLT_MAX / 4 : (ld)DBL_MAX / 4; case 8: return sizeof(real_t) == 4 ? (ld)FLT_MIN / 64 : (ld)DBL_MIN / 64; default: return -2.5L; }
}
#define NALPHA 10
static void equ_case(long idx, int m, int n) {
    /* idx encodes the m*n entries in base NALPHA */
    char cs[200]; snprintf(cs, sizeof cs, "equ m=%d n=%d idx=%ld", m, n, idx);
    if (vf_sh) snprintf((char *)vf_sh->note, sizeof vf_sh->note, "%s", cs);
    int pat[NMAX][NMAX]; ldc D[NMAX][NMAX]; long q = idx; memset(pat, 0, sizeof pat);
    for (int i = 0; i < m; i++) for (int j = 0; j < n; j++) { int k = (int)(q % NALPHA); q /= NALPHA; ld v = alpha_value(k); pat[i][j] = 1; D[i][j] = (IS_COMPLEX && k == 4) ? 3 + 4.0iL : v; D[i][j] = S2L(L2S(D[i][j])); }
    static tmat_t T; tm_from_dense(&T, m, n, pat, D);
    amat_t am; am_build(&am, &T, 0);
    real_t R[NMAX], C[NMAX], rowcnd = -1, colcnd = -1, amax = -1; int_t info = -99;
    for (int i = 0; i < NMAX; i++) R[i] = C[i] = (real_t)-7;
    Xgsequ(&am.A, R, C, &rowcnd, &colcnd, &amax, &info);
    G->runs++; G->judged++;
    { unsigned long long h = hmix(idx, m * 16 + n); h = hmix(h, info); note_distinct(h); }
    ld sml = (ld)XLAMCH("S"), big = 1 / sml;
    ld rmx[NMAX], cmx[NMAX], rmin = big, rmax = 0; int zr = -1, zc = -1;
    for (int i = 0; i < m; i++) { ld mm = 0; for (int j = 0; j < n; j++) if (PIVABS(D[i][j]) > mm) mm = PIVABS(D[i][j]); rmx[i] = mm; if (mm > rmax) rmax = mm; if (mm < rmin) rmin = mm; if (mm == 0 && zr < 0) zr = i; }
    if (am_unchanged(&am)) viol("C11:gsequ:A-modified", cs, "?gsequ changed A");
    if (zr >= 0) { if (info != zr + 1) viol("C11:gsequ:zero-row-index", cs, "row %d is exactly zero but info=%d", zr, (int)info); goto done; }
    if (ulp_rel((ld)amax, rmax) > 2) viol("C11:gsequ:amax", cs, "amax=%.9g, true largest magnitude %.9Lg", (double)amax, rmax);
    if (ulp_rel((ld)rowcnd, (ld)(real_t)(fmaxl(rmin, sml) / fminl(rmax, big))) > 4) viol("C11:gsequ:rowcnd", cs, "rowcnd=%.9g, true ratio %.9Lg", (double)rowcnd, fmaxl(rmin, sml) / fminl(rmax, big));
    { ld cmin = big, cmax = 0;
      for (int i = 0; i < m; i++) { ld e = 1 / fminl(fmaxl(rmx[i], sml), big); if (!(R[i] > 0) || !isfinite((double)R[i])) { viol("C11:gsequ:R-sign", cs, "R[%d]=%g", i, (double)R[i]); goto done; } if (ulp_rel((ld)R[i], e) > 2) { viol("C11:gsequ:R", cs, "R[%d]=%.9g, reference %.9Lg", i, (double)R[i], e); goto done; }
          int clipped = rmx[i] < sml || rmx[i] > big; if (!clipped && fabsl((ld)R[i] * rmx[i] - 1) > 4 * EPSM) { viol("C11:gsequ:row-not-normalised", cs, "max|R[%d]*A(%d,:)|=%.17Lg", i, i, (ld)R[i] * rmx[i]); goto done; } }
      for (int j = 0; j < n; j++) { ld mm = 0; for (int i = 0; i < m; i++) { ld v = PIVABS(D[i][j]) * (ld)R[i]; v = (ld)(real_t)v; if (v > mm) mm = v; } cmx[j] = mm; if (mm > cmax) cmax = mm; if (mm < cmin) cmin = mm; if (mm == 0 && zc < 0) zc = j; }
      if (zc >= 0) { if (info != m + zc + 1) viol("C11:gsequ:zero-column-index", cs, "column %d of R*A is exactly zero but info=%d", zc, (int)info); goto done; }
      if (info != 0) { viol("C11:gsequ:info", cs, "no zero row/column but info=%d", (int)info); goto done; }
      for (int j = 0; j < n; j++) { ld e = 1 / fminl(fmaxl(cmx[j], sml), big); if (!(C[j] > 0) || !isfinite((double)C[j])) { viol("C11:gsequ:C-sign", cs, "C[%d]=%g", j, (double)C[j]); goto done; } if (ulp_rel((ld)C[j], e) > 4) { viol("C11:gsequ:C", cs, "C[%d]=%.9g, reference %.9Lg", j, (double)C[j], e); goto done; } }
      if (ulp_rel((ld)colcnd, (ld)(real_t)(fmaxl(cmin, sml) / fminl(cmax, big))) > 8) viol("C11:gsequ:colcnd", cs, "colcnd=%.9g, true ratio %.9Lg", (double)colcnd, fmaxl(cmin, sml) / fminl(cmax, big));
    }
    /* apply step with the computed factors: every threshold class by overriding (rowcnd, colcnd, amax) */
    { static const ld rc[3] = { 0.05L, 0.1L, 0.5L };
      ld small = (ld)XLAMCH("S") / (ld)XLAMCH("P"), large = 1 / small; ld am3[5] = { small / 2, small, 1, large, large * 2 };
      for (int a = 0; a < 3; a++) for (int b = 0; b < 3; b++) for (int e3 = 0; e3 < 5; e3++) {
          amat_t a2; am_build(&a2, &T, 0); equed_t eq = (equed_t)77;
          Xlaqgs(&a2.A, R, C, (real_t)rc[a], (real_t)rc[b], (real_t)am3[e3], &eq);
          real_t ra = (real_t)rc[a], rb = (real_t)rc[b], ax = (real_t)am3[e3];
          int rowsc = !((ld)ra >= (ld)(real_t)0.1 && (ld)ax >= (ld)(real_t)small && (ld)ax <= (ld)(real_t)large);
          int exp = rowsc ? ((ld)rb >= (ld)(real_t)0.1 ? ROW : BOTH) : ((ld)rb >= (ld)(real_t)0.1 ? NOEQUIL : COL);
          G->runs++;
          if ((int)eq != exp) { char sig[64]; snprintf(sig, sizeof sig, "C11:laqgs:rule:expected=%d", exp); viol(sig, cs, "rowcnd=%.3g colcnd=%.3g amax=%.3g: equed=%d, documented rule gives %d", (double)ra, (double)rb, (double)ax, (int)eq, exp); }
          int ro = eq == ROW || eq == BOTH, co = eq == COL || eq == BOTH;
          for (int k = 0; k < a2.nnz; k++) { int i = a2.ind[k], j = 0; while (a2.ptr[j + 1] <= k) j++; ldc e = S2L(a2.val0[k]) * (ro ? (ld)R[i] : 1) * (co ? (ld)C[j] : 1);
              if (!ro && !co) { if (memcmp(&a2.val[k], &a2.val0[k], sizeof(scalar_t))) { viol("C11:laqgs:not-identical", cs, "equed none but entry changed"); break; } }
              else if (ro && co && (!isfinite((double)((real_t)C[j] * (real_t)R[i])) || (ld)((real_t)C[j] * (real_t)R[i]) < (ld)XLAMCH("S"))) { /* the combined factor over/underflows in working precision (as in LAPACK ?laqge): not judged */ }
              else if (ABSL(S2L(a2.val[k]) - e) > 3 * EPSM * ABSL(e) && isfinite((double)ABSL(e)) && ABSL(e) >= (ld)XLAMCH("S")) { viol("C11:laqgs:scaling", cs, "entry (%d,%d) = %.9Lg, expected %.9Lg for equed=%d", i, j, creall(S2L(a2.val[k])), creall(e), (int)eq); break; } }
          am_free(&a2);
      } }
done:
    am_free(&am);
}

/* ------------------------------------------------------------------ enumeration drivers */
static struct { int n; const char *grid; const char *family; int islice, nslice; } SW;

static void cases_for_pattern(unsigned long long bits, int n) {
    xcase_t c; int full = !strcmp(SW.grid, "full");
    static const double US[2] = { 1.0, 0.1 };
    int nscal = 7;
    for (int scal = 0; scal < nscal; scal++) for (int tr = 0; tr < 3; tr++) for (int nr = 0; nr < 2; nr++) for (int fi = 0; fi < 4; fi++) {
        /* fi: 0 DOFACT, 1 EQUILIBRATE, 2 FACTORED after DOFACT, 3 FACTORED after EQUILIBRATE */
        if (!full && scal > 3 && scal < 6 && !(tr == 0 && nr == 0)) continue;
        if (scal == 6 && (fi > 1 || !(bits & 1))) continue;                    /* needs the (0,0) entry; first-time factorizations only */
        for (int nrhs = (full ? 0 : 1); nrhs <= 2; nrhs++) for (int P = 1; P <= (full ? 2 : 1); P++) for (int ui = 0; ui < (full ? 2 : 1); ui++) for (int ld = 0; ld < 2; ld++) {
            if (!full && nrhs == 1 && ld == 1) continue;
            memset(&c, 0, sizeof c); c.n = n; c.bits = bits; c.salt = (int)(bits % 5); c.scal = scal; c.trans = tr; c.as_nr = nr;
            c.fact = fi == 0 ? DOFACT : fi == 1 ? EQUILIBRATE : FACTORED; c.fact0 = fi == 3 ? EQUILIBRATE : DOFACT;
            c.nrhs = nrhs; c.nprocs = P; c.u = scal == 6 ? 0.0 : US[ui]; c.w = 1 + 3 * ((int)(bits % 2)); c.relax = 1 + (int)(bits % 3); c.ord = scal == 6 ? 0 : (int)((bits >> 3) % 4);
            c.ldb_extra = ld ? 1 : 0; c.ldx_extra = ld ? 3 : 0;
            run_case(&c);
        }
    }
}
static void graded_cases(long idx) {
    /* idx -> (n in 4..6, log10 cond, salt) */
    int maxlog = sizeof(real_t) == 4 ? 4 : 13;
    int n = 4 + (int)(idx % 3); int logc = (int)((idx / 3) % (maxlog + 1)); int salt = (int)(idx / (3 * (maxlog + 1)));
    xcase_t c;
    for (int tr = 0; tr < 3; tr++) for (int nr = 0; nr < 2; nr++) for (int fi = 0; fi < 2; fi++) for (int ui = 0; ui < 2; ui++) {
        memset(&c, 0, sizeof c); c.n = n; c.graded = logc ? logc : 0; if (!logc) { c.graded = 0; c.bits = (1ULL << (n * n)) - 1; c.salt = salt; } else c.salt = salt;
        c.trans = tr; c.as_nr = nr; c.fact = fi ? EQUILIBRATE : DOFACT; c.nrhs = 2; c.nprocs = 1 + (tr == 1); c.u = ui ? 0.1 : 1.0; c.w = 1 + 3 * (salt % 2); c.relax = 1 + salt % 3; c.ord = salt % 4; c.ldb_extra = salt % 2; c.ldx_extra = 2 * (salt % 2);
        run_case(&c);
    }
}
static void case_fn(long idx) {
    G->cfg_no = 0;
    if (!strcmp(SW.family, "pat")) { unsigned long long bits = (unsigned long long)idx; int n = SW.n; int pat[NMAX][NMAX], cols[NMAX]; for (int i = 0; i < n; i++) { cols[i] = i; for (int j = 0; j < n; j++) pat[i][j] = (bits >> (i * n + j)) & 1; }
        if (struct_rank_prefix(n, pat, cols, n) < n) { G->skipped++; return; } cases_for_pattern(bits, n); }
    else if (!strcmp(SW.family, "graded")) graded_cases(idx);
    else if (!strcmp(SW.family, "equ")) { int m = SW.n / 10, n = SW.n % 10; equ_case(idx, m, n); }
}
static int replay_one(const char *s) {
    if (!strncmp(s, "equ ", 4)) { int m = 2, n = 2; long idx = 0; sscanf(s, "equ m=%d n=%d idx=%ld", &m, &n, &idx); equ_case(idx, m, n); return G->viol ? 1 : 0; }
    xcase_t c; memset(&c, 0, sizeof c); const char *p;
#define GI(key, var) if ((p = strstr(s, key "="))) var = atoi(p + strlen(key) + 1)
    GI("n", c.n); GI("salt", c.salt); GI("scal", c.scal); GI("graded", c.graded); GI("tr", c.trans); GI(" nr", c.as_nr); GI(" fact", c.fact); GI("fact0", c.fact0); GI("nrhs", c.nrhs); GI(" P", c.nprocs);
    GI("ldbx", c.ldb_extra); GI("ldxx", c.ldx_extra); GI(" w", c.w); GI("rlx", c.relax); GI("ord", c.ord);
    if ((p = strstr(s, "bits="))) c.bits = strtoull(p + 5, NULL, 10);
    if ((p = strstr(s, " u="))) c.u = atof(p + 3);
    run_case(&c); return G->viol ? 1 : 0;
}
int main(int argc, char **argv) {
    out_init();
    G = mmap(NULL, sizeof *G, PROT_READ | PROT_WRITE, MAP_SHARED | MAP_ANONYMOUS, -1, 0); G->samples_left = 3;
    vf_sh = mmap(NULL, sizeof *vf_sh, PROT_READ | PROT_WRITE, MAP_SHARED | MAP_ANONYMOUS, -1, 0);
    PROP = arg_str(argc, argv, "--prop", "C07");
    const char *one = arg_str(argc, argv, "--one", NULL);
    if (one) { int rc = replay_one(one); out_stats(PROP, "\"runs\":%ld,\"violations\":%ld", G->runs, G->viol); return rc; }
    SW.family = arg_str(argc, argv, "--family", "pat"); SW.n = arg_int(argc, argv, "--n", 3); SW.grid = arg_str(argc, argv, "--grid", "quick");
    sscanf(arg_str(argc, argv, "--slice", "0/1"), "%d/%d", &SW.islice, &SW.nslice);
    double deadline = atof(arg_str(argc, argv, "--deadline", "1e9")), t0 = now_s(); int timeout = arg_int(argc, argv, "--timeout", 30);
    long total;
    if (!strcmp(SW.family, "pat")) total = 1L << (SW.n * SW.n);
    else if (!strcmp(SW.family, "graded")) total = 3 * ((sizeof(real_t) == 4 ? 4 : 13) + 1) * (!strcmp(SW.grid, "full") ? 4 : 2);
    else { int m = SW.n / 10, n = SW.n % 10; total = 1; for (int k = 0; k < m * n; k++) total *= NALPHA; }
    long per = (total + SW.nslice - 1) / SW.nslice, lo = per * SW.islice, hi = lo + per; if (hi > total) hi = total; if (lo > hi) lo = hi;
    long done = 0; int complete = 1;
    for (long a = lo; a < hi; a += 2048) {
        if (now_s() - t0 > deadline) { complete = 0; break; }
        long b = a + 2048 < hi ? a + 2048 : hi, next = a;
        while (next < b) {
            vf_sh->cur = next; vf_sh->done = 0; vf_sh->where[0] = 0; fflush(NULL);
            pid_t pid = fork();
            if (pid == 0) { signal(SIGALRM, vf_alarm); vf_install_fault_handlers(); for (long i = next; i < b; i++) { vf_sh->cur = i; vf_case_timer(timeout); case_fn(i); G->resume_cfg = 0; G->resumes = 0; } vf_sh->done = 1; fflush(NULL); _exit(0); }
            int st = 0; waitpid(pid, &st, 0); vf_last_child = pid;
            if (WIFEXITED(st) && WEXITSTATUS(st) == 0 && vf_sh->done) break;
            long bad = vf_sh->cur; int kind, code;
            if (WIFSIGNALED(st)) { kind = VF_SIGNAL; code = WTERMSIG(st); } else if (WEXITSTATUS(st) == 99) { kind = VF_ASAN; code = 99; } else if (WEXITSTATUS(st) == 97) { kind = VF_TIMEOUT; code = 97; } else if (WEXITSTATUS(st) == 98) { kind = VF_FAULT; code = 98; } else { kind = VF_EXIT; code = WEXITSTATUS(st); }
            char cd[160], sig[220]; vf_crash_desc(kind, code, cd, sizeof cd); const char *site = strchr(cd, '@');
            const char *note = (const char *)vf_sh->note; char cls[48] = ""; const char *q;
            if ((q = strstr(note, "tr="))) snprintf(cls, sizeof cls, "tr=%c", q[3]);
            snprintf(sig, sizeof sig, "%s:crash:%s:%s", PROP, site ? site : cd, cls);
            G->deaths++; viol(sig, note, "process died (%s) while running this case", cd);
            if (G->cfg_no > G->resume_cfg && G->resumes < 3) { G->resume_cfg = G->cfg_no; G->resumes++; next = bad; } else { G->resume_cfg = 0; G->resumes = 0; next = bad + 1; }
        }
        done += b - a;
    }
    out_stats(PROP, "\"family\":\"%s\",\"n\":%d,\"grid\":\"%s\",\"slice\":\"%d/%d\",\"matrices\":%ld,\"matrices_total\":%ld,\"complete\":%s,\"runs\":%ld,\"judged\":%ld,\"skipped\":%ld,\"ill_conditioned_outside_hypothesis\":%ld,\"violations\":%ld,\"distinct_outcomes\":%ld,\"deaths\":%ld,\"wall_s\":%.2f",
              SW.family, SW.n, SW.grid, SW.islice, SW.nslice, done, hi - lo, complete ? "true" : "false", G->runs, G->judged, G->skipped, G->illcond, G->viol, G->distinct, G->deaths, now_s() - t0);
    return 0;
}
