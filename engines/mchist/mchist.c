/* Engine Q (part 3): bounded-exhaustive enumeration of CALL HISTORIES on one sparsity pattern.
 *   C08  every call of every valid history (first factor / refactor(usepr,values,P) / solve-with-existing-factors / destroy)
 *        returns correct factors and solutions for the values current at that call
 *   C17  after each call the only live library allocations are those reachable from returned objects;
 *        after the documented clean-up the heap is back to its pre-history state
 *   C18  a probe call gives bit-identical results whatever history preceded it in the process
 *
 *   mchist --prop C08 --depth 3 --pat 0 --mem 0 [--slice i/k]
 *   mchist --prop C08 --one "pat=0 mem=0 ops=F0a,R1y,Sn,D"
 *
 * A history is a word over the alphabet below; its state is the history itself replayed on fresh objects
 * (histories are NOT merged on observable state: the library keeps hidden per-precision statics).
 */
#include "../common/factor.h"
#include <fcntl.h>

static const char *PROP = "C08";
typedef struct { long hist, runs, calls, judged, skipped, viol, deaths, distinct; int samples_left; unsigned long long dh[1 << 16]; char sigs[64][96]; int printed[64]; int nsig; } shared_t;
static shared_t *G;
static const char *AS_PROP;
static void note_distinct(unsigned long long h) { unsigned k = (unsigned)(h >> 20) & 0xffff; for (int t = 0; t < 64; t++) { unsigned s = (k + t) & 0xffff; if (G->dh[s] == h) return; if (!G->dh[s]) { G->dh[s] = h; G->distinct++; return; } } }
static unsigned long long hmix(unsigned long long h, unsigned long long v) { h ^= v + 0x9E3779B97F4A7C15ULL + (h << 6) + (h >> 2); return h; }
static void viol(const char *sig, const char *cs, const char *fmt, ...) {
    char buf[600]; va_list ap; va_start(ap, fmt); vsnprintf(buf, sizeof buf, fmt, ap); va_end(ap);
    G->viol++;
    int k; for (k = 0; k < G->nsig; k++) if (!strcmp(G->sigs[k], sig)) break;
    if (k == G->nsig) { if (G->nsig >= 64) return; snprintf(G->sigs[G->nsig++], 96, "%s", sig); }
    if (G->printed[k]++ < 3) {
        /* the refact-lwork family judged for C08 (a re-factorization in the caller's workspace must be correct or report info > n): same oracle, reported under the property asked for */
        if (AS_PROP && !strncmp(sig, "C14:lwork:", 10)) { char s2[128]; snprintf(s2, sizeof s2, "%s:refactor-in-workspace:%s", AS_PROP, sig + 10); out_violation(AS_PROP, s2, cs, "%s", buf); }
        else out_violation(AS_PROP ? AS_PROP : PROP, sig, cs, "%s", buf);
    }
}

/* ------------------------------------------------------------------ the fixed patterns and value sets */
#define NPAT 4
static int pat_n(int p) { return p == 0 ? 4 : p == 1 ? 5 : 4; }
static int pat_bit(int p, int i, int j) {
    static const char *P0[4] = { "1101", "0110", "1011", "0101" };                   /* unsymmetric, needs pivoting choices */
    static const char *P1[5] = { "11001", "11100", "01110", "00111", "10011" };      /* cyclic band: two leaves, pipelining */
    static const char *P2[4] = { "1111", "1111", "1111", "1111" };                   /* dense */
    /* pattern 3 (added after seeded change C08/2 was missed): the NUMBER OF SUPERNODES depends on the pivots (4 with diagonal pivots, 2 with
       the off-diagonal pivots of the generic value sets), so a refactorization with other values changes the supernode partition */
    static const char *P3[4] = { "1001", "1110", "1010", "0001" };
    return (p == 0 ? P0[i][j] : p == 1 ? P1[i][j] : p == 2 ? P2[i][j] : P3[i][j]) == '1';
}
/* value sets: 0 = diagonally dominant (diagonal pivots), 1 = generic (off-diagonal pivots), 2 = set 0 with the diagonal entry of the middle
   column made tiny (the old pivot fails the threshold half-way), 3 = set 1 scaled (same pivots as 1, different numbers) */
static ldc hval(int v, int i, int j, int n) {
    switch (v) {
    case 0: return i == j ? (ld)(2 * n + 1 + i % 3) : generic_value(i, j, 3) / 4;
    case 1: return generic_value(i, j, 1);
    case 2: return i == j ? (i == n / 2 ? (ld)1e-3 : (ld)(2 * n + 1 + i % 3)) : generic_value(i, j, 3) / 4;
    case 3: return generic_value(i, j, 1) * (ld)1.5;
    default: return generic_value(i, j, 1);       /* set 4: see build() */
    }
}
/* value set 4 (added after seeded change C08/3 was missed): set 1, but in every column the diagonal entry is given EXACTLY the magnitude of the
   column's largest entry: the pivot of set 1 (the largest entry) then ties with the diagonal, i.e. it passes the threshold u = 1 exactly, and a
   refactorization that reuses the row order must keep it although threshold pivoting on its own would prefer the diagonal */
static void build(int p, int v, tmat_t *T) { int n = pat_n(p); int pat[NMAX][NMAX]; ldc D[NMAX][NMAX]; for (int i = 0; i < n; i++) for (int j = 0; j < n; j++) { pat[i][j] = pat_bit(p, i, j); D[i][j] = S2L(L2S(hval(v, i, j, n))); }
    if (v == 4) for (int j = 0; j < n; j++) { ld mx = 0; for (int i = 0; i < n; i++) if (pat[i][j] && i != j && ABSL(D[i][j]) > mx) mx = ABSL(D[i][j]); if (pat[j][j] && mx > 0) D[j][j] = (creall(D[j][j]) < 0 ? -mx : mx); } tm_from_dense(T, n, n, pat, D); }

/* ------------------------------------------------------------------ live objects of one history */
typedef struct {
    int p, n, mem; long lwork; void *work;
    amat_t am; int have_am; int vcur;
    SuperMatrix L, U; int have_lu; int have_opt;
    int_t perm_r[NMAX + 1], perm_c[NMAX + 1];
    superlumt_options_t opt;
    ldc A[NMAX][NMAX]; ldc Ld[NMAX][NMAX], Ud[NMAX][NMAX];
    int info;
} hs_t;
static double U_THRESH = 1.0; static int TIGHT7, TIGHT8;     /* sp_ienv(7)/(8) overrides of the refact-lwork family */
static long LW_OVERRIDE; static unsigned char *hs_raw;
static int hs_redzone_touched(const hs_t *s) { if (!hs_raw) return 0; for (int q = 0; q < 256; q++) if (hs_raw[q] != 0xA5 || hs_raw[256 + s->lwork + q] != 0xA5) return 1; return 0; }

static void set_values(hs_t *s, int v) {
    static tmat_t T; build(s->p, v, &T); tm_to_dense(&T, s->A); s->vcur = v;
    if (!s->have_am) { am_build(&s->am, &T, 0); s->have_am = 1; }
    else for (int k = 0; k < T.nnz; k++) { s->am.val[k] = L2S(T.val[k]); s->am.val0[k] = s->am.val[k]; }   /* same pattern, new numbers in the caller's arrays */
}
/* F (refact=NO) or R (refact=YES): the documented route of EXAMPLE/p?repeat.c */
static int op_factor(hs_t *s, int v, int refact, int usepr, int P, char *msg, size_t ml, const char *cs) {
    int n = s->n; Gstat_t Gstat; SuperMatrix AC; int_t info = -999; int_t old_pr[NMAX];
    set_values(s, v);
    for (int i = 0; i < n; i++) old_pr[i] = s->perm_r[i];
    if (!refact) { get_perm_c(1, &s->am.A, s->perm_c); for (int i = 0; i < n; i++) s->perm_r[i] = -7; }
    vf_ienv[1] = 1 + 3 * (s->p == 2); vf_ienv[2] = 1 + (s->p == 1); vf_ienv[3] = 4; vf_ienv[4] = 200; vf_ienv[5] = 100; vf_ienv[6] = -50; vf_ienv[7] = TIGHT7 ? TIGHT7 : -50; vf_ienv[8] = TIGHT8 ? TIGHT8 : -30;
    StatAlloc(n, P, vf_ienv[1], vf_ienv[2], &Gstat); StatInit(n, P, &Gstat);
    FN(p,gstrf_init)(P, DOFACT, NOTRANS, refact ? YES : NO, vf_ienv[1], vf_ienv[2], U_THRESH, usepr ? YES : NO, 0.0, s->perm_c, s->perm_r, s->work, s->lwork, &s->am.A, &AC, &s->opt, &Gstat);
    s->have_opt = 1;
    pXgstrf(&s->opt, &AC, s->perm_r, &s->L, &s->U, &Gstat, &info);
    Destroy_CompCol_Permuted(&AC);
    StatFree(&Gstat);
    s->info = (int)info; G->calls++;
    if (!strcmp(PROP, "C14")) {       /* family refact-lwork: the only trouble is memory; info > n or a correct factorization */
        G->judged++; const char *wh = refact ? "refactor" : "first"; char sig[96];
        if (hs_redzone_touched(s)) { snprintf(sig, sizeof sig, "C14:lwork:redzone:%s", wh); viol(sig, cs, "bytes outside the caller's workspace were written"); }
        if (info > n) { s->have_lu = 0; return 3; }
        if (info != 0) { s->have_lu = (info > 0 && info <= n); snprintf(sig, sizeof sig, "C14:lwork:bogus-info:%s", wh); viol(sig, cs, "nonsingular values, memory trouble only, but info=%d (n=%d)", (int)info, n); return 3; }
        s->have_lu = 1; char wm[300]; int wf = wellformed(&s->L, &s->U, s->perm_r, s->perm_c, n, s->Ld, s->Ud, wm, sizeof wm);
        if (wf) { snprintf(sig, sizeof sig, "C14:lwork:malformed-factors:%s", wh); viol(sig, cs, "info=0 but the returned factors are malformed: %s", wm); return 3; }
        ldc M[NMAX][NMAX]; ld ratio; char m2[400]; permuted_A(s->A, n, s->perm_r, s->perm_c, M);
        if (check_lu_residual(M, s->Ld, s->Ud, n, &ratio, m2, sizeof m2)) { snprintf(sig, sizeof sig, "C14:lwork:wrong-factors:%s", wh); viol(sig, cs, "info=0 but Pr A Pc != L U: %s", m2); }
        return 0;
    }
    if (info != 0) { s->have_lu = (info > 0 && info <= n); snprintf(msg, ml, "info=%d", (int)info); return 1; }
    s->have_lu = 1;
    char wm[300];
    int wf = wellformed(&s->L, &s->U, s->perm_r, s->perm_c, n, s->Ld, s->Ud, wm, sizeof wm);
    if (!strcmp(PROP, "C09")) { G->judged++; if (wf) { char sig[64]; snprintf(sig, sizeof sig, "C09:wellformed:code%d:%s", wf, refact ? "refactor" : "first"); viol(sig, cs, "%s", wm); return 2; } }
    if (!strcmp(PROP, "C08")) {
        G->judged++;
        if (wf) { char sig[64]; snprintf(sig, sizeof sig, "C08:wellformed:code%d:%s", wf, refact ? "refactor" : "first"); viol(sig, cs, "%s", wm); return 2; }
        ldc M[NMAX][NMAX]; ld ratio; char m2[400];
        permuted_A(s->A, n, s->perm_r, s->perm_c, M);
        if (check_lu_residual(M, s->Ld, s->Ud, n, &ratio, m2, sizeof m2)) viol(refact ? "C08:residual:refactor" : "C08:residual:first", cs, "%s", m2);
        if (check_multipliers(s->Ld, n, U_THRESH, m2, sizeof m2)) viol(refact ? "C08:multiplier:refactor" : "C08:multiplier:first", cs, "%s", m2);
        int pp = check_pivot_policy(s->A, n, s->perm_r, s->perm_c, U_THRESH, (refact && usepr) ? old_pr : NULL, m2, sizeof m2);
        if (pp == 1) viol((refact && usepr) ? "C08:policy:usepr" : "C08:policy", cs, "%s", m2);
        if (s->am.A.nrow != n || am_unchanged(&s->am)) viol("C08:A-modified", cs, "factorization changed the caller's A");
    }
    return wf ? 2 : 0;
}
static unsigned long long lu_checksum(hs_t *s) {
    unsigned long long h = 1469598103934665603ULL; int n = s->n;
    const SCPformat *Ls = s->L.Store; const NCPformat *Us = s->U.Store;
    h = hmix(h, Ls->nnz); h = hmix(h, Ls->nsuper); h = hmix(h, Us->nnz);
    for (int j = 0; j < n; j++) { h = hmix(h, Ls->nzval_colbeg[j]); h = hmix(h, Ls->nzval_colend[j]); h = hmix(h, Ls->rowind_colbeg[j]); h = hmix(h, Ls->rowind_colend[j]); h = hmix(h, Ls->col_to_sup[j]); h = hmix(h, Us->colbeg[j]); h = hmix(h, Us->colend[j]);
        for (long k = Ls->nzval_colbeg[j]; k < Ls->nzval_colend[j]; k++) { unsigned long long v = 0; memcpy(&v, (char *)Ls->nzval + k * sizeof(scalar_t), sizeof(scalar_t) < 8 ? sizeof(scalar_t) : 8); h = hmix(h, v); }
        for (long k = Us->colbeg[j]; k < Us->colend[j]; k++) { unsigned long long v = 0; memcpy(&v, (char *)Us->nzval + k * sizeof(scalar_t), sizeof(scalar_t) < 8 ? sizeof(scalar_t) : 8); h = hmix(h, v); h = hmix(h, Us->rowind[k]); }
        h = hmix(h, s->perm_r[j]); h = hmix(h, s->perm_c[j]); }
    for (int sn = 0; sn <= Ls->nsuper; sn++) { int f = Ls->sup_to_colbeg[sn]; h = hmix(h, f); h = hmix(h, Ls->sup_to_colend[sn]); for (long k = Ls->rowind_colbeg[f]; k < Ls->rowind_colend[f]; k++) h = hmix(h, Ls->rowind[k]); }
    return h;
}
/* S: solve with the existing factors and a fresh right-hand side */
static unsigned long long op_solve(hs_t *s, int trans, int salt, const char *cs) {
    int n = s->n; ldc xt[NMAX], b[NMAX]; scalar_t bm[NMAX]; Gstat_t Gstat; int_t info = -9;
    for (int i = 0; i < n; i++) xt[i] = (ld)(1 + (i + salt) % 3);
    for (int i = 0; i < n; i++) { ldc sum = 0; for (int j = 0; j < n; j++) sum += (trans == NOTRANS ? s->A[i][j] : trans == TRANS ? s->A[j][i] : conjl(s->A[j][i])) * xt[j]; b[i] = S2L(L2S(sum)); bm[i] = L2S(sum); }
    SuperMatrix B; XCreate_Dense_Matrix(&B, n, 1, bm, n, SLU_DN, SLU_DT, SLU_GE);
    unsigned long long ck0 = lu_checksum(s);
    StatAlloc(n, 1, 1, 1, &Gstat); StatInit(n, 1, &Gstat);
    Xgstrs(trans, &s->L, &s->U, s->perm_r, s->perm_c, &B, &Gstat, &info);
    StatFree(&Gstat); Destroy_SuperMatrix_Store(&B); G->calls++;
    unsigned long long h = 0; for (int i = 0; i < n; i++) { unsigned long long v = 0; memcpy(&v, &bm[i], sizeof(scalar_t) < 8 ? sizeof(scalar_t) : 8); h = hmix(h, v); }
    if (!strcmp(PROP, "C08")) {
        G->judged++;
        if (IS_COMPLEX && trans == CONJ) { G->skipped++; return h; }       /* known defect of C07 (complex CONJ); not this property's alphabet */
        if (info != 0) { viol("C08:solve:info", cs, "?gstrs with existing factors returned info=%d", (int)info); return h; }
        if (lu_checksum(s) != ck0) viol("C08:solve:modified-factors", cs, "a solve that only reuses the factors changed L, U or a permutation");
        if (am_unchanged(&s->am)) viol("C08:solve:modified-A", cs, "a solve changed A");
        ldc X[NMAX]; for (int i = 0; i < n; i++) X[i] = S2L(bm[i]);
        ldc Aop[NMAX][NMAX]; for (int i = 0; i < n; i++) for (int j = 0; j < n; j++) Aop[i][j] = trans == NOTRANS ? s->A[i][j] : trans == TRANS ? s->A[j][i] : conjl(s->A[j][i]);
        char m2[400]; ld ratio;
        /* residual bound of C01 for the system actually solved: factors are of A, so the transposed system takes the transposed bound matrix */
        if (check_solve_residual(Aop, n, s->perm_r, s->perm_c, s->Ld, s->Ud, trans != NOTRANS, b, X, 1, n, &ratio, m2, sizeof m2)) { char sig[48]; snprintf(sig, sizeof sig, "C08:solve:residual:tr=%d", trans); viol(sig, cs, "%s", m2); }
    }
    return h;
}
static void op_destroy(hs_t *s) {
    if (!s->have_lu) return;
    if (s->lwork == 0) { Destroy_SuperNode_SCP(&s->L); Destroy_CompCol_NCP(&s->U); }
    else { /* user workspace: the arrays of L/U live inside work[] (freed by the caller); only the two Store headers are library allocations */
        Destroy_SuperMatrix_Store(&s->L); Destroy_SuperMatrix_Store(&s->U); }
    s->have_lu = 0;
    /* the ordering arrays belong to the factorization that is being given up (p?gstrf_init allocates new ones for the next first factorization) */
    if (s->have_opt) { SUPERLU_FREE(s->opt.etree); SUPERLU_FREE(s->opt.colcnt_h); SUPERLU_FREE(s->opt.part_super_h); s->have_opt = 0; }
}
static void hs_begin(hs_t *s, int p, int mem) { memset(s, 0, sizeof *s); s->p = p; s->n = pat_n(p); s->mem = mem; s->lwork = mem ? (LW_OVERRIDE ? LW_OVERRIDE : 400000) : 0;
    if (mem) { hs_raw = malloc(s->lwork + 512); memset(hs_raw, 0xA5, s->lwork + 512); s->work = hs_raw + 256; } else { hs_raw = NULL; s->work = NULL; }
    unsetenv("SuperLU_DYNAMIC_SNODE_STORE"); }
static void hs_end(hs_t *s) {
    op_destroy(s);
    if (s->have_opt) { SUPERLU_FREE(s->opt.etree); SUPERLU_FREE(s->opt.colcnt_h); SUPERLU_FREE(s->opt.part_super_h); s->have_opt = 0; }
    if (s->have_am) { am_free(&s->am); s->have_am = 0; }
    free(hs_raw); hs_raw = NULL; s->work = NULL;
}

/* ------------------------------------------------------------------ alphabet, validity, execution of one history */
/* op codes: F<v><P>  R<v><u><P>  S<t>  D     v in 0..3, P in {a=1 thread, b=2 threads}, u in {y,n}, t in {n,t,c} */
typedef struct { char kind; int v, usepr, P, trans; } op_t;
static int alphabet(op_t *a, int full) {
    int k = 0; static const int VQ[4] = { 0, 1, 2, 4 }, VF[5] = { 0, 1, 2, 3, 4 }; int nv = full ? 5 : 4; const int *vs = full ? VF : VQ;
    for (int vi = 0; vi < nv; vi++) for (int P = 1; P <= 2; P++) { int v = vs[vi]; a[k].kind = 'F'; a[k].v = v; a[k].P = P; k++; }
    for (int vi = 0; vi < nv; vi++) for (int u = 0; u < 2; u++) for (int P = 1; P <= 2; P++) { int v = vs[vi]; if (!full && P == 2 && v == 4) continue; a[k].kind = 'R'; a[k].v = v; a[k].usepr = u; a[k].P = P; k++; }
    for (int t = 0; t < (IS_COMPLEX ? 3 : 2); t++) { a[k].kind = 'S'; a[k].trans = t; k++; }
    a[k].kind = 'D'; k++;
    return k;
}
static int op_str(const op_t *o, char *b) {
    switch (o->kind) { case 'F': return sprintf(b, "F%d%c", o->v, 'a' + o->P - 1); case 'R': return sprintf(b, "R%d%c%c", o->v, o->usepr ? 'y' : 'n', 'a' + o->P - 1); case 'S': return sprintf(b, "S%c", "ntc"[o->trans]); default: return sprintf(b, "D"); }
}
/* validity: starts with F; F only when no factors are live; R and S only when factors are live; D only when live */
static int valid_next(int live, const op_t *o) { return o->kind == 'F' ? !live : live; }

static unsigned long long run_history(int p, int mem, const op_t *ops, int nops, const char *cs, int *failed_at) {
    static hs_t s; hs_begin(&s, p, mem);
    long live0 = vf_nlive, seq0 = vf_alloc_calls, badfree0 = vf_bad_free; long live_after_first = -1;
    unsigned long long h = 1469598103934665603ULL; char msg[200];
    *failed_at = -1;
    for (int k = 0; k < nops; k++) {
        const op_t *o = &ops[k]; int rc = 0;
        if (vf_sh) snprintf((char *)vf_sh->note, sizeof vf_sh->note, "%s @op%d", cs, k);
        if (o->kind == 'F') rc = op_factor(&s, o->v, 0, 0, o->P, msg, sizeof msg, cs);
        else if (o->kind == 'R') rc = op_factor(&s, o->v, 1, o->usepr, o->P, msg, sizeof msg, cs);
        else if (o->kind == 'S') h = hmix(h, op_solve(&s, o->trans, k, cs));
        else op_destroy(&s);
        if (rc == 1) { if (!strcmp(PROP, "C08")) { char sig[64]; snprintf(sig, sizeof sig, "C08:info:%s", o->kind == 'F' ? "first" : "refactor"); viol(sig, cs, "op %d (%c, values %d): nonsingular values but %s", k, o->kind, o->v, msg); } *failed_at = k; break; }
        if (rc == 2 || rc == 3) { *failed_at = k; break; }
        if (s.have_lu && (o->kind == 'F' || o->kind == 'R')) { h = hmix(h, lu_checksum(&s)); h = hmix(h, s.opt.usepr); }
        /* C17: repeated refactorizations and solves must not grow the set of live blocks */
        if (!strcmp(PROP, "C17")) {
            G->judged++;
            if (o->kind == 'F' && live_after_first < 0) live_after_first = vf_nlive;
            else if ((o->kind == 'R' || o->kind == 'S') && live_after_first >= 0 && vf_nlive != live_after_first) { char sig[64], d[200]; snprintf(sig, sizeof sig, "C17:growth:%s:mem%d", o->kind == 'R' ? "refactor" : "solve", mem); vf_live_since(seq0, d, sizeof d); viol(sig, cs, "op %d (%c): %ld live blocks, %ld after the first factorization (%s)", k, o->kind, vf_nlive, live_after_first, d); live_after_first = vf_nlive; }
            else if (o->kind == 'D') { live_after_first = -1; }
            else if (o->kind == 'F') live_after_first = vf_nlive;
        }
    }
    hs_end(&s);
    if (!strcmp(PROP, "C17")) {
        G->judged++;
        if (vf_nlive != live0) { char d[200], sig[64]; vf_live_since(seq0, d, sizeof d); snprintf(sig, sizeof sig, "C17:leak:after-cleanup:mem%d%s", mem, *failed_at >= 0 ? ":failed-call" : ""); viol(sig, cs, "%ld blocks still allocated after the documented clean-up (allocation#:size %s)", vf_nlive - live0, d); }
        if (vf_bad_free != badfree0) viol("C17:bad-free", cs, "%ld frees of blocks the library never allocated", vf_bad_free - badfree0);
    }
    return h;
}

/* ------------------------------------------------------------------ C18: probe after a prefix vs. the probe in a fresh process */
static unsigned long long PROBE_REF[2];
static unsigned long long run_probe(int p, int mem) {
    op_t pr[3]; int fa; pr[0].kind = 'F'; pr[0].v = 1; pr[0].P = 1; pr[1].kind = 'S'; pr[1].trans = 0; pr[2].kind = 'S'; pr[2].trans = 1;
    const char *save = PROP; PROP = "none"; unsigned long long h = run_history(p, mem, pr, 3, "probe", &fa); PROP = save; return h;
}
/* extra prefix events of C18 beyond the C08 alphabet: singular call, failed allocation, workspace query, another precision */
static void extra_event(int which, int p) {
    static tmat_t T; fres_t *r = malloc(sizeof *r); fcfg_t c; fcfg_default(&c);
    int n = pat_n(p); int pat[NMAX][NMAX]; ldc D[NMAX][NMAX];
    for (int i = 0; i < n; i++) for (int j = 0; j < n; j++) { pat[i][j] = pat_bit(p, i, j); D[i][j] = generic_value(i, j, 2); }
    if (which == 0) { for (int i = 0; i < n; i++) D[i][1] = 0; c.driver = DRV_GSSV; tm_from_dense(&T, n, n, pat, D); run_factor_case(&T, &c, r); }              /* explicit zero column: singular */
    else if (which == 1) { c.driver = DRV_GSSVX; c.lwork = 64; tm_from_dense(&T, n, n, pat, D); run_factor_case(&T, &c, r); }                                   /* user workspace far too small: info > n */
    else if (which == 2) { tm_from_dense(&T, n, n, pat, D); c.driver = DRV_GSSVX; c.fact = EQUILIBRATE; c.trans = TRANS; c.nprocs = 2; run_factor_case(&T, &c, r); }  /* expert driver, other options */
    else if (which == 3) { n = 3; for (int i = 0; i < 3; i++) for (int j = 0; j < 3; j++) { pat[i][j] = 1; D[i][j] = generic_value(i, j, 5); } tm_from_dense(&T, 3, 3, pat, D); c.w = 4; c.relax = 3; c.maxsuper = 4; run_factor_case(&T, &c, r); }   /* another size (sp_ienv(3) stays what the probe uses: one tuning per process, as with a fixed sp_ienv) */
    free(r);
}

/* ------------------------------------------------------------------ enumeration */
static int P_, MEM_, DEPTH_, FULL_; static op_t ALPHA[64]; static int NALPHA;
static long count_or_run(int depth, int live, op_t *cur, int len, long *idx, long lo, long hi, int run) {
    long c = 0;
    if (len > 0) {      /* every non-empty valid prefix is itself a history */
        if (*idx >= lo && *idx < hi && run) {
            char cs[400]; int o = snprintf(cs, sizeof cs, "pat=%d mem=%d ops=", P_, MEM_); for (int k = 0; k < len; k++) { o += op_str(&cur[k], cs + o); if (k + 1 < len) cs[o++] = ','; } cs[o] = 0;
            int fa; G->hist++;
            if (!strcmp(PROP, "C18")) {
                unsigned long long hp; unsigned long long hh = run_history(P_, MEM_, cur, len, cs, &fa); note_distinct(hmix(hh, *idx)); hp = run_probe(P_, MEM_); G->judged++;
                if (hp != PROBE_REF[MEM_]) { char sig[64]; snprintf(sig, sizeof sig, "C18:probe-differs:after-%c:mem%d", cur[len - 1].kind, MEM_); viol(sig, cs, "probe (first factorization + 2 solves) after this history is not bit-identical to the same probe in a fresh process"); }
                /* the probe in the OTHER memory mode too (added after seeded change C18/3 was missed): a mode flag left behind by the history must not reach it */
                { unsigned long long hx = run_probe(P_, 1 - MEM_); G->judged++; if (hx != PROBE_REF[1 - MEM_]) { char sig[64]; snprintf(sig, sizeof sig, "C18:probe-differs:other-mode:after-%c:mem%d", cur[len - 1].kind, MEM_); viol(sig, cs, "probe with %s workspace after this history (run with %s workspace) is not bit-identical to the same probe in a fresh process", MEM_ ? "internal" : "user", MEM_ ? "user" : "internal"); } }
            } else {
                unsigned long long h = run_history(P_, MEM_, cur, len, cs, &fa);
                unsigned long long h2 = hmix(h, *idx); note_distinct(h2);
                if (!strcmp(PROP, "C08")) { int fb; const char *sv = PROP; PROP = "none"; unsigned long long hb = run_history(P_, MEM_, cur, len, cs, &fb); PROP = sv; if (hb != h) viol("C08:replay-differs", cs, "the same history replayed on fresh objects gave different bits (hidden state or nondeterminism)"); }
                if (G->samples_left > 0 && len >= 3) { G->samples_left--; out_sample(PROP, "%s", cs); }
            }
            G->runs++;
        }
        (*idx)++; c++;
    }
    if (len == depth) return c;
    for (int a = 0; a < NALPHA; a++) {
        if (len == 0 && ALPHA[a].kind != 'F') continue;
        if (!valid_next(live, &ALPHA[a])) continue;
        cur[len] = ALPHA[a];
        int nl = ALPHA[a].kind == 'D' ? 0 : 1;
        c += count_or_run(depth, nl, cur, len + 1, idx, lo, hi, run);
    }
    return c;
}
static int parse_ops(const char *s, op_t *ops) {
    int n = 0; const char *p = strstr(s, "ops="); if (!p) return 0; p += 4;
    while (*p && *p != ' ') { op_t o; memset(&o, 0, sizeof o); o.kind = *p;
        if (*p == 'F') { o.v = p[1] - '0'; o.P = p[2] - 'a' + 1; p += 3; } else if (*p == 'R') { o.v = p[1] - '0'; o.usepr = p[2] == 'y'; o.P = p[3] - 'a' + 1; p += 4; } else if (*p == 'S') { o.trans = p[1] == 'n' ? 0 : p[1] == 't' ? 1 : 2; p += 2; } else if (*p == 'D') p++; else break;
        ops[n++] = o; if (*p == ',') p++; }
    return n;
}
int main(int argc, char **argv) {
    out_init();
    G = mmap(NULL, sizeof *G, PROT_READ | PROT_WRITE, MAP_SHARED | MAP_ANONYMOUS, -1, 0); G->samples_left = 3;
    vf_sh = mmap(NULL, sizeof *vf_sh, PROT_READ | PROT_WRITE, MAP_SHARED | MAP_ANONYMOUS, -1, 0);
    PROP = arg_str(argc, argv, "--prop", "C08");
    U_THRESH = atof(arg_str(argc, argv, "--u", "1.0"));
    const char *one = arg_str(argc, argv, "--one", NULL);
    if (one) { op_t ops[16]; int p = 0, mem = 0; const char *q; if ((q = strstr(one, "pat="))) p = atoi(q + 4); if ((q = strstr(one, "mem="))) mem = atoi(q + 4); if ((q = strstr(one, "lwork="))) LW_OVERRIDE = atol(q + 6); if ((q = strstr(one, "f7="))) TIGHT7 = atoi(q + 3); if ((q = strstr(one, "f8="))) TIGHT8 = atoi(q + 3); int n = parse_ops(one, ops), fa;
        if (!strcmp(PROP, "C18")) { pid_t pid = fork(); if (pid == 0) { PROBE_REF[mem] = run_probe(p, mem); *(unsigned long long *)vf_sh->note = PROBE_REF[mem]; _exit(0); } int st; waitpid(pid, &st, 0); vf_discard_log(pid); unsigned long long ref = *(unsigned long long *)vf_sh->note;
            run_history(p, mem, ops, n, one, &fa); if (run_probe(p, mem) != ref) viol("C18:probe-differs", one, "probe differs from the fresh-process probe"); }
        else run_history(p, mem, ops, n, one, &fa);
        out_stats(PROP, "\"runs\":1,\"violations\":%ld", G->viol); return G->viol ? 1 : 0; }
    if ((LW_OVERRIDE = atol(arg_str(argc, argv, "--lwork", "0"))) < 0) LW_OVERRIDE = 0;
    if (arg_int(argc, argv, "--lwsweep", 0)) {
        /* C14 family refact-lwork (added after seeded change C14/3 was missed): a first factorization with ONE thread into a user workspace of every size
           (steps of 8 bytes up to 1.15 x the smallest size that lets the whole history succeed), then a re-factorization in the same workspace with 2-3
           threads and new values; each (history, size) in a forked child */
        if (strcmp(PROP, "C14")) AS_PROP = PROP;
        PROP = "C14"; P_ = arg_int(argc, argv, "--pat", 0); MEM_ = 1; int isl = 0, nsl = 1; sscanf(arg_str(argc, argv, "--slice", "0/1"), "%d/%d", &isl, &nsl);
        double deadline = atof(arg_str(argc, argv, "--deadline", "1e9")), t0 = now_s(); int step = arg_int(argc, argv, "--step", 8); int tight = arg_int(argc, argv, "--tight", 0);
        static const char *HS[6] = { "F0a,R1nb", "F0a,R1yb", "F1a,R0nc", "F0a,R0yc", "F1a,R4yb,R0nc", "F0b,R1na" };
        long runs = 0, memfail = 0, ok = 0, deaths = 0; int complete = 1; long idx = 0;
        for (int h = 0; h < 6; h++) {
            op_t ops[8]; char cs0[64]; snprintf(cs0, sizeof cs0, "pat=%d mem=1 ops=%s", P_, HS[h]); int nops = parse_ops(cs0, ops);
            /* smallest sufficient size by doubling */
            long top = 2048; for (;; top *= 2) { fflush(NULL); pid_t pid = fork(); if (pid == 0) { const char *sv = PROP; PROP = "none"; LW_OVERRIDE = top; int fa; run_history(P_, 1, ops, nops, cs0, &fa); PROP = sv; _exit(fa < 0 ? 0 : 1); } int st; waitpid(pid, &st, 0); vf_discard_log(pid); if ((WIFEXITED(st) && WEXITSTATUS(st) == 0) || top > (1L << 24)) break; }
            top = top + top / 8;
            /* tight estimates: the smallest sp_ienv(7) and sp_ienv(8) with which the whole history still succeeds in a large workspace; with the default
               estimates (50 x nnz) an overlap of work arrays and L/U storage only hits unused storage and stays invisible */
            if (tight) { int m7 = 0, m8 = 0;
                for (int which = 0; which < 2; which++) for (int f = 1; f <= 120; f++) { fflush(NULL); pid_t pid = fork();
                    if (pid == 0) { int fd = open("/dev/null", O_WRONLY); if (fd >= 0) dup2(fd, 2); const char *sv = PROP; PROP = "none"; LW_OVERRIDE = 1L << 20; TIGHT7 = which == 0 ? f : m7; TIGHT8 = which == 1 ? f : 0; int fa; run_history(P_, 1, ops, nops, cs0, &fa); PROP = sv; _exit(fa < 0 ? 0 : 1); }
                    int st; waitpid(pid, &st, 0); vf_discard_log(pid); if (WIFEXITED(st) && WEXITSTATUS(st) == 0) { if (which == 0) m7 = f; else m8 = f; break; } }
                TIGHT7 = m7; TIGHT8 = m8;
                if (m7 && m8) { top = 2048; for (;; top *= 2) { fflush(NULL); pid_t pid = fork(); if (pid == 0) { const char *sv = PROP; PROP = "none"; LW_OVERRIDE = top; int fa; run_history(P_, 1, ops, nops, cs0, &fa); PROP = sv; _exit(fa < 0 ? 0 : 1); } int st; waitpid(pid, &st, 0); vf_discard_log(pid); if ((WIFEXITED(st) && WEXITSTATUS(st) == 0) || top > (1L << 24)) break; } top = top + top / 8; }
            }
            for (long lw = 64; lw <= top; lw += step, idx++) {
                if (idx % nsl != isl) continue;
                if (now_s() - t0 > deadline) { complete = 0; break; }
                char cs[160]; snprintf(cs, sizeof cs, "pat=%d mem=1 lwork=%ld f7=%d f8=%d ops=%s", P_, lw, TIGHT7, TIGHT8, HS[h]);
                fflush(NULL); vf_sh->where[0] = 0; long calls0 = G->calls; pid_t pid = fork();
                if (pid == 0) { vf_install_fault_handlers(); vf_case_timer2(20, 120); LW_OVERRIDE = lw; int fa; snprintf((char *)vf_sh->note, sizeof vf_sh->note, "%s", cs); run_history(P_, 1, ops, nops, cs, &fa); fflush(NULL); _exit(fa < 0 ? 0 : 10); }
                int st = 0; waitpid(pid, &st, 0); vf_last_child = pid; runs++;
                if (WIFEXITED(st) && WEXITSTATUS(st) == 0) ok++;
                else if (WIFEXITED(st) && WEXITSTATUS(st) == 10) memfail++;
                else { int kind, code; if (WIFSIGNALED(st)) { kind = VF_SIGNAL; code = WTERMSIG(st); } else if (WEXITSTATUS(st) == 99) { kind = VF_ASAN; code = 99; } else if (WEXITSTATUS(st) == 97) { kind = VF_TIMEOUT; code = 97; } else if (WEXITSTATUS(st) == 98) { kind = VF_FAULT; code = 98; } else { kind = VF_EXIT; code = WEXITSTATUS(st); }
                    char cd[160], sig[220]; vf_crash_desc(kind, code, cd, sizeof cd); const char *site = strchr(cd, '@');
                    if (kind == VF_EXIT && (code == 1 || code == 255)) { memfail++; continue; }        /* the library's abort path (diagnostic on stderr) */
                    /* judged for C08: only a death AFTER the first factorization has returned (a first factorization that dies in a too small workspace is the known finding of C14) */
                    if (AS_PROP && G->calls == calls0) { deaths++; G->deaths++; continue; }
                    snprintf(sig, sizeof sig, "C14:lwork:crash:%s", site ? site : cd); deaths++; G->deaths++; viol(sig, cs, "memory error instead of info > n or the abort path (%s)", cd); }
                note_distinct(hmix(hmix((unsigned long long)lw, (unsigned long long)h * 131 + (unsigned long long)P_), (unsigned long long)st));
            }
        }
        out_stats(AS_PROP ? AS_PROP : PROP, "\"family\":\"refact-lwork\",\"pat\":%d,\"slice\":\"%d/%d\",\"complete\":%s,\"runs\":%ld,\"judged\":%ld,\"violations\":%ld,\"distinct_outcomes\":%ld,\"successes\":%ld,\"returns_info_gt_n\":%ld,\"crashes\":%ld,\"wall_s\":%.2f",
                  P_, isl, nsl, complete ? "true" : "false", runs, runs, G->viol, G->distinct, ok, memfail, deaths, now_s() - t0);
        return 0;
    }
    P_ = arg_int(argc, argv, "--pat", 0); MEM_ = arg_int(argc, argv, "--mem", 0); DEPTH_ = arg_int(argc, argv, "--depth", 3); FULL_ = !strcmp(arg_str(argc, argv, "--grid", "quick"), "full");
    int isl = 0, nsl = 1; sscanf(arg_str(argc, argv, "--slice", "0/1"), "%d/%d", &isl, &nsl);
    double deadline = atof(arg_str(argc, argv, "--deadline", "1e9")), t0 = now_s(); int timeout = arg_int(argc, argv, "--timeout", 30);
    NALPHA = alphabet(ALPHA, FULL_);
    if (!strcmp(PROP, "C18")) {       /* reference probes from fresh processes */
        for (int m = 0; m < 2; m++) { pid_t pid = fork(); if (pid == 0) { unsigned long long h = run_probe(P_, m); memcpy((void *)vf_sh->note, &h, sizeof h); _exit(0); } int st; waitpid(pid, &st, 0); vf_discard_log(pid); memcpy(&PROBE_REF[m], (void *)vf_sh->note, sizeof(unsigned long long)); }
    }
    op_t cur[16]; long idx = 0; long total = count_or_run(DEPTH_, 0, cur, 0, &idx, 0, 0, 0);
    long per = (total + nsl - 1) / nsl, lo = per * isl, hi = lo + per; if (hi > total) hi = total; if (lo > hi) lo = hi;
    int complete = 1; long done = 0;
    for (long a = lo; a < hi; a += 512) {
        if (now_s() - t0 > deadline) { complete = 0; break; }
        long b = a + 512 < hi ? a + 512 : hi, next = a;
        while (next < b) {
            fflush(NULL); vf_sh->where[0] = 0; long runs_before = G->runs;
            pid_t pid = fork();
            if (pid == 0) { signal(SIGALRM, vf_alarm); vf_install_fault_handlers(); vf_case_timer2(timeout * 20, timeout * 60);
                if (!strcmp(PROP, "C18")) { /* C18 prefixes additionally start with each extra event (and with none) */ }
                long i2 = 0; count_or_run(DEPTH_, 0, cur, 0, &i2, next, b, 1); fflush(NULL); _exit(0); }
            int st = 0; waitpid(pid, &st, 0); vf_last_child = pid;
            if (WIFEXITED(st) && WEXITSTATUS(st) == 0) break;
            int kind, code; if (WIFSIGNALED(st)) { kind = VF_SIGNAL; code = WTERMSIG(st); } else if (WEXITSTATUS(st) == 99) { kind = VF_ASAN; code = 99; } else if (WEXITSTATUS(st) == 97) { kind = VF_TIMEOUT; code = 97; } else if (WEXITSTATUS(st) == 98) { kind = VF_FAULT; code = 98; } else { kind = VF_EXIT; code = WEXITSTATUS(st); }
            char cd[160], sig[220]; vf_crash_desc(kind, code, cd, sizeof cd); const char *site = strchr(cd, '@');
            snprintf(sig, sizeof sig, "%s:crash:%s:mem%d", PROP, site ? site : cd, MEM_);
            G->deaths++; viol(sig, (const char *)vf_sh->note, "process died (%s) while running this history", cd);
            next = next + (G->runs - runs_before) + 1;      /* resume behind the history that died */
        }
        done += b - a;
    }
    /* C18: the extra prefix events (each alone and each followed by every depth-1/2 history is covered by running the probe after them) */
    if (!strcmp(PROP, "C18") && isl == 0) {
        for (int ev = 0; ev < 4; ev++) for (int rep = 1; rep <= 2; rep++) {
            fflush(NULL); pid_t pid = fork();
            if (pid == 0) { vf_install_fault_handlers(); for (int k = 0; k < rep; k++) extra_event(ev, P_); unsigned long long hp = run_probe(P_, MEM_); G->judged++; G->runs++;
                { unsigned long long hx = run_probe(P_, 1 - MEM_); if (hx != PROBE_REF[1 - MEM_]) { char cs2[64], sig2[64]; snprintf(cs2, sizeof cs2, "pat=%d mem=%d extra=%d x%d", P_, MEM_, ev, rep); snprintf(sig2, sizeof sig2, "C18:probe-differs:other-mode:after-extra%d:mem%d", ev, MEM_); viol(sig2, cs2, "probe in the other memory mode after the extra event differs from the fresh-process probe"); } }
                if (hp != PROBE_REF[MEM_]) { char cs[64], sig[64]; snprintf(cs, sizeof cs, "pat=%d mem=%d extra=%d x%d", P_, MEM_, ev, rep); snprintf(sig, sizeof sig, "C18:probe-differs:after-extra%d:mem%d", ev, MEM_); viol(sig, cs, "probe after %d x extra event %d (0 singular call, 1 failed allocation, 2 expert driver, 3 other size) differs from the fresh-process probe", rep, ev); }
                fflush(NULL); _exit(0); }
            int st; waitpid(pid, &st, 0); vf_discard_log(pid);
            if (!(WIFEXITED(st) && WEXITSTATUS(st) == 0)) { G->deaths++; }
        }
    }
    out_stats(PROP, "\"pat\":%d,\"mem\":%d,\"depth\":%d,\"alphabet\":%d,\"slice\":\"%d/%d\",\"histories\":%ld,\"histories_total\":%ld,\"complete\":%s,\"runs\":%ld,\"library_calls\":%ld,\"judged\":%ld,\"skipped\":%ld,\"violations\":%ld,\"distinct_outcomes\":%ld,\"deaths\":%ld,\"wall_s\":%.2f",
              P_, MEM_, DEPTH_, NALPHA, isl, nsl, G->hist, hi - lo, complete ? "true" : "false", G->runs, G->calls, G->judged, G->skipped, G->viol, G->distinct, G->deaths, now_s() - t0);
    return 0;
}
