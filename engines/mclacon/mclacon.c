/* Engine Q (part 10): hidden state of the 1-norm estimator ?lacon_ (used by ?gscon and ?gsrfs, i.e. by every expert-driver call).
 *
 * ?lacon_ is a reverse-communication routine that keeps its loop state in function-static variables between the calls of ONE
 * estimate.  C18: an estimate depends only on its own arguments - whatever estimates were made before in the process.
 *
 * Catalogue (exhaustive): every 2x2 matrix with entries in {-2..2} and every 3x3 matrix with entries in {-1,0,1}
 * (complex: entries in {0,1,-1,i} for n = 2 and {0,1,i} for n = 3).  For each catalogue matrix M the estimate of ||M||_1 is
 * driven to completion with exact integer matrix-vector products.
 *   reference  : est(M) as the ONLY estimate of a fresh process (one fork per matrix)
 *   histories  : for every prefix p out of R representatives of every iteration class (number of reverse-communication
 *                returns of the fresh run: 2, 3, ... 11) one process runs est(p) and then est(M) for EVERY catalogue matrix M;
 *                plus the whole catalogue in reverse order.  Every estimate (value bits, the vector v, number of
 *                returns, sequence of kase values) must be bit-identical to the reference.
 * Also judged per estimate: est is a lower bound of ||M||_1 and equals ||v||_1 for the returned v = M*w.
 *
 *   mclacon --prop C18 [--reps 4] [--slice i/k]
 */
#include "../common/factor.h"

static const char *PROP = "C18";
#define MAXM 21000
typedef struct { int n; signed char re[9], im[9]; } cmat_t;
typedef struct { unsigned long long h; int calls; double est; } res_t;
static cmat_t *CAT; static int NCAT;
static res_t *REF;      /* shared: written by forked children */
static long n_est, n_viol, n_distinct; static char sigs[16][64]; static int printed[16], nsig; static int samples_left = 3;
static unsigned long long hmix(unsigned long long h, unsigned long long v) { h ^= v + 0x9E3779B97F4A7C15ULL + (h << 6) + (h >> 2); return h; }
static void viol(const char *sig, const char *cs, const char *fmt, ...) {
    char buf[600]; va_list ap; va_start(ap, fmt); vsnprintf(buf, sizeof buf, fmt, ap); va_end(ap);
    n_viol++;
    int k; for (k = 0; k < nsig; k++) if (!strcmp(sigs[k], sig)) break;
    if (k == nsig) { if (nsig >= 16) return; snprintf(sigs[nsig++], 64, "%s", sig); }
    if (printed[k]++ < 3) out_violation(PROP, sig, cs, "%s", buf);
}
static void build_catalogue(void) {
    CAT = malloc(sizeof(cmat_t) * MAXM); NCAT = 0;
#if IS_COMPLEX
    static const signed char ER[4] = { 0, 1, -1, 0 }, EI[4] = { 0, 0, 0, 1 };
    for (int c = 0; c < 256; c++) { cmat_t *m = &CAT[NCAT++]; m->n = 2; int q = c; for (int k = 0; k < 4; k++) { m->re[k] = ER[q % 4]; m->im[k] = EI[q % 4]; q /= 4; } }
    static const signed char FR[3] = { 0, 1, 0 }, FI[3] = { 0, 0, 1 };
    for (int c = 0; c < 19683; c++) { cmat_t *m = &CAT[NCAT++]; m->n = 3; int q = c; for (int k = 0; k < 9; k++) { m->re[k] = FR[q % 3]; m->im[k] = FI[q % 3]; q /= 3; } }
#else
    for (int c = 0; c < 625; c++) { cmat_t *m = &CAT[NCAT++]; m->n = 2; int q = c; for (int k = 0; k < 4; k++) { m->re[k] = (signed char)(q % 5 - 2); m->im[k] = 0; q /= 5; } }
    for (int c = 0; c < 19683; c++) { cmat_t *m = &CAT[NCAT++]; m->n = 3; int q = c; for (int k = 0; k < 9; k++) { m->re[k] = (signed char)(q % 3 - 1); m->im[k] = 0; q /= 3; } }
#endif
}
static void mat_str(const cmat_t *m, char *b, size_t bl) { int o = snprintf(b, bl, "n=%d M=", m->n); for (int k = 0; k < m->n * m->n && o < (int)bl - 12; k++) { if (IS_COMPLEX) o += snprintf(b + o, bl - o, "%s%d%+di", k ? "," : "", m->re[k], m->im[k]); else o += snprintf(b + o, bl - o, "%s%d", k ? "," : "", m->re[k]); } }

/* one complete estimate of ||M||_1 (row-major M): returns the record */
static res_t estimate(const cmat_t *m, int *bad_bound) {
    int_t n = m->n, kase = 0, isgn[4]; scalar_t v[4], x[4], y[4]; real_t est = 0; res_t r; r.h = 1469598103934665603ULL; r.calls = 0;
    memset(v, 0, sizeof v); memset(x, 0, sizeof x); memset(isgn, 0, sizeof isgn);
    for (;;) {
#if IS_COMPLEX
        FN(,lacon_)(&n, v, x, &est, &kase);
#else
        FN(,lacon_)(&n, v, x, isgn, &est, &kase);
#endif
        r.calls++; r.h = hmix(r.h, (unsigned long long)kase);
        if (kase == 0 || r.calls > 200) break;
        for (int i = 0; i < n; i++) { ldc s = 0; for (int j = 0; j < n; j++) { ldc a = (kase == 1) ? (ld)m->re[i * n + j] + (ld)m->im[i * n + j] * 1.0iL : (ld)m->re[j * n + i] - (ld)m->im[j * n + i] * 1.0iL; s += a * S2L(x[j]); } y[i] = L2S(s); }
        for (int i = 0; i < n; i++) x[i] = y[i];
        for (int i = 0; i < n; i++) { unsigned long long b = 0; memcpy(&b, &x[i], sizeof(scalar_t) < 8 ? sizeof(scalar_t) : 8); r.h = hmix(r.h, b); }
    }
    r.est = (double)est; { unsigned long long b = 0; memcpy(&b, &est, sizeof est); r.h = hmix(r.h, b); }
    for (int i = 0; i < n; i++) { unsigned long long b = 0; memcpy(&b, &v[i], sizeof(scalar_t) < 8 ? sizeof(scalar_t) : 8); r.h = hmix(r.h, b); }
    /* lower bound of the true 1-norm */
    ld nrm = 0; for (int j = 0; j < n; j++) { ld c = 0; for (int i = 0; i < n; i++) c += hypotl((ld)m->re[i * n + j], (ld)m->im[i * n + j]); if (c > nrm) nrm = c; }
    *bad_bound = ((ld)est > nrm * (1 + 32 * (ld)UROUND) + 1e-30L) || r.calls > 200;
    return r;
}

int main(int argc, char **argv)
{
    out_init();
    PROP = arg_str(argc, argv, "--prop", "C18");
    int reps = arg_int(argc, argv, "--reps", 4);
    int isl = 0, nsl = 1; sscanf(arg_str(argc, argv, "--slice", "0/1"), "%d/%d", &isl, &nsl);
    double deadline = atof(arg_str(argc, argv, "--deadline", "1e9")), t0 = now_s();
    build_catalogue();
    REF = mmap(NULL, sizeof(res_t) * MAXM, PROT_READ | PROT_WRITE, MAP_SHARED | MAP_ANONYMOUS, -1, 0);
    long *CNT = mmap(NULL, sizeof(long) * 8, PROT_READ | PROT_WRITE, MAP_SHARED | MAP_ANONYMOUS, -1, 0);
    int complete = 1; char cs[200], ms[120];
    /* 1. references: one fresh process per matrix */
    for (int k = 0; k < NCAT; k++) {
        fflush(NULL); pid_t pid = fork();
        if (pid == 0) { int bb; REF[k] = estimate(&CAT[k], &bb); if (bb) REF[k].calls = -REF[k].calls; _exit(0); }
        int st; waitpid(pid, &st, 0);
        if (!(WIFEXITED(st) && WEXITSTATUS(st) == 0)) { mat_str(&CAT[k], ms, sizeof ms); snprintf(cs, sizeof cs, "%s", ms); viol("C18:lacon:crash", cs, "the estimator died on this matrix in a fresh process"); REF[k].calls = 0; }
        if (REF[k].calls < 0) { REF[k].calls = -REF[k].calls; mat_str(&CAT[k], ms, sizeof ms); viol("C18:lacon:not-a-lower-bound", ms, "est=%.17g exceeds ||M||_1 (or the estimate did not finish) in a fresh process", REF[k].est); }
        n_est++;
    }
    /* iteration classes */
    int cls_count[64] = { 0 }, cls_rep[64][8]; int maxc = 0;
    for (int k = 0; k < NCAT; k++) { int c = REF[k].calls; if (c < 0 || c > 63) c = 63; if (cls_count[c] < reps && cls_count[c] < 8) cls_rep[c][cls_count[c]] = k; else if (cls_count[c] % 977 == 1 && reps > 1) cls_rep[c][1 % reps] = k; cls_count[c]++; if (c > maxc) maxc = c; }
    /* 2. histories: prefix representative, then every catalogue matrix; and the whole catalogue backwards */
    int npref = 0, pref[64 * 8]; for (int c = 0; c < 64; c++) for (int r = 0; r < reps && r < 8 && r < cls_count[c]; r++) pref[npref++] = cls_rep[c][r];
    pref[npref++] = -1;      /* -1: reverse order, no prefix */
    for (int pi = isl; pi < npref; pi += nsl) {
        if (now_s() - t0 > deadline) { complete = 0; break; }
        fflush(NULL); pid_t pid = fork();
        if (pid == 0) {
            int bb; long diffs = 0;
            if (pref[pi] >= 0) { res_t r0 = estimate(&CAT[pref[pi]], &bb); CNT[0]++; if (r0.h != REF[pref[pi]].h) { mat_str(&CAT[pref[pi]], ms, sizeof ms); viol("C18:lacon:not-reproducible", ms, "the first estimate of a process differs from the reference run of the same matrix"); } }
            for (int q = 0; q < NCAT; q++) { int k = pref[pi] >= 0 ? q : NCAT - 1 - q; res_t r = estimate(&CAT[k], &bb); CNT[0]++;
                if (r.h != REF[k].h) { diffs++; char ps[120] = "none (catalogue in reverse order)"; if (pref[pi] >= 0) mat_str(&CAT[pref[pi]], ps, sizeof ps); mat_str(&CAT[k], ms, sizeof ms); snprintf(cs, sizeof cs, "probe %s | first estimate of the process: %s", ms, ps);
                    viol("C18:lacon:depends-on-history", cs, "estimate %.17g in %d returns after earlier estimates in the process; %.17g in %d returns as the only estimate of a fresh process", r.est, r.calls, REF[k].est, REF[k].calls); }
                if (bb) { mat_str(&CAT[k], ms, sizeof ms); viol("C18:lacon:not-a-lower-bound", ms, "est=%.17g exceeds ||M||_1 after earlier estimates", r.est); } }
            CNT[1] += n_viol; fflush(NULL); _exit(0);
        }
        int st; waitpid(pid, &st, 0);
        if (!(WIFEXITED(st) && WEXITSTATUS(st) == 0)) { viol("C18:lacon:crash", "history run", "the estimator died in a history run"); }
    }
    n_est += CNT[0]; n_viol += CNT[1];
    char cl[400]; int o = 0; cl[0] = 0; for (int c = 0; c < 64; c++) if (cls_count[c]) { o += snprintf(cl + o, sizeof cl - o, "%s%d:%d", o ? "," : "", c, cls_count[c]); n_distinct++; }
    out_sample(PROP, "catalogue %d matrices; estimator returns per estimate (class:count) {%s}; %d prefix runs", NCAT, cl, npref);
    out_stats(PROP, "\"family\":\"lacon\",\"slice\":\"%d/%d\",\"complete\":%s,\"runs\":%ld,\"judged\":%ld,\"violations\":%ld,\"distinct_outcomes\":%ld,\"catalogue\":%d,\"prefix_runs\":%d,\"max_returns\":%d,\"wall_s\":%.2f",
              isl, nsl, complete ? "true" : "false", n_est, n_est, n_viol, n_distinct + maxc, NCAT, npref, maxc, now_s() - t0);
    return 0;
}
