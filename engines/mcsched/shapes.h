/* The job catalogue of Engine S: small matrices whose elimination forests force the
 * interesting scheduler situations (see DESIGN.md 2.1).  Values: vk 0 = generic (off-diagonal
 * pivots happen), 1 = diagonally dominant (diagonal pivots), 2 = small integers. */
#ifndef VF_SHAPES_H
#define VF_SHAPES_H
static ldc shape_val(int vk, int i, int j, int n) {
    switch (vk) {
    case 1: return i == j ? (ld)(2 * n + 1 + (i % 3)) : generic_value(i, j, 3) / 4;
    case 2: { static const int t[] = { 1, 2, -1, 3, 1, -2, 2, 1, 4, -1, 1, 2 }; int k = (i * 5 + j * 3) % 12; return (ld)t[k]; }
    case 4: return (j == n / 2) ? 0 : generic_value(i, j, 1);       /* explicit zero column in the middle (K9) */
    case 7: return (i == j ? (ld)(2 * n + 1 + (i % 3)) : generic_value(i, j, 3) / 4) * (ld)1.5;      /* value set 1 scaled: the same pivots pass again (K16) */
    case 8: return i == j ? (i == n / 2 || i == 1 ? (ld)1e-3 : (ld)(2 * n + 1 + (i % 3))) : generic_value(i, j, 3) / 4;   /* value set 1 with two tiny diagonal entries: old pivots fail there (K16) */
    case 6: return (j == n / 3 || j == n / 2) ? 0 : generic_value(i, j, 1);   /* two explicit zero columns (K15: the first zero pivot must be reported whichever thread meets which) */
    default: return generic_value(i, j, 0);
    }
}
static int shape_build(const char *name, int vk, tmat_t *T) {
    int pat[NMAX][NMAX]; ldc D[NMAX][NMAX]; memset(pat, 0, sizeof pat); int n = 0; int k;
    if (sscanf(name, "chain%d", &k) == 1 && k <= NMAX) { n = k; for (int i = 0; i < n; i++) { pat[i][i] = 1; if (i + 1 < n) pat[i][i + 1] = pat[i + 1][i] = 1; } }
    else if (sscanf(name, "uchain%d", &k) == 1 && k <= NMAX) { n = k; for (int i = 0; i < n; i++) { pat[i][i] = 1; if (i + 1 < n) pat[i][i + 1] = 1; } }
    else if (sscanf(name, "fork%d", &k) == 1 && k <= NMAX) { n = k; for (int i = 0; i < n; i++) { pat[i][i] = 1; pat[i][n - 1] = 1; } }               /* n-1 leaves + root, unsymmetric */
    else if (sscanf(name, "sfork%d", &k) == 1 && k <= NMAX) { n = k; for (int i = 0; i < n; i++) { pat[i][i] = 1; pat[i][n - 1] = pat[n - 1][i] = 1; } }
    else if (sscanf(name, "dense%d", &k) == 1 && k <= NMAX) { n = k; for (int i = 0; i < n; i++) for (int j = 0; j < n; j++) pat[i][j] = 1; }
    else if (sscanf(name, "lower%d", &k) == 1 && k <= NMAX) { n = k; for (int i = 0; i < n; i++) for (int j = 0; j <= i; j++) pat[i][j] = 1; for (int i = 0; i + 1 < n; i++) pat[i][i + 1] = 1; }
    else if (!strcmp(name, "tree7")) { n = 7; int par[7] = { 2, 2, 6, 5, 5, 6, 7 }; for (int i = 0; i < 7; i++) { pat[i][i] = 1; if (par[i] < 7) pat[i][par[i]] = pat[par[i]][i] = 1; } }
    else if (!strcmp(name, "utree7")) { n = 7; int par[7] = { 2, 2, 6, 5, 5, 6, 7 }; for (int i = 0; i < 7; i++) { pat[i][i] = 1; if (par[i] < 7) pat[i][par[i]] = 1; } }
    else if (!strcmp(name, "two6")) { n = 6; int par[6] = { 2, 2, 6, 5, 5, 6 }; for (int i = 0; i < 6; i++) { pat[i][i] = 1; if (par[i] < 6) pat[i][par[i]] = pat[par[i]][i] = 1; } }
    else if (!strcmp(name, "two8")) { n = 8; int par[8] = { 1, 2, 3, 8, 5, 6, 7, 8 }; for (int i = 0; i < 8; i++) { pat[i][i] = 1; if (par[i] < 8) pat[i][par[i]] = pat[par[i]][i] = 1; } }
    else if (!strcmp(name, "relax6")) { n = 6; /* two bushy leaf subtrees {0,1,2} {3,4} under root 5 */ int par[6] = { 2, 2, 5, 4, 5, 6 }; for (int i = 0; i < 6; i++) { pat[i][i] = 1; if (par[i] < 6) pat[i][par[i]] = pat[par[i]][i] = 1; } pat[0][5] = 1; }
    else if (!strcmp(name, "bush7")) { n = 7; /* K5b (added after seeded change C03-4 was missed): column etree {0,1}->2->3->4->5->6; with relax 3 the relaxed supernode {0,1,2} is a
                                                  BRANCHING subtree (contiguous columns, not an etree path); columns 3..6 are full, so the pipelined panels 4,5,6 have
                                                  entries in the pivot rows of the off-path column 1 */
        for (int i = 0; i < 7; i++) for (int j = 0; j < 7; j++) pat[i][j] = j == 0 ? (i == 0 || i == 2) : j == 1 ? (i == 1 || i == 3) : j == 2 ? (i >= 2) : 1; }
    else if (!strncmp(name, "forest:", 7)) {          /* I + sum e_j e_parent(j)^T ; parent digits, 'r' or digit n = root */
        const char *p = name + 7; n = (int)strlen(p); if (n > NMAX) return 0;
        for (int j = 0; j < n; j++) { pat[j][j] = 1; int par = (p[j] >= '0' && p[j] <= '9') ? p[j] - '0' : (p[j] >= 'a' && p[j] <= 'c') ? 10 + p[j] - 'a' : n; if (par < n && par > j) pat[j][par] = 1; }
    }
    else if (!strncmp(name, "sforest:", 8)) {         /* symmetric pattern of the same forest: L has structure, supernodes can join */
        const char *p = name + 8; n = (int)strlen(p); if (n > NMAX) return 0;
        for (int j = 0; j < n; j++) { pat[j][j] = 1; int par = (p[j] >= '0' && p[j] <= '9') ? p[j] - '0' : n; if (par < n && par > j) pat[j][par] = pat[par][j] = 1; }
    }
    else if (!strncmp(name, "pat:", 4)) {             /* pat:<n>:<row-major 0/1 string> */
        const char *p = name + 4; n = atoi(p); p = strchr(p, ':'); if (!p || n > NMAX) return 0; p++;
        if ((int)strlen(p) < n * n) return 0;
        for (int i = 0; i < n; i++) for (int j = 0; j < n; j++) pat[i][j] = p[i * n + j] == '1';
    }
    else return 0;
    for (int i = 0; i < n; i++) for (int j = 0; j < n; j++) D[i][j] = shape_val(vk, i, j, n);
    tm_from_dense(T, n, n, pat, D);
    return n;
}
#endif
