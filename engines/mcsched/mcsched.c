/* Engine S: stateless, preemption-bounded, depth-first exploration (CHESS style) of the REAL
 * factorization under a baton scheduler.  The library is built with the guard on and with
 * pthread_create/join/mutex_* renamed to vf_*; every hook event is a scheduling point.
 *
 *   mcsched --prop C03 --shape fork3 --P 2 --bound 1 [--w 1 --relax 1 --ms 4 --drv 0 --dyn 0 --vk 0]
 *   mcsched --prop C03 --one "<case> sched=0,0,1,..."
 *
 * Process structure: a supervisor forks the explorer; the DFS stack lives in shared memory, so that
 * an execution that kills the process (crash, deadlock, runaway) is reported with its schedule and
 * the search resumes behind it.
 */
#define VF_OWN_EVENT_HANDLER
#include "../common/factor.h"
#include "shapes.h"
#include <sys/prctl.h>
#include <fcntl.h>
#include "../mcproto/proto_model.h"

#define MAXT 6
#define MAXPTS 3000
#define MAXDEPTH 96
#define EVLOG 16384

static const char *PROP = "C03";

/* ------------------------------------------------------------------ shared exploration state */
typedef struct { short len, npts, i, alt; unsigned char ch[MAXPTS], ne[MAXPTS], co[MAXPTS], re[MAXPTS]; } frame_t;
typedef struct {
    int depth; frame_t fr[MAXDEPTH];
    int in_exec; int cur_len; unsigned char cur_prefix[MAXPTS];
    long executions, choice_points, steps, violations, lost_subtrees, maxpts, deaths, lib_aborts; int have_ref, ref_info;
    long sched_rets, regular_panels, pipelined_panels, waits_blocked;
    long race_data_acc, race_sync_acc, race_reports;
    long conf_execs_ok, conf_events, conf_divergences, conf_execs_unmodelled; char conf_msg[300];
    unsigned long long outcomes[256]; int noutc;
    unsigned long long traces[1 << 21]; long ntraces;
    int death_kind; char death_msg[400];
    int samples_left; int done; int bound_done;
    char viol_sigs[32][96]; int nsig;
} explore_t;
static explore_t *X;
static int BOUND = 1, NPROC = 2, HORIZON = MAXPTS - 8;
static tmat_t TM; static fcfg_t CFG; static char CASE[700];
static double DEADLINE = 1e18, T0;

static unsigned long long hmix_(unsigned long long h, unsigned long long v) { h ^= v + 0x9E3779B97F4A7C15ULL + (h << 6) + (h >> 2); return h; }
/* ------------------------------------------------------------------ baton scheduler */
enum { OP_NONE, OP_LOCK, OP_JOIN, OP_FLAG, OP_POLL };
typedef struct { int used, finished; pthread_t th; pthread_cond_t cv; int op; void *obj; int jtarget; long poll_version, lc_version; void *(*fn)(void *); void *arg; } T_t;
static T_t th[MAXT]; static int nth, cur;
static pthread_mutex_t big = PTHREAD_MUTEX_INITIALIZER;
static __thread int me = 0;
static long version;
static void *mtx_key[16]; static int mtx_owner[16], nmtx;
static unsigned char prefix[MAXPTS]; static int prefix_len;
static unsigned char choice[MAXPTS], nenab[MAXPTS], cost_at[MAXPTS], run_en[MAXPTS]; static int npts, preempts;
static long steps_exec;
static struct { short t, kind; long a, b, c; } evlog[EVLOG]; static int nev;
static unsigned long long trace_hash;

/* per-execution violation collector (first message per signature) */
static struct { char sig[96], msg[300]; } pend[16]; static int npend;
static void mon_viol(const char *sig, const char *fmt, ...) {
    for (int i = 0; i < npend; i++) if (!strcmp(pend[i].sig, sig)) return;
    if (npend >= 16) return;
    va_list ap; va_start(ap, fmt); vsnprintf(pend[npend].msg, sizeof pend[npend].msg, fmt, ap); va_end(ap);
    snprintf(pend[npend].sig, sizeof pend[npend].sig, "%s", sig); npend++;
}

#ifdef VF_RACE
#include "race_rt.h"
#define RACE_MON 1
#else
#define RACE_MON 0
#endif
static int mslot(void *m) { for (int i = 0; i < nmtx; i++) if (mtx_key[i] == m) return i; if (nmtx >= 16) { fprintf(stderr, "too many mutexes\n"); _exit(96); } mtx_key[nmtx] = m; mtx_owner[nmtx] = -1; return nmtx++; }
static int is_enabled(int t) {
    T_t *x = &th[t]; if (!x->used || x->finished) return 0;
    switch (x->op) {
    case OP_LOCK: return mtx_owner[mslot(x->obj)] < 0;
    case OP_JOIN: return th[x->jtarget].finished;
    case OP_FLAG: return *(volatile int_t *)x->obj == 0;
    case OP_POLL: return version != x->poll_version;
    default: return 1;
    }
}
static void sched_dump(FILE *f) {
    for (int t = 0; t < nth; t++) fprintf(f, " t%d fin=%d op=%d obj=%p jt=%d pv=%ld lc=%ld\n", t, th[t].finished, th[t].op, th[t].obj, th[t].jtarget, th[t].poll_version, th[t].lc_version);
    for (int i = nev > 60 ? nev - 60 : 0; i < nev; i++) fprintf(f, "  ev t%d kind=%d a=%ld b=%ld\n", evlog[i % EVLOG].t, evlog[i % EVLOG].kind, evlog[i % EVLOG].a, evlog[i % EVLOG].b);
}
static void die_with(int kind, const char *fmt, ...) {
    va_list ap; va_start(ap, fmt); vsnprintf(X->death_msg, sizeof X->death_msg, fmt, ap); va_end(ap);
    X->death_kind = kind;
    if (getenv("VF_VERBOSE")) { fprintf(stderr, "%s\n", X->death_msg); sched_dump(stderr); }
    _exit(90 + kind);
}
/* decide who runs next; called with `big` held by the running thread; returns when `me` is scheduled again */
static void point(void) {
    int en[MAXT], ne = 0;
    steps_exec++; X->steps++;
    if (npts >= HORIZON) die_with(2, "runaway: more than %d scheduling points in one execution (livelock?)", HORIZON);
    if (is_enabled(me)) en[ne++] = me;
    for (int t = 0; t < nth; t++) if (t != me && is_enabled(t)) en[ne++] = t;
    if (ne == 0) die_with(1, "deadlock: no thread is enabled and not all have finished (thread %d was running)", me);
    int c = 0;
    if (npts < prefix_len) { c = prefix[npts]; if (c >= ne) die_with(3, "replay divergence at point %d: choice %d of %d enabled", npts, c, ne); }
    int re = (en[0] == me);
    choice[npts] = (unsigned char)c; nenab[npts] = (unsigned char)ne; cost_at[npts] = (unsigned char)preempts; run_en[npts] = (unsigned char)re; npts++;
    int nxt = en[c]; if (re && nxt != me) preempts++;
    if (nxt != me) { cur = nxt; pthread_cond_signal(&th[nxt].cv); while (cur != me) pthread_cond_wait(&th[me].cv, &big); }
}
static void *tramp(void *p) {
    int id = (int)(long)p; me = id;
    pthread_mutex_lock(&big); while (cur != me) pthread_cond_wait(&th[me].cv, &big); pthread_mutex_unlock(&big);
    th[me].fn(th[me].arg);
    pthread_mutex_lock(&big);
    th[me].finished = 1; th[me].op = OP_NONE;
    { int en[MAXT], ne = 0;
      for (int t = 0; t < nth; t++) if (is_enabled(t)) en[ne++] = t;
      if (ne == 0) die_with(1, "deadlock at thread exit: nobody can run");
      if (npts >= HORIZON) die_with(2, "runaway");
      int c = 0; if (npts < prefix_len) { c = prefix[npts]; if (c >= ne) die_with(3, "replay divergence at thread exit"); }
      choice[npts] = (unsigned char)c; nenab[npts] = (unsigned char)ne; cost_at[npts] = (unsigned char)preempts; run_en[npts] = 0; npts++;
      cur = en[c]; pthread_cond_signal(&th[cur].cv); }
    pthread_mutex_unlock(&big);
    return NULL;
}

/* ------------------------------------------------------------------ conformance: replay the execution on the protocol model */
static int MODEL_ENABLED = 1;
static pm_ctx_t MC; static pm_state_t MS; static int model_on, model_div, model_events; static int nsuper_leader[64];
static void model_diverge(const char *fmt, ...) {
    if (model_div) return; model_div = 1; X->conf_divergences++;
    char m[300]; { va_list ap; va_start(ap, fmt); vsnprintf(m, sizeof m, fmt, ap); va_end(ap); }
    if (!X->conf_msg[0]) snprintf(X->conf_msg, sizeof X->conf_msg, "%s", m);
    /* the exhaustive search of Engine P speaks about the code only through this binding: an execution of the real workers that is not a
       behaviour of the protocol model is reported as a violation of the property under check (with its schedule, replayable) */
    { char sig[32]; snprintf(sig, sizeof sig, "%.3s:conformance", PROP); mon_viol(sig, "this execution of the real workers is not a behaviour of the verified scheduler-protocol model: %s", m); }
}
static pxgstrf_shared_t *SH; static superlumt_options_t *OPT; static int MN;
static void model_compare(const char *when) {
    int n = MN; if (!model_on || model_div) return;
    for (int i = 0; i <= n; i++) {
        if (MS.state[i] != (signed char)SH->pan_status[i].state) { model_diverge("%s: state[%d] model=%d real=%d", when, i, MS.state[i], (int)SH->pan_status[i].state); return; }
        if (i < n && MS.ukids[i] != (signed char)SH->pan_status[i].ukids) { model_diverge("%s: ukids[%d] model=%d real=%d", when, i, MS.ukids[i], (int)SH->pan_status[i].ukids); return; }
        if (i < n && SH->pan_status[i].size > 0 && MS.fb[i] != (signed char)SH->fb_cols[i]) { model_diverge("%s: fb_cols[%d] model=%d real=%d", when, i, MS.fb[i], (int)SH->fb_cols[i]); return; }
    }
    for (int i = 0; i < n; i++) if (MS.spin[i] != (signed char)SH->spin_locks[i]) { model_diverge("%s: spin_locks[%d] model=%d real=%d", when, i, MS.spin[i], (int)SH->spin_locks[i]); return; }
    if (MS.head != SH->taskq.head || MS.tail != SH->taskq.tail || MS.count != SH->taskq.count) { model_diverge("%s: queue head/tail/count model=%d/%d/%d real=%d/%d/%d", when, MS.head, MS.tail, MS.count, (int)SH->taskq.head, (int)SH->taskq.tail, (int)SH->taskq.count); return; }
    for (int i = MS.head; i < MS.tail; i++) if (MS.q[i] != (signed char)SH->taskq.queue[i]) { model_diverge("%s: queue[%d] model=%d real=%d", when, i, MS.q[i], (int)SH->taskq.queue[i]); return; }
    if (MS.tasks != SH->tasks_remain) { model_diverge("%s: tasks_remain model=%d real=%d", when, MS.tasks, (int)SH->tasks_remain); return; }
}
static void model_start(void) {
    model_on = 0; model_div = 0; model_events = 0;
    if (!MODEL_ENABLED) return;
    if (!SH || MN > PM_NMAX || NPROC > PM_PMAX || MN < 1) { X->conf_execs_unmodelled++; return; }
    int par[PM_NMAX + 1]; for (int i = 0; i < MN; i++) par[i] = (int)OPT->etree[i];
    pm_init(&MC, MN, NPROC, (int)OPT->panel_size, (int)OPT->relax, par, &MS);
    for (int i = 0; i < 64; i++) nsuper_leader[i] = -1;
    model_on = 1; model_compare("initial state");
}
static void model_stop(void) { if (model_on) { if (!model_div) { int allexit = 1; for (int i = 0; i < NPROC; i++) if (MS.w[i].ph != PH_EXIT) allexit = 0; if (!allexit) model_diverge("end of execution: a model worker has not reached EXIT"); } if (!model_div) X->conf_execs_ok++; X->conf_events += model_events; pm_free(&MC); model_on = 0; } }
/* one implementation event of worker pnum -> the corresponding model step */
static void model_event(int kind, long a, long b, long c) {
    if (!model_on || model_div) return;
    int wi = (int)a; pm_wk_t *w;
    switch (kind) {
    case VE_LOOP_CHECK: if (wi < 0 || wi >= NPROC) return; w = &MS.w[wi]; model_compare("before poll"); if (w->ph != PH_CHECK) { model_diverge("poll of tasks_remain by worker %d in model phase %d", wi, w->ph); return; } pm_step_check(&MS, wi); model_events++; break;
    case VE_SCHED_RET: { w = &MS.w[wi]; if (w->ph != PH_SCHED) { model_diverge("scheduler call by worker %d in model phase %d", wi, w->ph); return; } int mb; int mj = pm_step_sched(&MC, &MS, wi, &mb); model_events++;
        if (mj != (int)b || (mj != EMPTY && mb != (int)c)) { model_diverge("scheduler: model hands (panel %d, bcol %d) to worker %d, implementation (%ld, %ld)", mj, mb, wi, b, c); return; } model_compare("after scheduler"); break; }
    case VE_MARK_BUSY: w = &MS.w[wi]; model_compare("before mark_busy"); if (w->ph != PH_MARK || w->jcol != (int)b) { model_diverge("mark_busy_descends(panel %ld) by worker %d in model phase %d panel %d", b, wi, w->ph, w->jcol); return; } pm_step_mark(&MC, &MS, wi); model_events++; break;
    case VE_MARK_BUSY_END: w = &MS.w[wi]; if (w->bcol != (int)c) model_diverge("mark_busy_descends: adjusted bcol model=%d real=%ld", w->bcol, c); break;
    case VE_FLAG_CHECK: if (wi < 0) return; w = &MS.w[wi]; model_compare("after flag wait"); if (w->ph != PH_WAIT || w->kcol != (int)b) { model_diverge("worker %d waits for column %ld; model phase %d expects column %d", wi, b, w->ph, w->kcol); return; } pm_step_wait(&MC, &MS, wi, NULL, NULL); model_events++; break;
    case VE_NEWSUPER: w = &MS.w[wi]; if ((int)c >= 0 && (int)c < 64) nsuper_leader[(int)c] = (int)b; if (w->ph == PH_RELAX_SUPER) { if (w->jcol != (int)b) { model_diverge("relaxed supernode: model panel %d real %ld", w->jcol, b); return; } pm_step_relax_super(&MC, &MS, wi); model_events++; } break;
    case VE_COL_SUPER: { w = &MS.w[wi]; int col = (int)b; if (w->ph != PH_COLSUPER || w->jcol + w->ci != col) { model_diverge("column %d enters a supernode (worker %d); model phase %d column %d", col, wi, w->ph, w->jcol + w->ci); return; }
        int leader = ((int)c >= 0 && (int)c < 64) ? nsuper_leader[(int)c] : -1; int join = (leader >= 0 && leader != col);
        if (join && (!pm_can_join(&MC, &MS, col) || MS.supno[col - 1] != leader)) { model_diverge("column %d joins supernode of column %d; the model does not allow that join", col, leader); return; }
        pm_step_colsuper(&MC, &MS, wi, join); model_events++; break; }
    case VE_RELEASE: w = &MS.w[wi]; model_compare("before release");
        if (w->ph == PH_RELAX_REL && w->jcol == (int)b) pm_step_relax_release(&MC, &MS, wi);
        else if (w->ph == PH_COLREL && w->jcol + w->ci == (int)b) pm_step_colrelease(&MC, &MS, wi);
        else { model_diverge("release of column %ld by worker %d in model phase %d (panel %d, ci %d)", b, wi, w->ph, w->jcol, w->ci); return; }
        model_events++; break;
    case VE_PANEL_DONE: w = &MS.w[wi]; model_compare("before DONE"); if (w->ph != PH_DONE || w->jcol != (int)b) { model_diverge("panel %ld DONE by worker %d in model phase %d", b, wi, w->ph); return; } pm_step_done(&MS, wi); model_events++; break;
    case VE_THREAD_EXIT: w = &MS.w[wi]; if (w->ph != PH_EXIT) model_diverge("worker %d leaves its loop in model phase %d", wi, w->ph); break;
    default: break;
    }
    for (int k = 1; k < 8; k++) if (MC.viol[k]) { char sig[64]; snprintf(sig, sizeof sig, "%s:protocol-on-real-trace:I%d", k <= 3 ? "C03" : "C04", k); mon_viol(sig, "%s (protocol invariant evaluated on the model state reached by the REAL execution)", MC.first_msg[k]); MC.viol[k] = 0; }
}

/* ------------------------------------------------------------------ monitors (C03 / C04) */
static int col_released[NMAX], col_pivoted[NMAX], col_begun[NMAX], col_stored[NMAX], panel_taken[NMAX], panel_done[NMAX], panel_owner[NMAX], col_owner[NMAX];
static int thr_panel[MAXT], thr_phase[MAXT];          /* current panel of a worker; phase 0 none, 1 panel_bmod, 2 inner columns */
static unsigned thr_applied[MAXT];                    /* descendant columns whose update was applied to the current panel (panel_bmod phase) */
static int thr_reading[MAXT][2];                      /* open READ_SN bracket (fsupc,krep) or -1 */
static unsigned thr_marked[MAXT]; static int thr_mb_bcol[MAXT];
static int threads_created, threads_joined;
static int wt(int pnum) { return pnum + 1; }          /* worker pnum is scheduler thread pnum+1 (creation order) */

static int is_desc(int a, int j, const int_t *etree, int n) { while (a < j && a < n) a = etree[a]; return a == j; }
static int lead_of(int c) { int s = SH->pan_status[c].size; return s > 0 ? c : c + s; }

static void mon_reset(void) {
    memset(col_released, 0, sizeof col_released); memset(col_pivoted, 0, sizeof col_pivoted); memset(col_begun, 0, sizeof col_begun); memset(col_stored, 0, sizeof col_stored);
    memset(panel_taken, 0, sizeof panel_taken); memset(panel_done, 0, sizeof panel_done);
    for (int i = 0; i < NMAX; i++) { panel_owner[i] = -1; col_owner[i] = -1; }
    for (int t = 0; t < MAXT; t++) { thr_panel[t] = -1; thr_phase[t] = 0; thr_applied[t] = 0; thr_reading[t][0] = thr_reading[t][1] = -1; thr_marked[t] = 0; thr_mb_bcol[t] = -1; }
    SH = NULL; OPT = NULL; MN = 0; threads_created = threads_joined = 0;
}

/* I1 evaluated on the real structures when the scheduler hands out a regular panel */
static void mon_sched_ret(int pnum, int jcol, int bcol) {
    int n = MN; const int_t *etree = OPT->etree; queue_t *q = &SH->taskq;
    X->sched_rets++;
    if (q->head < 0 || q->tail > n || q->head > q->tail || q->count != q->tail - q->head)
        mon_viol("C04:queue-bounds", "task queue head=%d tail=%d count=%d with n=%d slots", (int)q->head, (int)q->tail, (int)q->count, n);
    if (jcol == EMPTY) return;
    if (jcol < 0 || jcol >= n || SH->pan_status[jcol].size <= 0) { mon_viol("C04:bad-panel", "scheduler returned %d which is not a panel leader", jcol); return; }
    if (panel_taken[jcol]++) mon_viol("C04:panel-twice", "panel %d handed out twice (now to worker %d, before to %d)", jcol, pnum, panel_owner[jcol]);
    panel_owner[jcol] = pnum;
    int untaken = 0; for (int c = 0; c < n; c++) if (SH->pan_status[c].size > 0 && !panel_taken[c]) untaken++;
    if (untaken != SH->tasks_remain) mon_viol("C04:tasks-remain", "tasks_remain=%d but %d panels are not taken yet", (int)SH->tasks_remain, untaken);
    if (SH->pan_status[jcol].type == RELAXED_SNODE) return;
    X->regular_panels++;
    int w = SH->pan_status[jcol].size, last = jcol + w - 1, deepest = -1, nbusy = 0; int dads[NMAX + 1] = { 0 };
    for (int c = 0; c < jcol; c++) {
        if (!is_desc(c, last, etree, n) || SH->pan_status[c].size <= 0) continue;     /* descendant panel leaders */
        if (!panel_taken[c]) { mon_viol("C03:I1:child-not-taken", "panel %d handed to worker %d while descendant panel %d has not even been taken", jcol, pnum, c); continue; }
        int unfin = 0; for (int k = c; k < c + SH->pan_status[c].size; k++) if (!col_released[k]) unfin = 1;
        if (!unfin) continue;
        nbusy++; if (deepest < 0 || c < deepest) deepest = c;
        int d = etree[c + SH->pan_status[c].size - 1]; d = d < n ? lead_of(d) : n;
        if (++dads[d] > 1) mon_viol("C03:I1:two-busy-children", "panel %d handed out while two unfinished descendant panels hang under panel %d (no single chain)", jcol, d);
        if (d != jcol && d < n) { int du = 0; for (int k = d; k < d + SH->pan_status[d].size; k++) if (!col_released[k]) du = 1; if (!du) mon_viol("C03:I1:gap-in-chain", "unfinished panel %d below the finished panel %d", c, d); }
    }
    if (nbusy) { X->pipelined_panels++; if (bcol > deepest) mon_viol("C03:I1:bcol", "panel %d: farthest busy column reported as %d but panel %d is still unfinished", jcol, bcol, deepest); }
}

static void mon_event(int kind, long a, long b, long c) {
    int t = me; int n = MN;
    switch (kind) {
    case VE_PANEL_BEGIN: thr_panel[t] = (int)b; thr_phase[t] = 1; thr_applied[t] = 0; thr_marked[t] = 0; break;
    case VE_MARK_BUSY: thr_mb_bcol[t] = (int)c; break;
    case VE_MARK_BUSY_END: {
        /* I2: what mark_busy_descends marked: [fsupc, bcol) (or the relaxed block) and the etree path bcol -> jcol */
        int jcol = (int)b, fs = (int)c, b0 = thr_mb_bcol[t]; const int_t *etree = OPT->etree; unsigned m = 0;
        int breg = b0;
        if (SH->pan_status[b0].type == RELAXED_SNODE) { breg = b0 + SH->pan_status[b0].size; for (int k = b0; k < breg; k++) m |= 1u << k; }
        else for (int k = fs; k < b0; k++) m |= 1u << k;
        for (int k = breg; k < jcol && k < n; k = etree[k]) m |= 1u << k;
        thr_marked[t] = m;
        int last = jcol + SH->pan_status[jcol].size - 1;
        for (int k = 0; k < jcol; k++) if (is_desc(k, last, etree, n) && !col_released[k] && !(m & (1u << k)))
            mon_viol("C03:I2:unmarked-busy", "panel %d: descendant column %d is not released but was not marked busy (marked set %x)", jcol, k, m);
        break; }
    case VE_READ_SN_BEGIN: {
        int f = (int)b, r = (int)c;
        thr_reading[t][0] = f; thr_reading[t][1] = r;
        for (int k = f; k <= r && k < n; k++) {
            int own = thr_panel[t] >= 0 && k >= thr_panel[t] && k < thr_panel[t] + SH->pan_status[thr_panel[t]].size;
            if (!col_released[k] && !own) mon_viol("C03:consume-unreleased", "worker %d (panel %d) starts an update with supernode %d..%d but column %d is not released yet", (int)a, thr_panel[t], f, r, k);
            if (!col_pivoted[k] && !own) mon_viol("C03:consume-unpivoted", "worker %d (panel %d) uses column %d before its pivot step", (int)a, thr_panel[t], k);
        }
        if (thr_phase[t] == 1) {       /* panel_bmod: each descendant column at most once per panel */
            for (int k = f; k <= r && k < 32; k++) { if (thr_applied[t] & (1u << k)) mon_viol("C03:update-twice", "panel %d receives the update of descendant column %d twice", thr_panel[t], k); thr_applied[t] |= 1u << k; }
        }
        break; }
    case VE_READ_SN_END: thr_reading[t][0] = thr_reading[t][1] = -1; break;
    case VE_COL_BEGIN: {
        int jj = (int)b, jcol = (int)c; const int_t *etree = OPT->etree;
        thr_phase[t] = 2;
        if (col_begun[jj]++) mon_viol("C04:column-twice", "column %d started twice", jj);
        col_owner[jj] = t;
        if (jj == jcol) {
            int last = jcol + SH->pan_status[jcol].size - 1;
            for (int k = 0; k < jcol; k++) if (is_desc(k, last, etree, n) && !col_released[k]) mon_viol("C03:start-before-descendants", "panel %d starts its own columns while descendant column %d is not released", jcol, k);
            /* I2b: every column that was marked busy (and therefore skipped by the DFS) must have been applied in the wait loop */
            unsigned miss = thr_marked[t] & ~thr_applied[t];
            if (miss) mon_viol("C03:I2b:marked-not-consumed", "panel %d: columns %x were marked busy but their update was never applied", jcol, miss);
        }
        break; }
    case VE_STORE_COL: case VE_ROW_XCHG: {
        int fs = (int)c;
        for (int u = 1; u < nth; u++) if (u != t && thr_reading[u][0] >= 0 && thr_reading[u][0] <= (int)b && fs <= thr_reading[u][1] && thr_reading[u][0] == fs)
            mon_viol(kind == VE_ROW_XCHG ? "C03:write-while-read:row-interchange" : "C03:write-while-read:store", "worker %d alters supernode starting at %d (column %d) while worker %d reads supernode %d..%d", t - 1, fs, (int)b, u - 1, thr_reading[u][0], thr_reading[u][1]);
        if (kind == VE_STORE_COL) col_stored[(int)b]++;
        break; }
    case VE_PIVOT_REC: if ((int)b >= 0 && (int)b < n) { if (col_pivoted[(int)b]++) mon_viol("C04:pivot-twice", "column %d pivoted twice", (int)b); } break;
    case VE_RELEASE: {
        int j = (int)b, w = (int)c;
        for (int k = j; k < j + w && k < n; k++) { if (col_released[k]++) mon_viol("C04:release-twice", "column %d released twice", k); if (!col_pivoted[k]) mon_viol("C03:release-before-pivot", "column %d released before its pivot step", k); }
        break; }
    case VE_PANEL_DONE: { int j = (int)b; if (panel_done[j]++) mon_viol("C04:done-twice", "panel %d finished twice", j);
        for (int k = j; k < j + SH->pan_status[j].size; k++) if (!col_released[k]) mon_viol("C03:done-before-release", "panel %d marked DONE with column %d unreleased", j, k);
        thr_panel[t] = -1; thr_phase[t] = 0; break; }
    default: break;
    }
}
static void mon_final(int info) {
    int n = MN; if (!SH && n == 0) return;
    if (threads_created != threads_joined) mon_viol("C04:threads-left", "%d threads created, %d joined when the driver returned", threads_created, threads_joined);
    for (int t = 1; t < nth; t++) if (!th[t].finished) mon_viol("C04:threads-left", "worker thread %d has not terminated", t - 1);
    if (info > n) return;     /* memory failure: nothing else is promised */
    for (int k = 0; k < n; k++) {
        if (col_pivoted[k] != 1) mon_viol("C04:column-count", "column %d was pivoted %d times", k, col_pivoted[k]);
        if (col_released[k] != 1) mon_viol("C04:column-count", "column %d was released %d times", k, col_released[k]);
    }
}

#ifdef VF_RACE
/* a conflicting, unordered pair on the stored values / row subscripts of L or U: C03 ("no thread alters the stored rows or values of a supernode while another
   thread is reading them", "uses only descendant columns that have already been pivoted and scaled") */
static void rt_report(const rt_range_t *r, char *addr, int t, int isw, int u, int uw, int uev, int ucol) {
    char sig[96]; long idx = (long)(addr - r->lo) / (r->esz > 0 ? r->esz : 4);
    rt_reports++; X->race_reports++;
    snprintf(sig, sizeof sig, "%s:data-race:%s:%s-after-%s", !strcmp(PROP, "C08") ? "C08" : "C03", r->name, isw ? "write" : "read", uw ? "write" : "read");     /* K16 jobs: the re-factorization reuses the L/U storage of the first call (C08) */
    mon_viol(sig, "unordered conflicting accesses to %s[%ld]: thread %d %s it (after its event kind %d, column %d) and thread %d %s it (after its event kind %d, column %d) with no happens-before edge "
             "(column flag, panel state, prune publication, lock, create/join) between the two", r->name, idx, u, uw ? "wrote" : "read", uev, ucol, t, isw ? "writes" : "reads", (int)rt_last_ev[t], (int)rt_last_col[t]);
}
static void rt_setup(void) {
    GlobalLU_t *G = SH->Glu; int n = MN;
    rt_add_range(G->lusup, sizeof(scalar_t) * (size_t)G->nzlumax, RT_DATA, "lusup", (int)sizeof(scalar_t));
    rt_add_range(G->lsub, sizeof(int_t) * (size_t)G->nzlmax, RT_DATA, "lsub", (int)sizeof(int_t));
    rt_add_range(G->ucol, sizeof(scalar_t) * (size_t)G->nzumax, RT_DATA, "ucol", (int)sizeof(scalar_t));
    rt_add_range(G->usub, sizeof(int_t) * (size_t)G->nzumax, RT_DATA, "usub", (int)sizeof(int_t));
    rt_add_range((void *)SH->spin_locks, sizeof(int_t) * (size_t)n, RT_SYNC, "spin_locks", (int)sizeof(int_t));
    rt_add_range(SH->pan_status, sizeof(pan_status_t) * (size_t)(n + 1), RT_SYNC, "pan_status", (int)sizeof(pan_status_t));
    rt_add_range((void *)&SH->tasks_remain, sizeof SH->tasks_remain, RT_SYNC, "tasks_remain", (int)sizeof(int_t));
    rt_add_range(SH->ispruned, sizeof(int_t) * (size_t)n, RT_SYNC, "ispruned", (int)sizeof(int_t));
    if (!getenv("VF_RACE_NOMETA")) {      /* column pointers of L and U and the prune pointers: written by the owner of a column before its release / under LLOCK, read by consumers after the flag or ispruned[] */
        rt_add_range(G->xlsub, sizeof(int_t) * (size_t)(n + 1), RT_DATA, "xlsub", (int)sizeof(int_t));
        rt_add_range(G->xlsub_end, sizeof(int_t) * (size_t)(n + 1), RT_DATA, "xlsub_end", (int)sizeof(int_t));
        rt_add_range(G->xlusup, sizeof(int_t) * (size_t)(n + 1), RT_DATA, "xlusup", (int)sizeof(int_t));
        rt_add_range(G->xlusup_end, sizeof(int_t) * (size_t)(n + 1), RT_DATA, "xlusup_end", (int)sizeof(int_t));
        rt_add_range(G->xusub, sizeof(int_t) * (size_t)(n + 1), RT_DATA, "xusub", (int)sizeof(int_t));
        rt_add_range(G->xusub_end, sizeof(int_t) * (size_t)(n + 1), RT_DATA, "xusub_end", (int)sizeof(int_t));
        rt_add_range(SH->xprune, sizeof(int_t) * (size_t)n, RT_DATA, "xprune", (int)sizeof(int_t));
    }
    rt_on = 1;
}
#endif
/* ------------------------------------------------------------------ interception */
static int UNLOCK_POINTS = 1;
static int bypass;     /* refactor jobs: the FIRST factorization (one worker) runs inline, outside the explored schedule */
int vf_thread_create(pthread_t *t, const pthread_attr_t *a, void *(*fn)(void *), void *arg) {
    (void)a;
    if (bypass) { fn(arg); *t = (pthread_t)0; return 0; }
    pthread_mutex_lock(&big);
    if (nth >= MAXT) { fprintf(stderr, "too many threads\n"); _exit(96); }
    int id = nth++; th[id].used = 1; th[id].finished = 0; th[id].op = OP_NONE; th[id].fn = fn; th[id].arg = arg; pthread_cond_init(&th[id].cv, NULL);
    threads_created++;
    if (!SH) { FN(p,gstrf_threadarg_t) *ta = arg; SH = ta->pxgstrf_shared; OPT = ta->superlumt_options; MN = SH->A->ncol; model_start(); }
#ifdef VF_RACE
    if (!rt_on) rt_setup();
    rt_thread_create(me, id);
#endif
    *t = (pthread_t)(long)id;
    pthread_attr_t at; pthread_attr_init(&at); pthread_attr_setstacksize(&at, 1 << 20);
    if (pthread_create(&th[id].th, &at, tramp, (void *)(long)id)) { fprintf(stderr, "pthread_create failed\n"); _exit(96); }
    pthread_mutex_unlock(&big);
    return 0;     /* not a scheduling point: creation commutes with everything a worker does */
}
int vf_thread_join(pthread_t t, void **st) {
    if (bypass) { if (st) *st = NULL; return 0; }
    int id = (int)(long)t;
    pthread_mutex_lock(&big); th[me].op = OP_JOIN; th[me].jtarget = id; point(); th[me].op = OP_NONE; threads_joined++;
#ifdef VF_RACE
    rt_thread_join(me, id);
#endif
    pthread_mutex_unlock(&big);
    pthread_join(th[id].th, NULL); if (st) *st = NULL; return 0;
}
int vf_mutex_init(pthread_mutex_t *m, const void *a) { (void)m; (void)a; return 0; }
int vf_mutex_destroy(pthread_mutex_t *m) { (void)m; return 0; }
int vf_mutex_lock(pthread_mutex_t *m) {
    if (nth <= 1 || pm_in_shadow_call) return 0;
    pthread_mutex_lock(&big); th[me].op = OP_LOCK; th[me].obj = m; point(); th[me].op = OP_NONE;
    int s = mslot(m); if (mtx_owner[s] >= 0) die_with(3, "scheduler error: mutex granted twice"); mtx_owner[s] = me;
#ifdef VF_RACE
    rt_acquire(me, m);
#endif
    pthread_mutex_unlock(&big); return 0;
}
/* the unlock is a scheduling point too (added after seeded change C03/3): what a thread does between leaving a critical section and its next hooked
   statement is then separated from the critical section, so that stores moved out of the lock become visible as a window other threads can run in */
int vf_mutex_unlock(pthread_mutex_t *m) { if (nth <= 1 || pm_in_shadow_call) return 0; pthread_mutex_lock(&big); mtx_owner[mslot(m)] = -1;
#ifdef VF_RACE
    rt_release(me, m);
#endif
    if (UNLOCK_POINTS) point(); pthread_mutex_unlock(&big); return 0; }

static unsigned long long sched_state_hash(void) {
    unsigned long long h = 0; if (!SH) return 0;
    h = hmix_(h, SH->taskq.head); h = hmix_(h, SH->taskq.tail); h = hmix_(h, SH->taskq.count); h = hmix_(h, SH->tasks_remain);
    return h;
}
void slu_mt_verif_ev(int kind, long a, long b, long c) {
    if (pm_in_shadow_call) return;
    vf_slot_event(kind, a, b, c);
    if (nth <= 1) return;
    pthread_mutex_lock(&big);
    { static int tr_ = -1; if (tr_ < 0) tr_ = getenv("VF_TRACE") != NULL; if (tr_) fprintf(stderr, "ev t=%d kind=%d a=%ld b=%ld c=%ld pts=%d\n", me, kind, a, b, (kind == VE_SCHED_RET || kind == VE_RELEASE || kind == VE_COL_SUPER || kind == VE_NEWSUPER || kind == VE_PANEL_BEGIN || kind == VE_COL_BEGIN) ? c : 0L, npts); }
    evlog[nev % EVLOG].t = (short)me; evlog[nev % EVLOG].kind = (short)kind; evlog[nev % EVLOG].a = a; evlog[nev % EVLOG].b = b; evlog[nev % EVLOG].c = (kind == VE_SCHED_RET || kind == VE_RELEASE || kind == VE_READ_SN_BEGIN) ? c : 0; nev++;
#ifdef VF_RACE
    rt_last_ev[me] = (short)kind; rt_last_col[me] = (short)b;
#endif
    trace_hash = hmix_(trace_hash, ((unsigned long long)me << 56) ^ ((unsigned long long)kind << 48) ^ (unsigned long long)(a * 1315423911L + b * 2654435761L));
    switch (kind) {
    case VE_SCHED_RET: {            /* inside the critical section: an event, not a scheduling point */
        static unsigned long long last_h; unsigned long long h = sched_state_hash();
        mon_sched_ret((int)a, (int)b, (int)c); model_event(kind, a, b, c);
        if (h != last_h || (int)b != EMPTY) version++;
        last_h = h; break; }
    case VE_FLAG_CHECK:
        if (*(volatile int_t *)c) X->waits_blocked++;
        th[me].op = OP_FLAG; th[me].obj = (void *)c; point(); th[me].op = OP_NONE; model_event(kind, a, b, c); break;
    case VE_LOOP_CHECK: point(); th[me].lc_version = version; model_event(kind, a, b, c); break;
    case VE_SCHED_EMPTY:
        if (version == th[me].lc_version) { th[me].op = OP_POLL; th[me].poll_version = version; point(); th[me].op = OP_NONE; } else point();
        break;
    case VE_PRESET_MAP: case VE_DYN_SETMAP: break;
    case VE_THREAD_EXIT: mon_event(kind, a, b, c); model_event(kind, a, b, c); point(); break;
    default:
        point();                    /* the switch happens BEFORE the hooked statement executes */
        mon_event(kind, a, b, c);   /* ... and the monitors see the event when it is really about to happen */
        model_event(kind, a, b, c);
        break;
    }
    pthread_mutex_unlock(&big);
}

static void sched_reset(void) {
    for (int t = 1; t < nth; t++) pthread_cond_destroy(&th[t].cv);
    memset(th, 0, sizeof th); nth = 1; th[0].used = 1; pthread_cond_init(&th[0].cv, NULL); cur = 0; me = 0; nmtx = 0; npts = 0; preempts = 0; version = 0; nev = 0; steps_exec = 0; npend = 0;
    trace_hash = 1469598103934665603ULL;
    mon_reset();
#ifdef VF_RACE
    rt_reset();
#endif
}

/* ------------------------------------------------------------------ one execution + oracles */
static int sched_str(char *b, size_t bl, const unsigned char *ch, int len) {
    int o = 0, last = -1; for (int i = 0; i < len; i++) if (ch[i]) last = i;
    o += snprintf(b + o, bl - o, " sched=");
    for (int i = 0; i <= last && o < (int)bl - 8; i++) if (ch[i]) o += snprintf(b + o, bl - o, "%d:%d,", i, ch[i]);
    if (last < 0) o += snprintf(b + o, bl - o, "-");
    return o;
}
static void report(const char *sig, const char *msg) {
    char rep[1400]; int o = snprintf(rep, sizeof rep, "%s", CASE); sched_str(rep + o, sizeof rep - o, choice, npts);
    int seen = 0; for (int i = 0; i < X->nsig; i++) if (!strcmp(X->viol_sigs[i], sig)) seen = 1;
    X->violations++;
    if (seen) return;              /* one replayable record per signature and job; all are counted */
    if (X->nsig < 32) snprintf(X->viol_sigs[X->nsig++], 96, "%s", sig);
    out_violation(PROP, sig, rep, "%s  [preemptions=%d points=%d]", msg, preempts, npts);
}
static int prop_wants(const char *sig) {
    /* a check reports the oracles of its own property; everything is evaluated in every execution */
    if (!strncmp(sig, PROP, 3)) return 1;
    if (!strcmp(PROP, "C03") && (!strncmp(sig, "C02:residual", 12))) return 1;     /* "coincide with sequential elimination" */
    return 0;
}
static fres_t RES; static char SHAPE_NAME[64];
/* K16: a first factorization (values vk, one worker, inline) followed by a RE-factorization (refact = YES, usepr = YES or NO, values VK2, P workers)
   whose every interleaving is explored; oracles for the values current at the second call (C08) */
static int REFACT, VK2, USEPR, REF_INLINE, REF_OK;      /* REF_INLINE: search runs (both calls inline, no scheduler); REF_OK: did the whole history succeed */
static void run_refactor_once(void) {
    static tmat_t T2; int n = TM.n; char msg[400];
    if (!shape_build(SHAPE_NAME, VK2, &T2) || T2.nnz != TM.nnz) die_with(3, "refactor job: second value set has another pattern");
    vf_ienv[1] = CFG.w; vf_ienv[2] = CFG.relax; vf_ienv[3] = CFG.maxsuper; vf_ienv[4] = CFG.rowblk; vf_ienv[5] = CFG.colblk; vf_ienv[6] = -50; vf_ienv[7] = CFG.fill7; vf_ienv[8] = CFG.fill8;
    unsetenv("SuperLU_DYNAMIC_SNODE_STORE");
    amat_t am; am_build(&am, &TM, 0);
    int_t *perm_r = malloc(sizeof(int_t) * (n + 1)), *perm_c = malloc(sizeof(int_t) * (n + 1)), old_pr[NMAX]; int_t info = -999;
    for (int i = 0; i < n; i++) { perm_r[i] = -7; perm_c[i] = i; }
    superlumt_options_t opt; memset(&opt, 0, sizeof opt); Gstat_t Gstat; SuperMatrix AC, L, U; memset(&L, 0, sizeof L); memset(&U, 0, sizeof U);
    get_perm_c(CFG.ordering, &am.A, perm_c);
    /* user workspace (K17): both calls work in the same caller-supplied buffer, red zones around it */
    unsigned char *wraw = NULL; void *work = NULL; long lwork = CFG.lwork;
    if (lwork > 0) { wraw = malloc(lwork + 512); memset(wraw, 0xA5, lwork + 512); work = wraw + 256; }
    bypass = 1;
    StatAlloc(n, 1, CFG.w, CFG.relax, &Gstat); StatInit(n, 1, &Gstat);
    FN(p,gstrf_init)(1, DOFACT, NOTRANS, NO, CFG.w, CFG.relax, CFG.u, NO, 0.0, perm_c, perm_r, work, lwork, &am.A, &AC, &opt, &Gstat);
    pXgstrf(&opt, &AC, perm_r, &L, &U, &Gstat, &info);
    Destroy_CompCol_Permuted(&AC); StatFree(&Gstat);
    bypass = 0;
    RES.info = (int)info; RES.n = n;
    if (info == 0) {
        for (int k = 0; k < T2.nnz; k++) { am.val[k] = L2S(T2.val[k]); am.val0[k] = am.val[k]; }
        for (int i = 0; i < n; i++) old_pr[i] = perm_r[i];
        StatAlloc(n, CFG.nprocs, CFG.w, CFG.relax, &Gstat); StatInit(n, CFG.nprocs, &Gstat);
        if (REF_INLINE) bypass = 1;
        FN(p,gstrf_init)(CFG.nprocs, DOFACT, NOTRANS, YES, CFG.w, CFG.relax, CFG.u, USEPR ? YES : NO, 0.0, perm_c, perm_r, work, lwork, &am.A, &AC, &opt, &Gstat);
        pXgstrf(&opt, &AC, perm_r, &L, &U, &Gstat, &info);
        Destroy_CompCol_Permuted(&AC); StatFree(&Gstat); bypass = 0;
        RES.info = (int)info; REF_OK = (info == 0);
        static mref_t m2; static int m2_ok; if (!m2_ok) { mref_compute(&T2, &m2); m2_ok = 1; }
        if (wraw) for (int q = 0; q < 256; q++) if (wraw[q] != 0xA5 || wraw[256 + lwork + q] != 0xA5) { mon_viol("C14:lwork:redzone:refactor", "bytes outside the caller's workspace were written"); break; }
        if (info > n && lwork > 0) { /* memory failure reported: allowed (C14) */ }
        else if (info != 0) { if (m2.num_nonsing && m2.cond1 < 1e6L) { mon_viol("C08:info:refactor", "nonsingular values but the re-factorization returned info=%d", (int)info); if (lwork > 0) mon_viol("C14:lwork:bogus-info:refactor", "nonsingular values, memory trouble only, but info=%d (n=%d)", (int)info, n); } }
        else {
            tm_to_dense(&T2, RES.A); for (int i = 0; i < n; i++) for (int j = 0; j < n; j++) RES.A[i][j] = S2L(L2S(RES.A[i][j]));
            for (int i = 0; i < n; i++) { RES.perm_r[i] = perm_r[i]; RES.perm_c[i] = perm_c[i]; }
            RES.wf = wellformed(&L, &U, perm_r, perm_c, n, RES.Ld, RES.Ud, RES.wfmsg, sizeof RES.wfmsg);
            if (RES.wf) { char sig[64]; snprintf(sig, sizeof sig, "C08:wellformed:code%d:refactor", RES.wf); mon_viol(sig, "%s", RES.wfmsg); snprintf(sig, sizeof sig, "C09:wellformed:code%d", RES.wf); mon_viol(sig, "%s", RES.wfmsg);  if (lwork > 0) mon_viol("C14:lwork:malformed-factors:refactor", "info=0 but the returned factors are malformed: %s", RES.wfmsg); }
            else {
                ldc M[NMAX][NMAX]; ld ratio; permuted_A(RES.A, n, perm_r, perm_c, M);
                if (check_lu_residual(M, RES.Ld, RES.Ud, n, &ratio, msg, sizeof msg)) { mon_viol("C08:residual:refactor", "%s", msg); mon_viol("C02:residual", "%s", msg); if (lwork > 0) mon_viol("C14:lwork:wrong-factors:refactor", "info=0 but Pr A Pc != L U: %s", msg); }
                if (check_multipliers(RES.Ld, n, CFG.u, msg, sizeof msg)) { mon_viol("C08:multiplier:refactor", "%s", msg); mon_viol("C02:multiplier", "%s", msg); }
                const SCPformat *Ls = L.Store; const NCPformat *Us = U.Store; RES.nsuper = (int)Ls->nsuper + 1; RES.Lnnz = (int)Ls->nnz; RES.Unnz = (int)Us->nnz;
                /* pivot reuse: when every old pivot passes the threshold for the new values the row permutation comes back unchanged */
                if (USEPR && VK2 == 7) for (int i = 0; i < n; i++) if (perm_r[i] != old_pr[i]) { mon_viol("C08:policy:usepr", "perm_r[%d] changed from %ld to %ld although the new values are a multiple of the old ones", i, (long)old_pr[i], (long)perm_r[i]); break; }
            }
            if (am_unchanged(&am)) mon_viol("C08:A-modified", "the re-factorization changed the caller's A");
        }
    }
    if (L.Store && U.Store && lwork > 0) { SUPERLU_FREE(L.Store); SUPERLU_FREE(U.Store); }
    else if (info >= 0 && info <= n && L.Store && U.Store) { Destroy_SuperNode_SCP(&L); Destroy_CompCol_NCP(&U); }
    free(wraw);
    if (opt.etree) { SUPERLU_FREE(opt.etree); SUPERLU_FREE(opt.colcnt_h); SUPERLU_FREE(opt.part_super_h); }
    am_free(&am); free(perm_r); free(perm_c);
}
static void run_once(void) {
    sched_reset();
    if (REFACT) {
        run_refactor_once(); mon_final(RES.info); model_stop();
        X->executions++; X->choice_points += npts; if (npts > X->maxpts) X->maxpts = npts;
        for (int i = 0; i < npend; i++) if (prop_wants(pend[i].sig)) report(pend[i].sig, pend[i].msg);
        unsigned long long h = 1469598103934665603ULL; h = hmix_(h, RES.info); for (int i = 0; i < TM.n; i++) h = hmix_(h, RES.perm_r[i]); h = hmix_(h, RES.nsuper); h = hmix_(h, RES.Lnnz * 64 + RES.Unnz);
        for (int i = 0; i < TM.n; i++) for (int j = 0; j < TM.n; j++) { scalar_t s = L2S(RES.Ld[i][j]); unsigned long long v = 0; memcpy(&v, &s, sizeof s < 8 ? sizeof s : 8); h = hmix_(h, v); }
        int k; for (k = 0; k < X->noutc; k++) if (X->outcomes[k] == h) break; if (k == X->noutc && X->noutc < 256) X->outcomes[X->noutc++] = h;
        { unsigned s = (unsigned)(trace_hash >> 24) & 0x1fffff; for (int q = 0; q < 64; q++) { unsigned z = (s + q) & 0x1fffff; if (X->traces[z] == trace_hash) break; if (!X->traces[z]) { X->traces[z] = trace_hash; X->ntraces++; break; } } }
        if (X->samples_left > 0 && preempts > 0) { X->samples_left--; char sb[900]; int o = snprintf(sb, sizeof sb, "%s", CASE); sched_str(sb + o, sizeof sb - o, choice, npts); out_sample(PROP, "%s -> refactor info=%d points=%d preemptions=%d", sb, RES.info, npts, preempts); }
        return;
    }
    run_factor_case(&TM, &CFG, &RES);
    mon_final(RES.info); model_stop();
    X->executions++; X->choice_points += npts; if (npts > X->maxpts) X->maxpts = npts;
    /* end-of-execution oracles */
    int n = TM.n; char msg[400];
    static mref_t mr; static int mr_ok; if (!mr_ok) { mref_compute(&TM, &mr); mr_ok = 1; }
    if (RES.info == 0) {
        if (RES.wf) { char sig[64]; snprintf(sig, sizeof sig, "C09:wellformed:code%d", RES.wf); mon_viol(sig, "%s", RES.wfmsg);
            /* factors that are not well-formed matrices cannot satisfy Pr A Pc = L U either (seeded change C02-4 was reported under C09 only) */
            mon_viol("C02:malformed-factors", "info=0 but the returned L/U are not well-formed: %s", RES.wfmsg); mon_viol("C01:malformed-factors", "info=0 but the returned L/U are not well-formed: %s", RES.wfmsg); }
        else {
            ldc M[NMAX][NMAX]; ld ratio; permuted_A(RES.A, n, RES.perm_r, RES.perm_c, M);
            if (check_lu_residual(M, RES.Ld, RES.Ud, n, &ratio, msg, sizeof msg)) mon_viol("C02:residual", "%s", msg);
            if (check_multipliers(RES.Ld, n, CFG.u, msg, sizeof msg)) mon_viol("C02:multiplier", "%s", msg);
            if (check_pivot_policy(RES.A, n, RES.perm_r, RES.perm_c, CFG.u, NULL, msg, sizeof msg) == 1) mon_viol("C02:policy", "%s", msg);
            if (CFG.nrhs > 0 && mr.num_nonsing && mr.cond1 < 1e6L && check_solve_residual(RES.A, n, RES.perm_r, RES.perm_c, RES.Ld, RES.Ud, CFG.as_nr, RES.B0, RES.X, CFG.nrhs, n, &ratio, msg, sizeof msg)) mon_viol("C01:residual", "%s", msg);
        }
        if (RES.a_changed) mon_viol("C01:A-modified", "A differs from the pristine copy (part %d)", RES.a_changed);
    } else if (mr.num_nonsing && mr.cond1 < 1e6L) {
        mon_viol("C01:info", "nonsingular input but info=%d", RES.info);
    }
    if (X->have_ref && RES.info != X->ref_info && RES.info <= n && X->ref_info <= n) mon_viol("C06:info-schedule-dependent", "info=%d in this execution, %d with one thread", RES.info, X->ref_info);
    if (RES.slot_overflow) mon_viol("C05:slot", "%s", RES.slotmsg);
    if (RES.leak_blocks) mon_viol("C17:leak", "%d blocks still allocated after destroying the returned objects: %s", RES.leak_blocks, RES.leak_desc);
    for (int i = 0; i < npend; i++) if (prop_wants(pend[i].sig)) report(pend[i].sig, pend[i].msg);
    unsigned long long h = 1469598103934665603ULL; h = hmix_(h, RES.info);
    for (int i = 0; i < n; i++) { h = hmix_(h, RES.perm_r[i]); } h = hmix_(h, RES.nsuper); h = hmix_(h, RES.Lnnz * 64 + RES.Unnz);
    for (int i = 0; i < n; i++) for (int j = 0; j < n; j++) { scalar_t s = L2S(RES.Ld[i][j]); unsigned long long v = 0; memcpy(&v, &s, sizeof s < 8 ? sizeof s : 8); h = hmix_(h, v); }
    int k; for (k = 0; k < X->noutc; k++) if (X->outcomes[k] == h) break; if (k == X->noutc && X->noutc < 256) X->outcomes[X->noutc++] = h;
    { unsigned s = (unsigned)(trace_hash >> 24) & 0x1fffff; for (int q = 0; q < 64; q++) { unsigned z = (s + q) & 0x1fffff; if (X->traces[z] == trace_hash) break; if (!X->traces[z]) { X->traces[z] = trace_hash; X->ntraces++; break; } } }
    if (X->samples_left > 0 && preempts > 0) { X->samples_left--; char sb[900]; int o = snprintf(sb, sizeof sb, "%s", CASE); sched_str(sb + o, sizeof sb - o, choice, npts); out_sample(PROP, "%s -> info=%d points=%d preemptions=%d", sb, RES.info, npts, preempts); }
}

/* ------------------------------------------------------------------ iterative DFS over schedules (stack in shared memory) */
static void exec_with_prefix(const unsigned char *p, int len) {
    if (len > 0) { memcpy(prefix, p, len); memcpy(X->cur_prefix, p, len); } prefix_len = len;
    X->cur_len = len; X->in_exec = 1;
    run_once();
    X->in_exec = 0;
}
static void push_frame(int len) {
    if (X->depth >= MAXDEPTH) { X->lost_subtrees++; return; }
    frame_t *f = &X->fr[X->depth++];
    f->len = (short)len; f->npts = (short)npts; f->i = (short)len; f->alt = 1;
    memcpy(f->ch, choice, npts); memcpy(f->ne, nenab, npts); memcpy(f->co, cost_at, npts); memcpy(f->re, run_en, npts);
}
/* the library's abort path (SUPERLU_ABORT -> exit) ends the execution: it is counted as an execution with outcome "abort", its choice
   points are pushed like those of any other execution, and the explorer process ends with code 94; the supervisor forks a new explorer
   that continues from the shared stack.  Nothing of the schedule tree is lost. */
static int in_ref_child;
void vf_lib_exit(int code) {
    (void)code;
    if (in_ref_child) { fflush(NULL); _exit(95); }      /* the one-thread reference run ended in the abort path: no reference, nothing recorded */
    pthread_mutex_lock(&big);
    X->executions++; X->lib_aborts++; X->choice_points += npts; if (npts > X->maxpts) X->maxpts = npts;
    for (int i = 0; i < npend; i++) if (prop_wants(pend[i].sig)) report(pend[i].sig, pend[i].msg);
    { unsigned long long h = 0xABCDEF; int k; for (k = 0; k < X->noutc; k++) if (X->outcomes[k] == h) break; if (k == X->noutc && X->noutc < 256) X->outcomes[X->noutc++] = h; }
    push_frame(prefix_len);
    X->in_exec = 0;
    fflush(NULL); _exit(94);
}
static void explore(void) {
    if (X->depth == 0 && X->executions == 0) { exec_with_prefix(NULL, 0); push_frame(0); }
    while (X->depth > 0) {
        if (now_s() - T0 > DEADLINE) return;
        frame_t *f = &X->fr[X->depth - 1];
        int found = 0;
        while (f->i < f->npts) {
            int cost = f->co[f->i] + (f->re[f->i] ? 1 : 0);
            if (cost <= BOUND && f->alt < f->ne[f->i]) { found = 1; break; }
            f->i++; f->alt = 1;
        }
        if (!found) { X->depth--; continue; }
        unsigned char p[MAXPTS]; int i = f->i; memcpy(p, f->ch, i); p[i] = (unsigned char)f->alt;
        f->alt++;                                   /* advance BEFORE running: a crash resumes behind this schedule */
        exec_with_prefix(p, i + 1);
        push_frame(i + 1);
    }
    X->done = 1;
}

/* ------------------------------------------------------------------ main */
static int parse_sched(const char *s, unsigned char *p) {
    int len = 0; memset(p, 0, MAXPTS);
    const char *q = strstr(s, "sched="); if (!q) return 0; q += 6;
    while (*q && *q != ' ' && *q != '-') { int i, c; if (sscanf(q, "%d:%d", &i, &c) != 2) break; if (i < MAXPTS) { p[i] = (unsigned char)c; if (i + 1 > len) len = i + 1; } q = strchr(q, ','); if (!q) break; q++; }
    return len;
}
int main(int argc, char **argv) {
    out_init();
    X = mmap(NULL, sizeof *X, PROT_READ | PROT_WRITE, MAP_SHARED | MAP_ANONYMOUS, -1, 0);
    vf_sh = mmap(NULL, sizeof *vf_sh, PROT_READ | PROT_WRITE, MAP_SHARED | MAP_ANONYMOUS, -1, 0);
    X->samples_left = 2;
    PROP = arg_str(argc, argv, "--prop", "C03");
    const char *one = arg_str(argc, argv, "--one", NULL);
    const char *src = one ? one : NULL;
    char shape[64]; snprintf(shape, sizeof shape, "%s", arg_str(argc, argv, "--shape", "fork3"));
    fcfg_default(&CFG);
    int vk = arg_int(argc, argv, "--vk", 0);
    NPROC = arg_int(argc, argv, "--P", 2); BOUND = arg_int(argc, argv, "--bound", 1);
    CFG.w = arg_int(argc, argv, "--w", 1); CFG.relax = arg_int(argc, argv, "--relax", 1); CFG.maxsuper = arg_int(argc, argv, "--ms", 4);
    CFG.driver = arg_int(argc, argv, "--drv", 0); CFG.dyn = arg_int(argc, argv, "--dyn", 0); CFG.u = atof(arg_str(argc, argv, "--u", "1.0"));
    CFG.rowblk = arg_int(argc, argv, "--rb", 200); CFG.colblk = arg_int(argc, argv, "--cb", 100); CFG.ordering = arg_int(argc, argv, "--ord", 0);
    { int f7 = arg_int(argc, argv, "--f7", 0), f8 = arg_int(argc, argv, "--f8", 0); if (f7) CFG.fill7 = f7; if (f8) CFG.fill8 = f8; }
    CFG.lwork = atol(arg_str(argc, argv, "--lwork", "0")); CFG.symmetric = arg_int(argc, argv, "--sym", 0);
    if (src) {
        const char *p;
#define GETI(key, var) if ((p = strstr(src, key "="))) var = atoi(p + strlen(key) + 1)
        if ((p = strstr(src, "shape="))) sscanf(p + 6, "%63s", shape);
        GETI("vk", vk); GETI(" P", NPROC); GETI("bound", BOUND); GETI(" w", CFG.w); GETI("rlx", CFG.relax); GETI("ms", CFG.maxsuper); GETI("drv", CFG.driver); GETI("dyn", CFG.dyn);
        GETI("rb", CFG.rowblk); GETI("cb", CFG.colblk); GETI("ord", CFG.ordering); GETI("sym", CFG.symmetric); GETI("f7", CFG.fill7); GETI("f8", CFG.fill8);
        if ((p = strstr(src, " u="))) CFG.u = atof(p + 3);
        if ((p = strstr(src, "lwork="))) CFG.lwork = atol(p + 6);
    }
    CFG.nprocs = NPROC;
    UNLOCK_POINTS = arg_int(argc, argv, "--unlockpts", 1);
    REFACT = arg_int(argc, argv, "--refact", 0); VK2 = arg_int(argc, argv, "--vk2", 0); USEPR = arg_int(argc, argv, "--usepr", 1);
    if (src) { const char *p; GETI("refact", REFACT); GETI("vk2", VK2); GETI("usepr", USEPR); }
    snprintf(SHAPE_NAME, sizeof SHAPE_NAME, "%s", shape);
    MODEL_ENABLED = arg_int(argc, argv, "--model", (!strcmp(PROP, "C03") || !strcmp(PROP, "C04")) ? 1 : 0);
    if (!shape_build(shape, vk, &TM)) { fprintf(stderr, "unknown shape %s\n", shape); return 2; }
    snprintf(CASE, sizeof CASE, "shape=%s vk=%d P=%d bound=%d w=%d rlx=%d ms=%d drv=%d dyn=%d rb=%d cb=%d ord=%d sym=%d u=%g lwork=%ld f7=%d f8=%d refact=%d vk2=%d usepr=%d", shape, vk, NPROC, BOUND, CFG.w, CFG.relax, CFG.maxsuper, CFG.driver, CFG.dyn, CFG.rowblk, CFG.colblk, CFG.ordering, CFG.symmetric, CFG.u, CFG.lwork, CFG.fill7, CFG.fill8, REFACT, VK2, USEPR);
    DEADLINE = atof(arg_str(argc, argv, "--deadline", "1e18")); T0 = now_s();

    if (one) {       /* replay: the recorded schedule, no exploration; run twice and compare */
        unsigned char p[MAXPTS]; int len = parse_sched(one, p);
        pid_t pid = fork();
        if (pid == 0) { vf_install_fault_handlers(); exec_with_prefix(p, len); unsigned long long t1 = trace_hash; long v1 = X->violations; exec_with_prefix(p, len);
            if (trace_hash != t1) { out_violation(PROP, "machinery:nondeterministic-replay", one, "two replays of the same schedule produced different event traces"); }
            (void)v1; fflush(NULL); _exit(X->violations ? 1 : 0); }
        int st; waitpid(pid, &st, 0); vf_last_child = pid;
        if (WIFEXITED(st) && WEXITSTATUS(st) == 94) { out_sample(PROP, "%s -> the execution ended in the library's abort path", one); }
        else if (!(WIFEXITED(st) && WEXITSTATUS(st) <= 1)) { char cd[160]; int kind = WIFSIGNALED(st) ? VF_SIGNAL : WEXITSTATUS(st) == 99 ? VF_ASAN : WEXITSTATUS(st) == 98 ? VF_FAULT : VF_EXIT; vf_crash_desc(kind, WIFSIGNALED(st) ? WTERMSIG(st) : WEXITSTATUS(st), cd, sizeof cd);
            if (WIFEXITED(st) && WEXITSTATUS(st) >= 91 && WEXITSTATUS(st) <= 93) snprintf(cd, sizeof cd, "%s", X->death_msg);
            out_violation(PROP, "replay:died", one, "%s", cd); X->violations++; }
        out_stats(PROP, "\"executions\":%ld,\"violations\":%ld", X->executions, X->violations);
        return X->violations ? 1 : 0;
    }

    /* K17: tight estimates and a workspace just large enough for ONE worker's arrays next to L/U (first call with 1 thread), + 64*k bytes: the
       re-factorization with P workers then runs in the window where not all workers' arrays fit */
    { int lwrel = arg_int(argc, argv, "--lwrel", -1);
      if (REFACT && lwrel >= 0) {
        long *SR = mmap(NULL, sizeof(long) * 4, PROT_READ | PROT_WRITE, MAP_SHARED | MAP_ANONYMOUS, -1, 0);
#define TRIAL(F7, F8, LW) ({ fflush(NULL); pid_t pid_ = fork(); if (pid_ == 0) { int fd_ = open("/dev/null", O_WRONLY); if (fd_ >= 0) dup2(fd_, 2); in_ref_child = 1; REF_INLINE = 1; MODEL_ENABLED = 0; int P_ = CFG.nprocs; CFG.nprocs = 1; if (F7) CFG.fill7 = (F7); if (F8) CFG.fill8 = (F8); CFG.lwork = (LW); REF_OK = 0; sched_reset(); run_refactor_once(); CFG.nprocs = P_; _exit(REF_OK ? 0 : 1); } int st_; waitpid(pid_, &st_, 0); vf_discard_log(pid_); WIFEXITED(st_) && WEXITSTATUS(st_) == 0; })
        int m7 = 0, m8 = 0; long L1 = 0;
        for (int f = 1; f <= 150 && !m7; f++) if (TRIAL(f, 0, 1L << 20)) m7 = f;
        for (int f = 1; f <= 150 && !m8; f++) if (TRIAL(m7, f, 1L << 20)) m8 = f;
        if (m7 && m8) { long hi = 1024; while (!TRIAL(m7, m8, hi) && hi < (1L << 22)) hi *= 2; long lo = hi / 2; while (hi - lo > 8) { long mid = ((lo + hi) / 2) & ~7L; if (TRIAL(m7, m8, mid)) hi = mid; else lo = mid; } L1 = hi; }
        if (!L1) { fprintf(stderr, "K17: no sufficient estimates found\n"); return 2; }
        CFG.fill7 = m7; CFG.fill8 = m8; CFG.lwork = L1 + 64L * lwrel; (void)SR;
        snprintf(CASE, sizeof CASE, "shape=%s vk=%d P=%d bound=%d w=%d rlx=%d ms=%d drv=%d dyn=%d rb=%d cb=%d ord=%d sym=%d u=%g lwork=%ld f7=%d f8=%d refact=%d vk2=%d usepr=%d", shape, vk, NPROC, BOUND, CFG.w, CFG.relax, CFG.maxsuper, CFG.driver, CFG.dyn, CFG.rowblk, CFG.colblk, CFG.ordering, CFG.symmetric, CFG.u, CFG.lwork, CFG.fill7, CFG.fill8, REFACT, VK2, USEPR);
      } }
    /* reference: the same call with one thread (C06: info does not depend on thread count and schedule) */
    { fflush(NULL); pid_t pid = fork();
      if (pid == 0) { prctl(PR_SET_PDEATHSIG, SIGKILL); in_ref_child = 1; int P = CFG.nprocs; CFG.nprocs = 1; MODEL_ENABLED = 0; sched_reset(); run_factor_case(&TM, &CFG, &RES); CFG.nprocs = P; X->ref_info = RES.info; X->have_ref = 1; fflush(NULL); _exit(0); }
      int st; waitpid(pid, &st, 0); vf_discard_log(pid); }
    /* supervisor loop */
    int complete = 1;
    for (;;) {
        fflush(NULL);
        pid_t pid = fork();
        if (pid == 0) { prctl(PR_SET_PDEATHSIG, SIGKILL); vf_install_fault_handlers(); explore(); fflush(NULL); _exit(0); }
        /* watchdog: an execution that makes no scheduling progress for 30 s (a loop between two hook points) is killed and reported */
        int st = 0; long last_steps = -1, last_exec = -1; double last_change = now_s(); int hung = 0;
        for (;;) {
            pid_t w = waitpid(pid, &st, WNOHANG);
            if (w == pid) break;
            long s1 = X->steps, e1 = X->executions;
            if (s1 != last_steps || e1 != last_exec || !X->in_exec) { last_steps = s1; last_exec = e1; last_change = now_s(); }
            else if (now_s() - last_change > 30) { hung = 1; kill(pid, SIGKILL); waitpid(pid, &st, 0); break; }
            if (now_s() - T0 > DEADLINE + 5) { hung = 2; kill(pid, SIGKILL); waitpid(pid, &st, 0); break; }   /* the explorer did not honour the deadline itself */
            usleep(20000);
        }
        vf_last_child = pid;
        if (hung == 2) { complete = 0; break; }
        if (hung) {
            X->deaths++; X->violations++;
            char rep[1400]; int o = snprintf(rep, sizeof rep, "%s", CASE); sched_str(rep + o, sizeof rep - o, X->cur_prefix, X->cur_len);
            int want = !strcmp(PROP, "C04") || !strcmp(PROP, "C03") || !strcmp(PROP, "C01");
            int seen = 0; for (int i = 0; i < X->nsig; i++) if (!strcmp(X->viol_sigs[i], "C04:hang")) seen = 1;
            if (want && !seen) { if (X->nsig < 32) snprintf(X->viol_sigs[X->nsig++], 96, "C04:hang"); out_violation(PROP, "C04:hang", rep, "the execution made no progress for 30 s between two scheduling points (endless loop inside the library)"); }
            X->lost_subtrees++; X->in_exec = 0;
            if (X->deaths > 8) { complete = 0; break; }
            continue;
        }
        if (WIFEXITED(st) && WEXITSTATUS(st) == 0) { if (!X->done) complete = 0; break; }
        if (WIFEXITED(st) && WEXITSTATUS(st) == 94) { if (X->lib_aborts > 200000) { complete = 0; break; } continue; }      /* an execution ended in the library's abort path */
        /* the execution with prefix X->cur_prefix killed the explorer */
        X->deaths++; X->violations++;
        char rep[1400]; int o = snprintf(rep, sizeof rep, "%s", CASE); sched_str(rep + o, sizeof rep - o, X->cur_prefix, X->cur_len);
        char sig[200], cd[200]; int code = WIFEXITED(st) ? WEXITSTATUS(st) : -1;
        if (code == 91) snprintf(sig, sizeof sig, !strcmp(PROP, "C14") ? "C14:lwork:deadlock" : !strcmp(PROP, "C08") ? "C08:deadlock:refactor" : "C04:deadlock");     /* a hang is no "info > n" either (C14) and no result at all (C08) */
        else if (code == 92) snprintf(sig, sizeof sig, "C04:runaway");
        else if (code == 93) snprintf(sig, sizeof sig, "machinery:replay-divergence");
        else { int kind = WIFSIGNALED(st) ? VF_SIGNAL : code == 99 ? VF_ASAN : code == 98 ? VF_FAULT : code == 97 ? VF_TIMEOUT : VF_EXIT; vf_crash_desc(kind, WIFSIGNALED(st) ? WTERMSIG(st) : code, cd, sizeof cd);
               const char *site = strchr(cd, '@'); snprintf(sig, sizeof sig, "C05:crash:%s", site ? site : cd); snprintf(X->death_msg, sizeof X->death_msg, "process died (%s) in this execution", cd); }
        int want = !strncmp(sig, PROP, 3) || !strncmp(sig, "machinery", 9) || (!strncmp(sig, "C05:crash", 9) && (!strcmp(PROP, "C03") || !strcmp(PROP, "C04") || !strcmp(PROP, "C01")));
        if (want) { int seen = 0; for (int i = 0; i < X->nsig; i++) if (!strcmp(X->viol_sigs[i], sig)) seen = 1;
            if (!seen) { if (X->nsig < 32) snprintf(X->viol_sigs[X->nsig++], 96, "%s", sig);
                if (!strncmp(sig, "machinery", 9)) { out_init(); fprintf(vf_out, "{\"type\":\"machinery\",\"property\":\"%s\",\"detail\":\"%s %s\"}\n", PROP, X->death_msg, rep); }
                else out_violation(PROP, sig, rep, "%s", X->death_msg); } }
        X->lost_subtrees++;            /* the schedules below the dead one are not explored */
        X->in_exec = 0;
        if (X->executions == 0 && X->deaths > 3) { complete = 0; break; }
        if (X->deaths > 2000) { complete = 0; break; }
    }
    if (complete && !X->lost_subtrees && X->executions <= 1 && NPROC >= 2 && TM.n >= 2) { out_init(); fprintf(vf_out, "{\"type\":\"machinery\",\"property\":\"%s\",\"detail\":\"vacuous exploration: %ld execution(s) of %s\"}\n", PROP, X->executions, CASE); }
    if (0 && X->conf_divergences) { out_init(); fprintf(vf_out, "{\"type\":\"machinery\",\"property\":\"%s\",\"detail\":\"model/implementation divergence in %ld executions of %s: ", PROP, X->conf_divergences, CASE); for (char *p = X->conf_msg; *p; p++) if (*p != '"' && *p != '\\') fputc(*p, vf_out); fprintf(vf_out, "\"}\n"); }
    out_stats(PROP, "\"shape\":\"%s\",\"n\":%d,\"P\":%d,\"bound\":%d,\"cfg\":\"w=%d rlx=%d ms=%d drv=%d dyn=%d vk=%d\",\"complete\":%s,\"executions\":%ld,\"states\":%ld,\"transitions\":%ld,"
              "\"choice_points\":%ld,\"max_points\":%ld,\"distinct_outcomes\":%d,\"violations\":%ld,\"deaths\":%ld,\"lib_aborts\":%ld,\"lost_subtrees\":%ld,\"traces_validated\":%ld,\"conformance_events\":%ld,\"conformance_divergences\":%ld,\"executions_without_model\":%ld,\"scheduler_decisions\":%ld,\"regular_panels\":%ld,\"pipelined_panels\":%ld,\"blocked_waits\":%ld,\"race_monitor\":%d,\"race_data_accesses\":%ld,\"race_sync_accesses\":%ld,\"race_reports\":%ld,\"wall_s\":%.2f",
              shape, TM.n, NPROC, BOUND, CFG.w, CFG.relax, CFG.maxsuper, CFG.driver, CFG.dyn, vk, (complete && !X->lost_subtrees) ? "true" : "false", X->executions, X->ntraces, X->steps,
              X->choice_points, X->maxpts, X->noutc, X->violations, X->deaths, X->lib_aborts, X->lost_subtrees, X->conf_execs_ok, X->conf_events, X->conf_divergences, X->conf_execs_unmodelled, X->sched_rets, X->regular_panels, X->pipelined_panels, X->waits_blocked, RACE_MON, X->race_data_acc, X->race_sync_acc, X->race_reports, now_s() - T0);
    return 0;
}
