/* Happens-before race monitor for Engine S (variant `sr`): the library is compiled with clang's ThreadSanitizer
 * INSTRUMENTATION only (-fsanitize=thread, no TSan runtime); the dozen ABI entry points the objects call are defined here.
 * The monitor runs inside every execution the explorer enumerates, under the same baton scheduler (one thread runs at a
 * time, so the runtime needs no locking and is deterministic: same schedule, same verdict).
 *
 *   vector clocks per thread; FastTrack-style shadow (last write epoch + read clock per thread) per 4-byte cell of the
 *   DATA ranges: the stored values and row subscripts of L and U (Glu->lusup, lsub, ucol, usub) - what C03 calls "the stored
 *   rows or values of a supernode" - and their column pointers (xlsub, xlsub_end, xlusup, xlusup_end, xusub, xusub_end, xprune).
 *   Synchronisation edges, all taken from what the code really uses to publish a column:
 *     - vf_mutex_lock/unlock, thread create/join;
 *     - every access to a cell of a SYNC range: spin_locks[] (the column flag), pan_status[] (STATE/ukids: "panel DONE" is published by a
 *       plain store and consumed under the scheduler lock), tasks_remain, ispruned[] (publication of a pruned list):
 *       write = release, read = acquire.  Release JOINS into the cell's clock (never replaces it): that over-approximates release
 *       sequences, so it can only hide a report, never invent one.
 *   A conflicting pair (same cell, two threads, at least one write) that is not ordered by these edges is a violation of C03:
 *   a column's values/rows were read or overwritten while their owner could still be writing them - whether or not the window
 *   contains a scheduling point of the explorer.
 */
#ifndef VF_RACE_RT_H
#define VF_RACE_RT_H
#include <stdint.h>

typedef unsigned rt_clk_t;
enum { RT_DATA = 1, RT_SYNC = 2 };
typedef struct { char *lo, *hi; int kind; const char *name; int esz; } rt_range_t;
static rt_range_t rt_rng[16]; static int rt_nrng; static char *rt_lo, *rt_hi;
static rt_clk_t rt_vc[MAXT][MAXT];
static unsigned rt_gen = 1; static int rt_on;
static long rt_reports;

typedef struct { uintptr_t key; unsigned gen; short wt; short wev, wcol; rt_clk_t wc; rt_clk_t rc[MAXT]; short rev[MAXT]; } rt_cell_t;
typedef struct { uintptr_t key; unsigned gen; rt_clk_t vc[MAXT]; } rt_scell_t;
#define RT_TAB (1u << 17)
#define RT_STAB (1u << 12)
static rt_cell_t *rt_tab; static rt_scell_t *rt_stab;
static short rt_last_ev[MAXT], rt_last_col[MAXT];     /* last hook event of each thread: names the place of an access in a report */

static void rt_reset(void) {
    if (!rt_tab) { rt_tab = calloc(RT_TAB, sizeof *rt_tab); rt_stab = calloc(RT_STAB, sizeof *rt_stab); if (!rt_tab || !rt_stab) { fprintf(stderr, "race runtime: out of memory\n"); _exit(96); } }
    rt_gen++; rt_nrng = 0; rt_lo = (char *)~(uintptr_t)0; rt_hi = 0; rt_on = 0;
    memset(rt_vc, 0, sizeof rt_vc); for (int t = 0; t < MAXT; t++) { rt_vc[t][t] = 1; rt_last_ev[t] = 0; rt_last_col[t] = -1; }
}
static void rt_add_range(void *p, size_t bytes, int kind, const char *name, int esz) {
    if (!p || !bytes || rt_nrng >= 16) return;
    rt_range_t *r = &rt_rng[rt_nrng++]; r->lo = p; r->hi = (char *)p + bytes; r->kind = kind; r->name = name; r->esz = esz;
    if (r->lo < rt_lo) rt_lo = r->lo; if (r->hi > rt_hi) rt_hi = r->hi;
}
static void rt_join(rt_clk_t *dst, const rt_clk_t *src) { for (int i = 0; i < MAXT; i++) if (src[i] > dst[i]) dst[i] = src[i]; }
static rt_scell_t *rt_sget(uintptr_t key) {
    unsigned h = (unsigned)((key * 0x9E3779B97F4A7C15ULL) >> 40) & (RT_STAB - 1);
    for (unsigned n = 0; n < RT_STAB; n++, h = (h + 1) & (RT_STAB - 1)) {
        rt_scell_t *c = &rt_stab[h];
        if (c->gen != rt_gen) { c->gen = rt_gen; c->key = key; memset(c->vc, 0, sizeof c->vc); return c; }
        if (c->key == key) return c;
    }
    fprintf(stderr, "race runtime: sync table full\n"); _exit(96);
}
static void rt_acquire(int t, const void *obj) { rt_scell_t *c = rt_sget((uintptr_t)obj); rt_join(rt_vc[t], c->vc); }
static void rt_release(int t, const void *obj) { rt_scell_t *c = rt_sget((uintptr_t)obj); rt_join(c->vc, rt_vc[t]); rt_vc[t][t]++; }
static void rt_thread_create(int parent, int child) { memcpy(rt_vc[child], rt_vc[parent], sizeof rt_vc[child]); rt_vc[child][child] = 1; rt_vc[parent][parent]++; }
static void rt_thread_join(int parent, int child) { rt_join(rt_vc[parent], rt_vc[child]); }

static rt_cell_t *rt_cget(uintptr_t key) {
    unsigned h = (unsigned)((key * 0x9E3779B97F4A7C15ULL) >> 40) & (RT_TAB - 1);
    for (unsigned n = 0; n < RT_TAB; n++, h = (h + 1) & (RT_TAB - 1)) {
        rt_cell_t *c = &rt_tab[h];
        if (c->gen != rt_gen) { c->gen = rt_gen; c->key = key; c->wt = -1; c->wc = 0; memset(c->rc, 0, sizeof c->rc); return c; }
        if (c->key == key) return c;
    }
    fprintf(stderr, "race runtime: shadow table full\n"); _exit(96);
}
static void rt_report(const rt_range_t *r, char *addr, int t, int isw, int u, int uw, int uev, int ucol);   /* defined by the engine */

static void rt_access(void *p, int size, int isw) {
    char *a = p;
    if (!rt_on || a >= rt_hi || a + size <= rt_lo) return;
    int t = me;
    for (int k = 0; k < rt_nrng; k++) {
        rt_range_t *r = &rt_rng[k];
        if (a >= r->hi || a + size <= r->lo) continue;
        if (r->kind == RT_SYNC) {
            X->race_sync_acc++;
            uintptr_t c0 = (uintptr_t)a & ~(uintptr_t)3;
            for (uintptr_t c = c0; c < (uintptr_t)a + size; c += 4) { if (isw) rt_release(t, (void *)c); else rt_acquire(t, (void *)c); }
            return;
        }
        X->race_data_acc++;
        uintptr_t c0 = (uintptr_t)a & ~(uintptr_t)3;
        for (uintptr_t c = c0; c < (uintptr_t)a + size; c += 4) {
            rt_cell_t *x = rt_cget(c);
            if (x->wt >= 0 && x->wt != t && x->wc > rt_vc[t][x->wt]) rt_report(r, (char *)c, t, isw, x->wt, 1, x->wev, x->wcol);
            if (isw) {
                for (int u = 0; u < MAXT; u++) if (u != t && x->rc[u] > rt_vc[t][u]) rt_report(r, (char *)c, t, 1, u, 0, x->rev[u], -1);
                x->wt = (short)t; x->wc = rt_vc[t][t]; x->wev = rt_last_ev[t]; x->wcol = rt_last_col[t]; memset(x->rc, 0, sizeof x->rc);
            } else { x->rc[t] = rt_vc[t][t]; x->rev[t] = rt_last_ev[t]; }
        }
        return;
    }
}

/* ---- the instrumentation ABI (clang 14, -fsanitize=thread -mllvm -tsan-distinguish-volatile=1) */
void __tsan_init(void) {}
void __tsan_func_entry(void *pc) { (void)pc; }
void __tsan_func_exit(void) {}
#define RT_RW(n) void __tsan_read##n(void *p) { rt_access(p, n, 0); } void __tsan_write##n(void *p) { rt_access(p, n, 1); } \
                 void __tsan_unaligned_read##n(void *p) { rt_access(p, n, 0); } void __tsan_unaligned_write##n(void *p) { rt_access(p, n, 1); } \
                 void __tsan_volatile_read##n(void *p) { rt_access(p, n, 0); } void __tsan_volatile_write##n(void *p) { rt_access(p, n, 1); } \
                 void __tsan_unaligned_volatile_read##n(void *p) { rt_access(p, n, 0); } void __tsan_unaligned_volatile_write##n(void *p) { rt_access(p, n, 1); }
RT_RW(1) RT_RW(2) RT_RW(4) RT_RW(8) RT_RW(16)
void __tsan_read_range(void *p, unsigned long n) { rt_access(p, (int)n, 0); }
void __tsan_write_range(void *p, unsigned long n) { rt_access(p, (int)n, 1); }
void __tsan_vptr_update(void **a, void *b) { (void)a; (void)b; }
void __tsan_vptr_read(void **a) { (void)a; }
#endif
