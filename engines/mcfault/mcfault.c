/* Engine Q (part 4): fault enumeration for C14 — workspace modes and allocation failure.
 *
 *   family alloc : for every driver call of the menu and every k = 1..K (K = allocation requests of the fault-free call),
 *                  request k and all later ones fail  (--single 1: only request k fails)
 *   family lwork : every user-workspace size from 4 bytes up to (query estimate * 1.25) in steps of 4 bytes, red zones around the buffer
 *   family query : lwork = -1
 *
 * Every case runs in its own forked child with stderr captured: the outcome class is one of
 *   returned(info) | abort-with-diagnostic (exit 1 / 255 with a message) | sanitizer | fault | timeout(hang)
 *
 *   mcfault --prop C14 --family alloc --mat 0 --drv 2 --P 2
 *   mcfault --prop C14 --one "fam=alloc mat=0 drv=2 P=2 k=17 single=0"
 */
#include "../common/factor.h"
#include <fcntl.h>

static const char *PROP = "C14";
typedef struct { long runs, judged, skipped, viol, distinct, aborts, memfail_returns, successes, hangs, crashes; int samples_left; unsigned long long dh[1 << 14]; char sigs[64][110]; int printed[64]; int nsig;
                 /* result channel child -> parent */ int have; int info; int wf; int redzone, outside; long calls, need; int leak; int threads; unsigned long long outhash; int a_changed; double resid_ok; } shared_t;
static shared_t *G;
static unsigned long long hmix(unsigned long long h, unsigned long long v) { h ^= v + 0x9E3779B97F4A7C15ULL + (h << 6) + (h >> 2); return h; }
static void note_distinct(unsigned long long h) { unsigned k = (unsigned)(h >> 20) & 0x3fff; for (int t = 0; t < 64; t++) { unsigned s = (k + t) & 0x3fff; if (G->dh[s] == h) return; if (!G->dh[s]) { G->dh[s] = h; G->distinct++; return; } } }
static void viol(const char *sig, const char *cs, const char *fmt, ...) {
    char buf[600]; va_list ap; va_start(ap, fmt); vsnprintf(buf, sizeof buf, fmt, ap); va_end(ap);
    G->viol++;
    int k; for (k = 0; k < G->nsig; k++) if (!strcmp(G->sigs[k], sig)) break;
    if (k == G->nsig) { if (G->nsig >= 64) return; snprintf(G->sigs[G->nsig++], 110, "%s", sig); }
    if (G->printed[k]++ < 3) out_violation(PROP, sig, cs, "%s", buf);
}

/* the four matrices of the menu */
static int build_mat(int id, tmat_t *T) {
    int pat[NMAX][NMAX]; ldc D[NMAX][NMAX]; memset(pat, 0, sizeof pat); int n;
    switch (id) {
    case 0: n = 4; { const char *P[4] = { "1101", "0110", "1011", "0101" }; for (int i = 0; i < n; i++) for (int j = 0; j < n; j++) pat[i][j] = P[i][j] == '1'; } break;
    case 1: n = 5; for (int i = 0; i < n; i++) { pat[i][i] = 1; pat[i][(i + 1) % n] = 1; pat[(i + 2) % n][i] = 1; } break;
    case 2: n = 3; for (int i = 0; i < n; i++) for (int j = 0; j < n; j++) pat[i][j] = 1; break;
    case 4: n = 6; for (int i = 0; i < n; i++) for (int j = i; j < n; j++) pat[i][j] = 1; break;      /* upper triangular: many more U entries (15) than L subscripts */
    default: n = 6; for (int i = 0; i < n; i++) { pat[i][i] = 1; if (i + 1 < n) pat[i][i + 1] = pat[i + 1][i] = 1; } pat[0][5] = 1; break;
    }
    for (int i = 0; i < n; i++) for (int j = 0; j < n; j++) D[i][j] = generic_value(i, j, id + 1);
    tm_from_dense(T, n, n, pat, D); return n;
}
typedef struct { int mat, drv, P, nr; long lwork; long k; int single; int fill; int f6, f7, f8; } fc_t;
static int fc_str(const fc_t *c, const char *fam, char *b, size_t bl) { return snprintf(b, bl, "fam=%s mat=%d drv=%d P=%d nr=%d lwork=%ld k=%ld single=%d fill=%d f6=%d f7=%d f8=%d", fam, c->mat, c->drv, c->P, c->nr, c->lwork, c->k, c->single, c->fill, c->f6, c->f7, c->f8); }

/* run one case in THIS process and leave the result in shared memory */
static void run_here(const fc_t *c) {
    static tmat_t T; static fres_t r; fcfg_t f; fcfg_default(&f);
    int n = build_mat(c->mat, &T);
    f.driver = c->drv; f.nprocs = c->P; f.as_nr = c->nr; f.lwork = c->lwork; f.maxsuper = n; f.w = 1 + 3 * (c->mat % 2); f.relax = 1 + c->mat % 3; f.nrhs = 1; f.ordering = c->mat % 4;
    if (c->fill) { f.fill7 = c->fill; f.fill8 = c->fill; }
    if (c->f6) f.fill6 = c->f6; if (c->f7) f.fill7 = c->f7; if (c->f8) f.fill8 = c->f8;
    if (f.driver == DRV_GSSVX) f.fact = (c->mat % 2) ? EQUILIBRATE : DOFACT;
    vf_arm_fail_k = c->k; vf_arm_single = c->single;
    G->have = 0;
    run_factor_case(&T, &f, &r);
    vf_arm_fail_k = 0;
    G->info = r.info; G->wf = r.wf; G->redzone = r.redzone_touched; G->outside = r.lu_outside_work; G->calls = r.calls_in_call; G->need = r.mem_total_needed; G->leak = r.leak_blocks; G->threads = r.threads_created; G->a_changed = r.a_changed;
    unsigned long long h = 1469598103934665603ULL; h = hmix(h, r.info); for (int i = 0; i < n; i++) { h = hmix(h, r.perm_r[i]); h = hmix(h, r.perm_c[i]); scalar_t s = L2S(r.X[i]); unsigned long long v = 0; memcpy(&v, &s, sizeof s < 8 ? sizeof s : 8); h = hmix(h, v); }
    G->outhash = h;
    /* residual of a successful run */
    G->resid_ok = 1;
    if (r.info == 0 && r.wf == 0) { char msg[300]; ld ratio; ldc M[NMAX][NMAX]; permuted_A(r.A, n, r.perm_r, r.perm_c, M);
        if (f.driver == DRV_DIRECT && check_lu_residual(M, r.Ld, r.Ud, n, &ratio, msg, sizeof msg)) G->resid_ok = 0; }
    G->have = 1;
}
enum { OC_RETURN, OC_ABORT, OC_SAN, OC_FAULT, OC_HANG, OC_SILENT_EXIT };
static char errtext[2048];
static int run_child(const fc_t *c, int timeout_s, char *cd, size_t cdl) {
    int fd = memfd_create("stderr", 0);
    fflush(NULL); vf_sh->where[0] = 0;
    pid_t pid = fork();
    if (pid == 0) { dup2(fd, 2); signal(SIGALRM, vf_alarm); vf_install_fault_handlers(); vf_case_timer(timeout_s); run_here(c); fflush(NULL); _exit(0); }
    int st = 0; waitpid(pid, &st, 0); vf_last_child = pid;
    errtext[0] = 0; { off_t len = lseek(fd, 0, SEEK_END); if (len > 0) { if (len > (off_t)sizeof errtext - 1) len = sizeof errtext - 1; lseek(fd, 0, SEEK_SET); ssize_t q = read(fd, errtext, len); errtext[q > 0 ? q : 0] = 0; } close(fd); }
    cd[0] = 0;
    if (WIFEXITED(st) && WEXITSTATUS(st) == 0 && G->have) return OC_RETURN;
    int code = WIFEXITED(st) ? WEXITSTATUS(st) : -1;
    if (WIFSIGNALED(st)) { snprintf(cd, cdl, "signal:%d", WTERMSIG(st)); return OC_FAULT; }
    if (code == 99) { vf_crash_desc(VF_ASAN, 99, cd, cdl);
        /* UBSan prints to stderr (captured): "<path>/file.c:line:col: runtime error: <text>" -> "ubsan@file.c" */
        char *p = strstr(errtext, "runtime error: ");
        if (!strchr(cd, '@') && p) { char *q = p; while (q > errtext && q[-1] != '\n') q--; char *sl = NULL; for (char *t = q; t < p; t++) if (*t == '/') sl = t; char fn[64] = "?"; if (sl) sscanf(sl + 1, "%63[^:]", fn); char nn[96]; vf_neutral_name(fn, nn, sizeof nn); snprintf(cd, cdl, "sanitizer:null-or-ub@%s", nn); }
        return OC_SAN; }
    if (code == 98) { vf_crash_desc(VF_FAULT, 98, cd, cdl); return OC_FAULT; }
    if (code == 97) { snprintf(cd, cdl, "timeout"); return OC_HANG; }
    /* exit(1) / exit(-1): the library's abort path; it must come with a diagnostic on stderr */
    int has_text = 0; for (const char *p = errtext; *p; p++) if (*p > ' ') has_text = 1;
    snprintf(cd, cdl, "exit:%d", code);
    return has_text ? OC_ABORT : OC_SILENT_EXIT;
}
static const char *site_of(const char *cd) { const char *s = strchr(cd, '@'); return s ? s : cd; }

/* ------------------------------------------------------------------ families */
static void judge_outcome(const fc_t *c, const char *fam, int oc, const char *cd, const fc_t *ref_c, unsigned long long ref_hash, int n) {
    char cs[200]; fc_str(c, fam, cs, sizeof cs); char sig[110];
    if (!strcmp(fam, "lworktight")) fam = "lwork";
    if (!strcmp(fam, "retry")) fam = "alloc";          /* single failing request: the signatures of family alloc */       /* same fault class, same signatures (the case string keeps the family) */
    G->runs++; G->judged++;
    note_distinct(hmix(hmix(c->k * 131 + c->lwork, c->mat * 64 + c->drv * 8 + c->P), oc == OC_RETURN ? (unsigned long long)G->info : 1000 + oc));
    switch (oc) {
    case OC_ABORT: G->aborts++; return;                                   /* stops through the library's abort path with a diagnostic: allowed */
    case OC_SILENT_EXIT: snprintf(sig, sizeof sig, "C14:%s:exit-without-diagnostic:drv%d", fam, c->drv); viol(sig, cs, "the process ended (%s) without any diagnostic on stderr", cd); return;
    case OC_SAN: case OC_FAULT: G->crashes++; snprintf(sig, sizeof sig, "C14:%s:crash:%s", fam, site_of(cd)); viol(sig, cs, "memory error instead of info > n or the abort path (%s)", cd); return;
    case OC_HANG: G->hangs++; snprintf(sig, sizeof sig, "C14:%s:hang:drv%d", fam, c->drv); viol(sig, cs, "the call did not return within the time limit"); return;
    default: break;
    }
    /* returned */
    if (G->redzone) { snprintf(sig, sizeof sig, "C14:%s:redzone:drv%d", fam, c->drv); viol(sig, cs, "bytes outside the caller's workspace were written"); }
    if (G->info > n) { G->memfail_returns++; if (G->leak > 0 && 0) {} return; }
    if (G->info == 0) {
        G->successes++;
        if (G->wf) { snprintf(sig, sizeof sig, "C14:%s:malformed-factors:drv%d", fam, c->drv); viol(sig, cs, "info=0 but the returned factors are malformed (wellformed code %d)", G->wf); return; }
        if (!G->resid_ok) { snprintf(sig, sizeof sig, "C14:%s:wrong-factors:drv%d", fam, c->drv); viol(sig, cs, "info=0 but Pr A Pc != L U"); }
        if (c->lwork > 0 && G->outside) { snprintf(sig, sizeof sig, "C14:%s:factors-outside-workspace:drv%d", fam, c->drv); viol(sig, cs, "L/U array #%d lies outside the caller's buffer", G->outside - 1); }
        if (ref_c && G->outhash != ref_hash) { snprintf(sig, sizeof sig, "C14:%s:result-differs-from-internal-memory:drv%d", fam, c->drv); viol(sig, cs, "info, permutations or solution differ from the run with internally allocated memory"); }
        /* a failing allocation must not be survived "as if it had succeeded" unless it was never needed: if request k failed (k <= K) and the call still reports success, something ignored a NULL */
        if (c->k > 0 && !c->single && c->k <= G->calls) { snprintf(sig, sizeof sig, "C14:%s:success-after-failure:drv%d", fam, c->drv); viol(sig, cs, "allocation request %ld of %ld failed (and all later ones) but the call returned info=0", c->k, G->calls); }
        return;
    }
    /* 0 < info <= n on a nonsingular matrix, or negative */
    snprintf(sig, sizeof sig, "C14:%s:bogus-info:drv%d", fam, c->drv); viol(sig, cs, "nonsingular matrix, memory trouble only, but info=%d (n=%d)", G->info, n);
}

int main(int argc, char **argv) {
    out_init();
    G = mmap(NULL, sizeof *G, PROT_READ | PROT_WRITE, MAP_SHARED | MAP_ANONYMOUS, -1, 0); G->samples_left = 3;
    vf_sh = mmap(NULL, sizeof *vf_sh, PROT_READ | PROT_WRITE, MAP_SHARED | MAP_ANONYMOUS, -1, 0);
    PROP = arg_str(argc, argv, "--prop", "C14");
    const char *one = arg_str(argc, argv, "--one", NULL);
    const char *fam = arg_str(argc, argv, "--family", "alloc");
    fc_t c; memset(&c, 0, sizeof c);
    c.mat = arg_int(argc, argv, "--mat", 0); c.drv = arg_int(argc, argv, "--drv", 2); c.P = arg_int(argc, argv, "--P", 1); c.nr = arg_int(argc, argv, "--nr", 0); c.single = arg_int(argc, argv, "--single", 0);
    int step = arg_int(argc, argv, "--step", 4); int timeout = arg_int(argc, argv, "--timeout", 20);
    double deadline = atof(arg_str(argc, argv, "--deadline", "1e9")), t0 = now_s();
    int isl = 0, nsl = 1; sscanf(arg_str(argc, argv, "--slice", "0/1"), "%d/%d", &isl, &nsl);
    char cd[200]; static tmat_t T;
    if (one) { const char *p; char f2[16] = "alloc";
#define GI(key, var) if ((p = strstr(one, key "="))) var = atol(p + strlen(key) + 1)
        GI("mat", c.mat); GI("drv", c.drv); GI(" P", c.P); GI("nr", c.nr); GI("lwork", c.lwork); GI(" k", c.k); GI("single", c.single); GI("fill", c.fill); GI("f6", c.f6); GI("f7", c.f7); GI("f8", c.f8);
        if ((p = strstr(one, "fam="))) sscanf(p + 4, "%15s", f2);
        int n = build_mat(c.mat, &T); int oc = run_child(&c, timeout, cd, sizeof cd); judge_outcome(&c, f2, oc, cd, NULL, 0, n);
        out_stats(PROP, "\"runs\":1,\"violations\":%ld", G->viol); return G->viol ? 1 : 0; }
    int n = build_mat(c.mat, &T); int complete = 1;
    /* reference: fault-free run with internal memory */
    fc_t ref = c; ref.k = 0; ref.lwork = 0; int oc = run_child(&ref, timeout, cd, sizeof cd);
    if (oc != OC_RETURN || G->info != 0) { char cs[200]; fc_str(&ref, fam, cs, sizeof cs); viol("C14:baseline", cs, "the fault-free call with internal memory did not succeed (outcome %d info %d %s)", oc, G->info, cd); out_stats(PROP, "\"family\":\"%s\",\"complete\":false,\"runs\":1,\"violations\":%ld", fam, G->viol); return 0; }
    long K = G->calls; unsigned long long ref_hash = G->outhash;
    if (!strcmp(fam, "alloc")) {
        for (long k = 1 + isl; k <= K + 1; k += nsl) {
            if (now_s() - t0 > deadline) { complete = 0; break; }
            fc_t cc = c; cc.k = k; int o = run_child(&cc, timeout, cd, sizeof cd); judge_outcome(&cc, fam, o, cd, NULL, 0, n);
            if (G->samples_left > 0 && k % 7 == 3) { G->samples_left--; char cs[200]; fc_str(&cc, fam, cs, sizeof cs); out_sample(PROP, "%s -> outcome %s%s info=%d", cs, o == OC_RETURN ? "returned" : o == OC_ABORT ? "abort+diagnostic " : "other ", cd, o == OC_RETURN ? G->info : -1); }
        }
    } else if (!strcmp(fam, "query")) {
        fc_t cc = c; cc.lwork = -1; int o = run_child(&cc, timeout, cd, sizeof cd); char cs[200]; fc_str(&cc, fam, cs, sizeof cs); G->runs++; G->judged++; note_distinct(hmix(c.mat, c.drv * 8 + c.P)); note_distinct(hmix(c.mat + 77, G->info));
        if (o != OC_RETURN) { char sig[110]; snprintf(sig, sizeof sig, "C14:query:crash:%s:drv%d", site_of(cd), c.drv); viol(sig, cs, "workspace query did not return (%s)", cd); }
        else {
            if (!(G->info > n)) { char sig[64]; snprintf(sig, sizeof sig, "C14:query:no-estimate:drv%d", c.drv); viol(sig, cs, "lwork=-1 returned info=%d (expected estimate + n > n)", G->info); }
            if (G->threads > 0) { char sig[64]; snprintf(sig, sizeof sig, "C14:query:factorized:drv%d", c.drv); viol(sig, cs, "the workspace query created %d worker thread(s)", G->threads); }
            if (c.drv == DRV_GSSVX && G->need != G->info - n) { char sig[64]; snprintf(sig, sizeof sig, "C14:query:total_needed:drv%d", c.drv); viol(sig, cs, "mem_usage.total_needed=%ld but info-n=%d", G->need, G->info - n); }
            if (G->a_changed && c.drv != DRV_GSSVX) viol("C14:query:A-modified", cs, "the query changed A");
        }
    } else if (!strcmp(fam, "lwork")) {
        /* estimate from a query, then every size in steps of `step` bytes up to 1.25 x the estimate */
        fc_t q = c; q.lwork = -1; int o = run_child(&q, timeout, cd, sizeof cd); long est = (o == OC_RETURN && G->info > n) ? G->info - n : 20000;
        long top = est + est / 4 + 64; long idx = 0;
        for (long lw = step; lw <= top; lw += step, idx++) {
            if (idx % nsl != isl) continue;
            if (now_s() - t0 > deadline) { complete = 0; break; }
            fc_t cc = c; cc.lwork = lw; int oo = run_child(&cc, timeout, cd, sizeof cd); judge_outcome(&cc, fam, oo, cd, &ref, ref_hash, n);
        }
    } else if (!strcmp(fam, "fill")) {
        /* too small estimates for the L values (sp_ienv 6), for U (sp_ienv 7) and for L's subscripts (sp_ienv 8): every positive size from 1 to
           sufficient, each estimate alone (the others at their defaults) and the last two together */
        long idx = 0;
        for (int which = 0; which < 4; which++) for (int f = 1; f <= 60; f++, idx++) {
            if (idx % nsl != isl) continue;
            fc_t cc = c; if (which == 0) cc.fill = f; else if (which == 1) cc.f7 = f; else if (which == 2) cc.f8 = f; else cc.f6 = f;
            int oo = run_child(&cc, timeout, cd, sizeof cd); judge_outcome(&cc, fam, oo, cd, &ref, ref_hash, n); }
    } else if (!strcmp(fam, "retry")) {
        /* the recovery path of p?gstrf_MemInit (added after seeded change C09/2 was missed): estimates sp_ienv(7)/(8) that become exactly (or nearly)
           sufficient AFTER the halving the library applies when the first attempt to allocate ucol/lsub/usub fails, and every single failing request */
        int m7 = 0, m8 = 0;
        for (int f = 1; f <= 80 && !m7; f++) { fc_t cc = c; cc.f7 = f; int oo = run_child(&cc, timeout, cd, sizeof cd); if (oo == OC_RETURN && G->info == 0) m7 = f; }
        for (int f = 1; f <= 80 && !m8; f++) { fc_t cc = c; cc.f8 = f; int oo = run_child(&cc, timeout, cd, sizeof cd); if (oo == OC_RETURN && G->info == 0) m8 = f; }
        if (!m7 || !m8) { char cs[200]; fc_str(&c, fam, cs, sizeof cs); viol("C14:retry:no-sufficient-estimate", cs, "no estimate up to 80 entries sufficed (sp_ienv(7): %d, sp_ienv(8): %d)", m7, m8); }
        else { long idx = 0;
            for (int d7 = 0; d7 < 3; d7++) for (int d8 = 0; d8 < 3; d8++) {
                fc_t b = c; b.f7 = 2 * m7 + d7; if (b.f7 < T.nnz + d7) b.f7 = T.nnz + d7;  /* the library gives up when the halved estimate falls below nnz(A)/2 */
                b.f8 = 2 * m8 + d8; int ob = run_child(&b, timeout, cd, sizeof cd); long Kb = (ob == OC_RETURN) ? G->calls : K;
                for (long k = 1; k <= Kb; k++, idx++) { if (idx % nsl != isl) continue; if (now_s() - t0 > deadline) { complete = 0; break; }
                    fc_t cc = b; cc.k = k; cc.single = 1; int oo = run_child(&cc, timeout, cd, sizeof cd); judge_outcome(&cc, fam, oo, cd, &ref, ref_hash, n); } }
        }
    } else if (!strcmp(fam, "lworktight")) {
        /* user workspace with TIGHT estimates: the smallest sufficient sp_ienv(7) and sp_ienv(8) are found first (internal memory), then every
           workspace size in steps of `step` bytes: the window in which the L/U part fits but the per-thread working arrays do not is reached */
        int m7 = 0, m8 = 0;
        for (int f = 1; f <= 80 && !m7; f++) { fc_t cc = c; cc.f7 = f; int oo = run_child(&cc, timeout, cd, sizeof cd); if (oo == OC_RETURN && G->info == 0) m7 = f; }
        for (int f = 1; f <= 80 && !m8; f++) { fc_t cc = c; cc.f8 = f; int oo = run_child(&cc, timeout, cd, sizeof cd); if (oo == OC_RETURN && G->info == 0) m8 = f; }
        if (!m7 || !m8) { char cs[200]; fc_str(&c, fam, cs, sizeof cs); viol("C14:lworktight:no-sufficient-estimate", cs, "no estimate up to 80 entries sufficed (sp_ienv(7): %d, sp_ienv(8): %d)", m7, m8); }
        else {
            fc_t q = c; q.lwork = -1; q.f7 = m7; q.f8 = m8; int o = run_child(&q, timeout, cd, sizeof cd); long est = (o == OC_RETURN && G->info > n) ? G->info - n : 20000;
            long top = est + est / 4 + 64; long idx = 0;
            for (long lw = step; lw <= top; lw += step, idx++) {
                if (idx % nsl != isl) continue;
                if (now_s() - t0 > deadline) { complete = 0; break; }
                fc_t cc = c; cc.lwork = lw; cc.f7 = m7; cc.f8 = m8; int oo = run_child(&cc, timeout, cd, sizeof cd); judge_outcome(&cc, fam, oo, cd, &ref, ref_hash, n);
            }
        }
    }
    out_stats(PROP, "\"family\":\"%s\",\"mat\":%d,\"drv\":%d,\"P\":%d,\"single\":%d,\"K\":%ld,\"slice\":\"%d/%d\",\"complete\":%s,\"runs\":%ld,\"faults\":%ld,\"judged\":%ld,\"skipped\":%ld,\"violations\":%ld,\"distinct_outcomes\":%ld,"
              "\"aborts_with_diagnostic\":%ld,\"returns_info_gt_n\":%ld,\"successes\":%ld,\"hangs\":%ld,\"crashes\":%ld,\"wall_s\":%.2f",
              fam, c.mat, c.drv, c.P, c.single, K, isl, nsl, complete ? "true" : "false", G->runs, G->runs, G->judged, G->skipped, G->viol, G->distinct, G->aborts, G->memfail_returns, G->successes, G->hangs, G->crashes, now_s() - t0);
    return 0;
}
