/* Engine Q (mcorder): bounded-exhaustive check of property C10
 *   "orderings are bijections; preprocessing yields A*Pc and its postordered etree".
 *
 * Enumerated: every 0/1 pattern of an m x n matrix (m,n <= 4, all 2^(m*n) bit masks, empty rows/columns included)
 *   x ordering option 0..3 of get_perm_c x SymmetricMode NO/YES of sp_colorder (square patterns),
 *   x (caller-permutation axis) every one of the n! column orders handed to sp_colorder / sp_coletree directly.
 * Judged against brute-force references written here (quadratic symbolic Cholesky of the clique / A+A^T graph).
 *
 * usage: mcorder --family sq|rect|sqdiag --n 1..4 --grid quick|full [--slice i/k] [--deadline s] [--timeout s] [--permaxis 0|1] [--colcnt zfd|all]
 *        (sqdiag: square patterns with a full diagonal only, n up to 5)
 *        mcorder --one "<case string>"          (replay of one case, exit status 1 if it violates)
 *
 * case string:  m=<m> n=<n> pat=<m*n chars, row major> stage=order    ord=<0..3>
 *                                                      stage=colorder ord=<0..3>|perm=<digits> sym=<0|1>
 *                                                      stage=coletree ord=<0..3>|perm=<digits>
 */
#include "../common/common.h"

static const char *PROP = "C10";
static int colcnt_all;       /* --colcnt all: also judge the column counts outside the zero-free-diagonal hypothesis (own signature) */
#define MAXN 4
#define NSIG 64
#define PRINT_CAP 5
#define MAX_RESUMES 12

typedef struct {
    long cfg_no, resume_cfg, resumes; long crashed[MAX_RESUMES + 2]; int ncrashed;
    long runs, judged, skipped, viol, deaths, distinct, distinct_dropped;
    long n_order, n_colorder, n_coletree;
    long skip_opt2_nonsquare, skip_no_input_perm;
    long bnz0_identity, bnz0_cases;
    long colcnt_judged, colcnt_outside_hyp, colcnt_outside_hyp_bad;
    long selfcheck_fail;
    int samples_left;
    int nsig; char sig[NSIG][96]; long sigcnt[NSIG];
    unsigned long long dh[1 << 23];
} shared_counters_t;
static shared_counters_t *G;

static void note_distinct(unsigned long long h) {
    unsigned k = (unsigned)(h >> 20) & 0x7fffff;
    for (int t = 0; t < 64; t++) { unsigned s = (k + t) & 0x7fffff; if (G->dh[s] == h) return; if (!G->dh[s]) { G->dh[s] = h; G->distinct++; return; } }
    G->distinct_dropped++;     /* table saturated: distinct is then a lower bound */
}
static unsigned long long hmix(unsigned long long h, unsigned long long v) { h ^= v + 0x9E3779B97F4A7C15ULL + (h << 6) + (h >> 2); return h; }

/* count every violation, print at most PRINT_CAP per signature and process tree */
static void viol(const char *sig, const char *cs, const char *fmt, ...) {
    char buf[1024]; va_list ap; va_start(ap, fmt); vsnprintf(buf, sizeof buf, fmt, ap); va_end(ap);
    G->viol++;
    int k; for (k = 0; k < G->nsig; k++) if (!strcmp(G->sig[k], sig)) break;
    if (k == G->nsig) { if (G->nsig < NSIG) { snprintf(G->sig[k], sizeof G->sig[k], "%s", sig); G->sigcnt[k] = 0; G->nsig++; } else k = NSIG - 1; }
    if (G->sigcnt[k]++ < PRINT_CAP) out_violation(PROP, sig, cs, "%s", buf);
}

/* ------------------------------------------------------------------ patterns */
typedef struct { int m, n; unsigned long long bits; int P[NMAX][NMAX]; } pat_t;
static void pat_make(pat_t *p, int m, int n, unsigned long long bits) {
    memset(p, 0, sizeof *p); p->m = m; p->n = n; p->bits = bits;
    for (int i = 0; i < m; i++) for (int j = 0; j < n; j++) p->P[i][j] = (int)((bits >> (i * n + j)) & 1);
}
static void pat_str(const pat_t *p, char *b) { int o = 0; for (int i = 0; i < p->m; i++) for (int j = 0; j < p->n; j++) b[o++] = p->P[i][j] ? '1' : '0'; b[o] = 0; }
static const char *pat_class(const pat_t *p) {
    if (p->m != p->n) return p->m > p->n ? "rect-tall" : "rect-wide";
    int ec = 0, er = 0, zd = 0, any = 0;
    for (int j = 0; j < p->n; j++) { int c = 0, r = 0; for (int i = 0; i < p->m; i++) { c += p->P[i][j]; r += p->P[j][i]; } if (!c) ec = 1; if (!r) er = 1; if (!p->P[j][j]) zd = 1; any += c; }
    if (!any) return "empty"; if (ec) return "empty-column"; if (er) return "empty-row";
    int cols[NMAX], P[NMAX][NMAX]; for (int j = 0; j < p->n; j++) cols[j] = j; memcpy(P, p->P, sizeof P);
    if (struct_rank_prefix(p->n, P, cols, p->n) < p->n) return "structurally-singular";
    return zd ? "zero-on-diagonal" : "full-diagonal";
}

/* ------------------------------------------------------------------ references (brute force) */
/* elimination tree of a symmetric graph by the definition: symbolic Cholesky without cancellation,
 * parent(j) = min{ i > j : L(i,j) != 0 }, n for a root */
static void ref_etree_from_adj(int n, int adj[NMAX][NMAX], int *par) {
    int L[NMAX][NMAX];
    for (int i = 0; i < n; i++) for (int j = 0; j < n; j++) L[i][j] = (i > j) && (adj[i][j] || adj[j][i]);
    for (int j = 0; j < n; j++)
        for (int i = j + 1; i < n; i++) if (L[i][j])
            for (int k = i + 1; k < n; k++) if (L[k][j]) L[k][i] = 1;
    for (int j = 0; j < n; j++) { par[j] = n; for (int i = j + 1; i < n; i++) if (L[i][j]) { par[j] = i; break; } }
}
/* graph of (A*Pc)^T (A*Pc): every row of A is a clique on the columns it touches; pos[j] = position of column j of A in A*Pc */
static void adj_column(const pat_t *p, const int *pos, int adj[NMAX][NMAX]) {
    memset(adj, 0, sizeof(int) * NMAX * NMAX);
    for (int r = 0; r < p->m; r++) for (int a = 0; a < p->n; a++) if (p->P[r][a]) for (int b = 0; b < p->n; b++) if (b != a && p->P[r][b]) adj[pos[a]][pos[b]] = 1;
}
/* graph of Pc (A + A^T) Pc^T */
static void adj_symmetric(const pat_t *p, const int *pos, int adj[NMAX][NMAX]) {
    memset(adj, 0, sizeof(int) * NMAX * NMAX);
    for (int a = 0; a < p->n; a++) for (int b = 0; b < p->n; b++) if (a != b && (p->P[a][b] || p->P[b][a])) adj[pos[a]][pos[b]] = 1;
}
static void ref_etree(const pat_t *p, const int *pos, int sym, int *par) {
    int adj[NMAX][NMAX]; if (sym) adj_symmetric(p, pos, adj); else adj_column(p, pos, adj);
    ref_etree_from_adj(p->n, adj, par);
}
/* "numbered so that every subtree occupies a contiguous index range ending at its root": parent[j] in (j, n] and
 * for every j the set of descendants-or-self of j is exactly [j-size+1, j].  0 ok */
static int shape_check(int n, const long *par, char *msg, size_t ml) {
    for (int j = 0; j < n; j++) if (!(par[j] > j && par[j] <= n)) { snprintf(msg, ml, "parent[%d]=%ld is not in (%d,%d]", j, par[j], j, n); return 1; }
    for (int j = 0; j < n; j++) {
        int cnt = 0, mn = j;
        for (int v = 0; v <= j; v++) { long a = v; while (a < j) a = par[a]; if (a == j) { cnt++; if (v < mn) mn = v; } }
        if (mn != j - cnt + 1) { snprintf(msg, ml, "subtree of %d has %d vertices, lowest %d: not the contiguous range %d..%d", j, cnt, mn, j - cnt + 1, j); return 2; }
    }
    return 0;
}
static int is_bijection(const int_t *p, int n, char *msg, size_t ml) {
    int seen[NMAX] = { 0 };
    for (int i = 0; i < n; i++) {
        if (p[i] < 0 || p[i] >= n) { snprintf(msg, ml, "perm[%d]=%ld out of range 0..%d%s", i, (long)p[i], n - 1, p[i] == -1 ? " (entry never written)" : ""); return 0; }
        if (seen[p[i]]++) { snprintf(msg, ml, "value %ld occurs twice", (long)p[i]); return 0; }
    }
    return 1;
}
static void vec_str(const int_t *v, int n, char *b, size_t bl) { size_t o = 0; b[0] = 0; for (int i = 0; i < n && o + 16 < bl; i++) o += snprintf(b + o, bl - o, "%s%ld", i ? "," : "", (long)v[i]); }
static void ivec_str(const int *v, int n, char *b, size_t bl) { size_t o = 0; b[0] = 0; for (int i = 0; i < n && o + 16 < bl; i++) o += snprintf(b + o, bl - o, "%s%d", i ? "," : "", v[i]); }

/* ------------------------------------------------------------------ one matrix: state shared by its cases */
typedef struct {
    pat_t p; tmat_t T; amat_t am; char ps[NMAX * NMAX + 1];
    int perm_ok[4]; int_t perm[4][NMAX];          /* result of get_perm_c(k) */
} mat_t;
static mat_t M;

static void mat_open(int m, int n, unsigned long long bits) {
    pat_make(&M.p, m, n, bits); pat_str(&M.p, M.ps);
    static ldc D[NMAX][NMAX]; for (int i = 0; i < m; i++) for (int j = 0; j < n; j++) D[i][j] = 1;
    tm_from_dense(&M.T, m, n, M.p.P, D);
    am_build(&M.am, &M.T, 0);
    for (int k = 0; k < 4; k++) M.perm_ok[k] = 0;
}
static void mat_close(void) { am_free(&M.am); }
static void check_A(const char *cs) {
    int c = am_unchanged(&M.am);
    if (c) { viol("C10:a-modified", cs, "A differs from the pristine copy (part %d: 1 header, 2/3 store header, 4 values, 5 row indices, 6 column pointers)", c); am_free(&M.am); am_build(&M.am, &M.T, 0); }
}
static void set_note(const char *cs) { if (vf_sh) snprintf((char *)vf_sh->note, sizeof vf_sh->note, "%s", cs); }
/* 1 if this case is to be executed; 0 if the sweep is resuming behind a death (then *crashed tells whether it is a case that died) */
static int case_enter(int *crashed) {
    G->cfg_no++; if (crashed) *crashed = 0;
    if (G->resume_cfg && G->cfg_no <= G->resume_cfg) {
        if (crashed) for (int i = 0; i < G->ncrashed; i++) if (G->crashed[i] == G->cfg_no) *crashed = 1;
        return 0;
    }
    return 1;
}

/* off-diagonal structure empty?  (the bnz == 0 path of get_perm_c) */
static int bnz_is_zero(const pat_t *p, int ord) {
    int id[NMAX], adj[NMAX][NMAX]; for (int j = 0; j < p->n; j++) id[j] = j;
    if (ord == 1) adj_column(p, id, adj); else adj_symmetric(p, id, adj);
    for (int a = 0; a < p->n; a++) for (int b = 0; b < p->n; b++) if (adj[a][b]) return 0;
    return 1;
}

/* ---------- stage "order": get_perm_c(ord) ---------- */
static void call_get_perm_c(int ord, int_t *pc) { for (int i = 0; i < M.p.n; i++) pc[i] = -1; get_perm_c(ord, &M.am.A, pc); }
static void stage_order(int ord) {
    int n = M.p.n, crashed; char cs[200], msg[200];
    snprintf(cs, sizeof cs, "m=%d n=%d pat=%s stage=order ord=%d", M.p.m, n, M.ps, ord);
    if (ord == 2 && M.p.m != n) { if (case_enter(NULL)) { G->skipped++; G->skip_opt2_nonsquare++; } return; }   /* documented: aborts with "Matrix is not square" */
    int_t *pc = malloc(sizeof(int_t) * n);          /* exact size: an overrun is seen by the sanitizer */
    if (!case_enter(&crashed)) {
        /* resuming behind a death: the permutation is still needed by the later cases of this matrix */
        if (!crashed) { call_get_perm_c(ord, pc); if (is_bijection(pc, n, msg, sizeof msg)) { M.perm_ok[ord] = 1; memcpy(M.perm[ord], pc, sizeof(int_t) * n); } }
        free(pc); return;
    }
    set_note(cs);
    G->runs++; G->n_order++;
    call_get_perm_c(ord, pc);
    G->judged++;
    unsigned long long h = hmix(hmix(hmix(1469598103934665603ULL, M.p.bits), M.p.m * 16 + n), 100 + ord); for (int i = 0; i < n; i++) h = hmix(h, (unsigned long long)pc[i] + 3);
    note_distinct(h);
    if (!is_bijection(pc, n, msg, sizeof msg)) { char sig[64], v[100]; vec_str(pc, n, v, sizeof v); snprintf(sig, sizeof sig, "C10:bijection:opt%d", ord); viol(sig, cs, "get_perm_c(%d) returned [%s]: %s", ord, v, msg); }
    else { M.perm_ok[ord] = 1; memcpy(M.perm[ord], pc, sizeof(int_t) * n); }
    if ((ord == 1 || ord == 2) && bnz_is_zero(&M.p, ord)) { G->bnz0_cases++; int id = 1; for (int i = 0; i < n; i++) if (pc[i] != i) id = 0; if (id) G->bnz0_identity++; }
    check_A(cs);
    if (G->samples_left > 0 && ord == 1 && M.T.nnz > n + 1) { G->samples_left--; char v[100]; vec_str(pc, n, v, sizeof v); out_sample(PROP, "%s -> perm_c=[%s]", cs, v); }
    free(pc);
}

/* ---------- stage "colorder": sp_colorder(A, perm_c, options, AC) ---------- */
static void stage_colorder(const int_t *pin, const char *label, int sym) {
    int n = M.p.n; char cs[240], msg[300];
    snprintf(cs, sizeof cs, "m=%d n=%d pat=%s stage=colorder %s sym=%d", M.p.m, n, M.ps, label, sym);
    if (!case_enter(NULL)) return;
    if (!pin) { G->skipped++; G->skip_no_input_perm++; return; }     /* hypothesis: the caller's ordering is an ordering */
    set_note(cs);
    const char *sfx = sym ? ":sym" : ""; char sig[64];
    superlumt_options_t opt; memset(&opt, 0, sizeof opt);
    opt.nprocs = 1; opt.fact = DOFACT; opt.trans = NOTRANS; opt.refact = NO; opt.panel_size = 1; opt.relax = 1; opt.diag_pivot_thresh = 1.0;
    opt.usepr = NO; opt.SymmetricMode = sym ? YES : NO; opt.PrintStat = NO;
    opt.etree = intMalloc(n); opt.colcnt_h = intMalloc(n); opt.part_super_h = intMalloc(n);
    for (int i = 0; i < n; i++) { opt.etree[i] = -7; opt.colcnt_h[i] = -7; opt.part_super_h[i] = -7; }
    int_t *pc = malloc(sizeof(int_t) * n); memcpy(pc, pin, sizeof(int_t) * n);
    SuperMatrix AC; memset(&AC, 0x5a, sizeof AC);
    G->runs++; G->n_colorder++;
    sp_colorder(&M.am.A, pc, &opt, &AC);
    G->judged++;
    unsigned long long h = hmix(hmix(hmix(1469598103934665603ULL, M.p.bits), M.p.m * 16 + n), 200 + sym);
    for (int i = 0; i < n; i++) { h = hmix(h, (unsigned long long)pin[i] + 1); h = hmix(h, (unsigned long long)pc[i] * 7 + 3); h = hmix(h, (unsigned long long)opt.etree[i] * 13 + 5); h = hmix(h, (unsigned long long)opt.part_super_h[i] * 17 + (unsigned long long)opt.colcnt_h[i] * 31); }
    note_distinct(h);

    /* (b) AC is A with permuted column pointers, sharing values and row indices; A untouched (checked after the pointer comparison:
     * check_A rebuilds A when it was modified) */
    int pf_ok = is_bijection(pc, n, msg, sizeof msg);
    if (!pf_ok) { char v[100], w[100]; vec_str(pc, n, v, sizeof v); vec_str(pin, n, w, sizeof w); snprintf(sig, sizeof sig, "C10:bijection:colorder%s", sfx); viol(sig, cs, "perm_c [%s] -> [%s] after sp_colorder: %s", w, v, msg); }
    {
        const NCPformat *S = AC.Store; const char *bad = NULL; char d[200] = "";
        if (AC.Stype != SLU_NCP) bad = "Stype is not SLU_NCP";
        else if (AC.Dtype != SLU_DT || AC.Mtype != SLU_GE || AC.nrow != M.p.m || AC.ncol != n) bad = "Dtype/Mtype/dimensions differ from A";
        else if (S->nnz != M.am.nnz) bad = "nnz differs from A";
        else if (S->nzval != (void *)M.am.val) bad = "nzval is not A's value array";
        else if (S->rowind != M.am.ind) bad = "rowind is not A's row index array";
        else if (pf_ok) for (int j = 0; j < n && !bad; j++) if (S->colbeg[pc[j]] != M.am.ptr0[j] || S->colend[pc[j]] != M.am.ptr0[j + 1]) {
            snprintf(d, sizeof d, "column %d of A is [%ld,%ld) but AC column perm_c[%d]=%ld is [%ld,%ld)", j, (long)M.am.ptr0[j], (long)M.am.ptr0[j + 1], j, (long)pc[j], (long)S->colbeg[pc[j]], (long)S->colend[pc[j]]); bad = d; }
        if (bad) viol("C10:ac-columns", cs, "%s", bad);
    }
    check_A(cs);
    long et[NMAX]; for (int i = 0; i < n; i++) et[i] = (long)opt.etree[i];
    /* (c) reported tree has the promised numbering */
    int shape_bad = shape_check(n, et, msg, sizeof msg);
    if (shape_bad) { char v[100]; vec_str(opt.etree, n, v, sizeof v); snprintf(sig, sizeof sig, "C10:etree-shape%s", sfx); viol(sig, cs, "reported etree [%s]: %s", v, msg); }
    if (pf_ok) {
        /* (c) perm_c_out = post o perm_c_in with post a postorder of the etree of the caller's ordering */
        int posin[NMAX], posf[NMAX], post[NMAX], t0[NMAX]; long rel[NMAX];
        for (int j = 0; j < n; j++) { posin[j] = (int)pin[j]; posf[j] = (int)pc[j]; post[pin[j]] = (int)pc[j]; }
        ref_etree(&M.p, posin, sym, t0);
        for (int v = 0; v < n; v++) rel[post[v]] = t0[v] == n ? n : post[t0[v]];
        int pbad = shape_check(n, rel, msg, sizeof msg);
        if (pbad) { char a[100], b[100], c[100], d[100]; vec_str(pin, n, a, sizeof a); vec_str(pc, n, b, sizeof b); ivec_str(post, n, c, sizeof c); ivec_str(t0, n, d, sizeof d);
            snprintf(sig, sizeof sig, "C10:postorder%s", sfx); viol(sig, cs, "perm_c [%s] -> [%s], i.e. post=[%s], is not a postorder of the etree [%s] of the caller's ordering: after renumbering, %s", a, b, c, d, msg); }
        /* (d) reported etree = etree by definition of the final matrix */
        int tf[NMAX]; ref_etree(&M.p, posf, sym, tf);
        int same = 1; for (int j = 0; j < n; j++) if (tf[j] != et[j]) same = 0;
        if (!same) { char a[100], b[100], c[100]; vec_str(opt.etree, n, a, sizeof a); ivec_str(tf, n, b, sizeof b); vec_str(pc, n, c, sizeof c);
            snprintf(sig, sizeof sig, "C10:etree%s", sfx); viol(sig, cs, "reported etree [%s] but the elimination tree of %s with final perm_c=[%s] is [%s]", a, sym ? "Pc(A+A^T)Pc^T" : "(A*Pc)^T(A*Pc)", c, b); }
        /* harness self-check (theorem: renumbering by a postorder renumbers the etree) */
        if (!pbad) { int eq = 1; for (int j = 0; j < n; j++) if (rel[j] != tf[j]) eq = 0; if (!eq) { G->selfcheck_fail++; fprintf(stderr, "mcorder: reference self-check failed on %s\n", cs); } }
    }
    /* (e) supernode partition of the bounding factor tiles 0..n-1; counts of the block leaders */
    {
        int bad = 0, j = 0, leaders[NMAX], nl = 0; char v[100]; vec_str(opt.part_super_h, n, v, sizeof v);
        while (j < n && !bad) {
            long w = opt.part_super_h[j];
            if (w < 1 || j + w > n) { snprintf(msg, sizeof msg, "block leader %d has size %ld", j, w); bad = 1; break; }
            for (int k = j + 1; k < j + w; k++) if (opt.part_super_h[k] != 0) { snprintf(msg, sizeof msg, "entry %d inside the block starting at %d is %ld, not 0", k, j, (long)opt.part_super_h[k]); bad = 1; }
            leaders[nl++] = j; j += (int)w;
        }
        if (bad) { snprintf(sig, sizeof sig, "C10:partition%s", sfx); viol(sig, cs, "part_super_h=[%s]: %s", v, msg); }
        else {
            /* The Householder count (George/Liu/Ng row-path structure, rows identified with columns) presupposes a zero-free
             * diagonal of A*Pc; the Cholesky count of A+A^T (symmetric mode) does not.  Outside that hypothesis: counted only. */
            int zfd = 1; if (!sym) { if (!pf_ok) zfd = 0; else for (int c = 0; c < n; c++) if (!M.p.P[pc[c]][c]) zfd = 0; }
            int cb = -1; for (int k = 0; k < nl; k++) if (opt.colcnt_h[leaders[k]] < 1 || opt.colcnt_h[leaders[k]] > n) { cb = leaders[k]; break; }
            if (zfd) { G->colcnt_judged++; if (cb >= 0) { char c[100]; vec_str(opt.colcnt_h, n, c, sizeof c); snprintf(sig, sizeof sig, "C10:colcnt%s", sfx); viol(sig, cs, "colcnt_h=[%s], part_super_h=[%s]: count %ld of block leader %d is not in 1..%d", c, v, (long)opt.colcnt_h[cb], cb, n); } }
            else { G->colcnt_outside_hyp++; if (cb >= 0) { G->colcnt_outside_hyp_bad++;
                if (colcnt_all) { char c[100]; vec_str(opt.colcnt_h, n, c, sizeof c); snprintf(sig, sizeof sig, "C10:colcnt-outside-hypothesis:%s", pat_class(&M.p)); viol(sig, cs, "colcnt_h=[%s], part_super_h=[%s], final perm_c leaves a zero on the diagonal of A*Pc: count %ld of block leader %d is not in 1..%d", c, v, (long)opt.colcnt_h[cb], cb, n); } } }
        }
    }
    if (G->samples_left > 0 && !sym && M.T.nnz > n + 1 && pin[0] != 0) { G->samples_left--; char a[100], b[100], c[100], d[100]; vec_str(pin, n, a, sizeof a); vec_str(pc, n, b, sizeof b); vec_str(opt.etree, n, c, sizeof c); vec_str(opt.part_super_h, n, d, sizeof d);
        out_sample(PROP, "%s -> perm_c [%s]->[%s] etree=[%s] part_super_h=[%s]", cs, a, b, c, d); }
    if (AC.Stype == SLU_NCP) Destroy_CompCol_Permuted(&AC);
    SUPERLU_FREE(opt.etree); SUPERLU_FREE(opt.colcnt_h); SUPERLU_FREE(opt.part_super_h); free(pc);
}

/* ---------- stage "coletree": sp_coletree called directly on A*Pc (any m x n) ---------- */
static void stage_coletree(const int_t *pin, const char *label) {
    int n = M.p.n, m = M.p.m; char cs[240];
    snprintf(cs, sizeof cs, "m=%d n=%d pat=%s stage=coletree %s", m, n, M.ps, label);
    if (!case_enter(NULL)) return;
    if (!pin) { G->skipped++; G->skip_no_input_perm++; return; }
    set_note(cs);
    int_t *cb = malloc(sizeof(int_t) * n), *ce = malloc(sizeof(int_t) * n), *par = malloc(sizeof(int_t) * n);
    for (int j = 0; j < n; j++) { cb[pin[j]] = M.am.ptr[j]; ce[pin[j]] = M.am.ptr[j + 1]; par[j] = -7; }
    int_t cb0[NMAX], ce0[NMAX]; memcpy(cb0, cb, sizeof(int_t) * n); memcpy(ce0, ce, sizeof(int_t) * n);
    G->runs++; G->n_coletree++;
    sp_coletree(cb, ce, M.am.ind, m, n, par);
    G->judged++;
    unsigned long long h = hmix(hmix(hmix(1469598103934665603ULL, M.p.bits), m * 16 + n), 300); for (int i = 0; i < n; i++) { h = hmix(h, (unsigned long long)pin[i] + 1); h = hmix(h, (unsigned long long)par[i] * 13 + 5); }
    note_distinct(h);
    int pos[NMAX], tf[NMAX]; for (int j = 0; j < n; j++) pos[j] = (int)pin[j];
    ref_etree(&M.p, pos, 0, tf);
    int same = 1; for (int j = 0; j < n; j++) if (tf[j] != par[j]) same = 0;
    if (!same) { char a[100], b[100], c[100]; vec_str(par, n, a, sizeof a); ivec_str(tf, n, b, sizeof b); vec_str(pin, n, c, sizeof c);
        viol(m == n ? "C10:coletree" : "C10:coletree:rect", cs, "sp_coletree returned [%s]; the elimination tree of (A*Pc)^T(A*Pc) with perm_c=[%s] is [%s]", a, c, b); }
    if (memcmp(cb, cb0, sizeof(int_t) * n) || memcmp(ce, ce0, sizeof(int_t) * n)) viol("C10:a-modified", cs, "sp_coletree changed its column pointer arguments");
    check_A(cs);
    free(cb); free(ce); free(par);
}

/* ------------------------------------------------------------------ the case menu of one matrix */
static int permaxis = 1;
static int next_perm(int *p, int n) { int i = n - 2; while (i >= 0 && p[i] > p[i + 1]) i--; if (i < 0) return 0; int j = n - 1; while (p[j] < p[i]) j--; int t = p[i]; p[i] = p[j]; p[j] = t; for (int a = i + 1, b = n - 1; a < b; a++, b--) { t = p[a]; p[a] = p[b]; p[b] = t; } return 1; }

static void cases_for_matrix(int m, int n, unsigned long long bits, int with_permaxis) {
    mat_open(m, n, bits);
    for (int ord = 0; ord < 4; ord++) {
        char label[32]; snprintf(label, sizeof label, "ord=%d", ord);
        stage_order(ord);
        if (ord == 2 && m != n) continue;
        const int_t *pin = M.perm_ok[ord] ? M.perm[ord] : NULL;
        stage_coletree(pin, label);
        if (m == n) for (int sym = 0; sym < 2; sym++) stage_colorder(pin, label, sym);   /* qrnzcnt/at_plus_a index n-sized arrays by row number: square only */
    }
    if (with_permaxis) {
        int p[NMAX]; for (int i = 0; i < n; i++) p[i] = i;
        do {
            int_t pin[NMAX]; char label[32] = "perm="; for (int i = 0; i < n; i++) { pin[i] = p[i]; label[5 + i] = (char)('0' + p[i]); } label[5 + n] = 0;
            stage_coletree(pin, label);
            if (m == n) for (int sym = 0; sym < 2; sym++) stage_colorder(pin, label, sym);
        } while (next_perm(p, n));
    }
    mat_close();
}

/* ------------------------------------------------------------------ index space */
typedef struct { int m, n; unsigned long long first, count; } shape_t;
static shape_t SH[16]; static int nshape; static unsigned long long total_idx;
static const char *GRID = "quick";
static int diag_only;
static void build_shapes_bits(const char *family, int N);
/* family comp (added after seeded change C10-6 was missed: a stale degree-1 bucket in genmmd_ needs an isolated vertex + a component that ends with external degree 0 + a
   third component, n >= 7): every SEQUENCE of components from {K1, P2, P3, K3, P4, star4, C4} with N vertices in total (>= 2 components), vertices numbered consecutively,
   x 4 relabelings (identity, reversal, i -> 3i mod N, i -> 5i mod N) x {symmetric pattern, upper triangle only}; full diagonal */
static unsigned long long *COMP; static long ncomp, capcomp; static int comp_mode;
static const int CSZ[7] = { 1, 2, 3, 3, 4, 4, 4 };
static const int CEDGE[7][4][2] = { { {-1,-1} }, { {0,1}, {-1,-1} }, { {0,1}, {1,2}, {-1,-1} }, { {0,1}, {1,2}, {0,2} }, { {0,1}, {1,2}, {2,3}, {-1,-1} }, { {0,1}, {0,2}, {0,3}, {-1,-1} }, { {0,1}, {1,2}, {2,3}, {0,3} } };
static void comp_emit(const int *seq, int len, int N) {
    if (len < 2) return;
    int adj[8][8]; memset(adj, 0, sizeof adj); int base = 0;
    for (int c = 0; c < len; c++) { int t = seq[c]; for (int e = 0; e < 4 && CEDGE[t][e][0] >= 0; e++) { int a = base + CEDGE[t][e][0], b = base + CEDGE[t][e][1]; adj[a][b] = adj[b][a] = 1; } base += CSZ[t]; }
    for (int map = 0; map < 4; map++) for (int half = 0; half < 2; half++) {
        int lab[8]; for (int i = 0; i < N; i++) lab[i] = map == 0 ? i : map == 1 ? N - 1 - i : map == 2 ? (3 * i) % N : (5 * i) % N;
        unsigned long long bits = 0;
        for (int i = 0; i < N; i++) { bits |= 1ULL << (lab[i] * N + lab[i]); for (int j = 0; j < N; j++) if (adj[i][j]) { int a = lab[i], b = lab[j]; if (!half || a < b) bits |= 1ULL << (a * N + b); } }
        if (ncomp == capcomp) { capcomp = capcomp ? capcomp * 2 : 4096; COMP = realloc(COMP, sizeof *COMP * capcomp); }
        COMP[ncomp++] = bits;
    }
}
static void comp_rec(int *seq, int len, int left, int N) {
    if (left == 0) { comp_emit(seq, len, N); return; }
    for (int t = 0; t < 7; t++) if (CSZ[t] <= left) { seq[len] = t; comp_rec(seq, len + 1, left - CSZ[t], N); }
}
static void build_shapes(const char *family, int N) {
    if (!strcmp(family, "comp")) { int seq[16]; comp_mode = 1; ncomp = 0; comp_rec(seq, 0, N, N); nshape = 1; SH[0].m = SH[0].n = N; SH[0].first = 0; SH[0].count = (unsigned long long)ncomp; total_idx = (unsigned long long)ncomp; return; }
    build_shapes_bits(family, N);
}
static void build_shapes_bits(const char *family, int N) {
    nshape = 0; total_idx = 0;
    if (!strcmp(family, "sq") || !strcmp(family, "sqdiag")) { SH[nshape].m = SH[nshape].n = N; nshape++; }
    else for (int m = 1; m <= N; m++) for (int n = 1; n <= N; n++) if (m != n && (m == N || n == N)) { SH[nshape].m = m; SH[nshape].n = n; nshape++; }
    for (int s = 0; s < nshape; s++) { SH[s].first = total_idx; SH[s].count = 1ULL << (diag_only ? N * N - N : SH[s].m * SH[s].n); total_idx += SH[s].count; }
}
/* family sqdiag: the index enumerates the off-diagonal entries, the diagonal is full */
static unsigned long long diag_bits(int n, unsigned long long off) {
    unsigned long long bits = 0; int k = 0;
    for (int i = 0; i < n; i++) for (int j = 0; j < n; j++) { if (i == j) bits |= 1ULL << (i * n + j); else { if ((off >> k) & 1) bits |= 1ULL << (i * n + j); k++; } }
    return bits;
}
static void idx_to_matrix(unsigned long long idx, int *m, int *n, unsigned long long *bits) {
    if (comp_mode) { *m = *n = SH[0].n; *bits = idx < (unsigned long long)ncomp ? COMP[idx] : 0; return; }
    for (int s = 0; s < nshape; s++) if (idx < SH[s].first + SH[s].count) { *m = SH[s].m; *n = SH[s].n; *bits = diag_only ? diag_bits(SH[s].n, idx - SH[s].first) : idx - SH[s].first; return; }
    *m = *n = 1; *bits = 0;
}
/* quick grid: the caller-permutation axis runs on every pattern up to 3x3 (and every rectangular one) but only on every 17th 4x4 (5x5) pattern */
static int permaxis_for(int m, int n, unsigned long long bits) {
    if (!permaxis || comp_mode) return 0;      /* n! caller orderings at n = 7, 8 are out of reach; the four orderings of get_perm_c are what this family is about */
    if (!strcmp(GRID, "full")) return 1;
    if (m == n && n >= 4) return (bits % 17) == 5;      /* 17 is coprime to the slice count: spread over all slices */
    return 1;
}
static void case_fn(unsigned long long idx) {
    int m, n; unsigned long long bits; idx_to_matrix(idx, &m, &n, &bits);
    G->cfg_no = 0;
    cases_for_matrix(m, n, bits, permaxis_for(m, n, bits));
}
static void death_fn(unsigned long long idx, int kind, int code, const char *note) {
    int m, n; unsigned long long bits; idx_to_matrix(idx, &m, &n, &bits);
    pat_t p; pat_make(&p, m, n, bits);
    G->deaths++;
    char sig[220], cd[128]; vf_crash_desc(kind, code, cd, sizeof cd);
    const char *site = strchr(cd, '@');
    snprintf(sig, sizeof sig, "C10:crash:%s:%s", site ? site : cd, pat_class(&p));
    viol(sig, note, "process died (%s) while running this case", cd);
}

/* ------------------------------------------------------------------ replay of one case string */
static int replay_one(const char *s) {
    int m = 0, n = 0, ord = -1, sym = 0; char pat[80] = "", perm[16] = "", stage[16] = ""; const char *q;
    if ((q = strstr(s, "m="))) m = atoi(q + 2);
    if ((q = strstr(s, " n="))) n = atoi(q + 3);
    if ((q = strstr(s, "pat="))) sscanf(q + 4, "%79[01]", pat);
    if ((q = strstr(s, "stage="))) sscanf(q + 6, "%15[a-z]", stage);
    if ((q = strstr(s, " ord="))) ord = atoi(q + 5);
    if ((q = strstr(s, "perm="))) sscanf(q + 5, "%15[0-9]", perm);
    if ((q = strstr(s, "sym="))) sym = atoi(q + 4);
    if (m < 1 || n < 1 || m > 8 || n > 8 || (int)strlen(pat) != m * n || (ord < 0 && (int)strlen(perm) != n) || ord > 3) { fprintf(stderr, "bad case string\n"); return 2; }
    unsigned long long bits = 0; for (int k = 0; k < m * n; k++) if (pat[k] == '1') bits |= 1ULL << k;
    mat_open(m, n, bits);
    int_t pin[NMAX]; const int_t *pp = NULL; char label[32];
    if (ord >= 0) { snprintf(label, sizeof label, "ord=%d", ord); stage_order(ord); if (M.perm_ok[ord]) pp = M.perm[ord]; }
    else { snprintf(label, sizeof label, "perm=%s", perm); char msg[100]; for (int i = 0; i < n; i++) pin[i] = perm[i] - '0'; if (!is_bijection(pin, n, msg, sizeof msg)) { fprintf(stderr, "perm is not a permutation\n"); return 2; } pp = pin; }
    if (!strcmp(stage, "colorder")) { if (m != n) { fprintf(stderr, "colorder needs a square pattern\n"); return 2; } stage_colorder(pp, label, sym); }
    else if (!strcmp(stage, "coletree")) stage_coletree(pp, label);
    else if (strcmp(stage, "order")) { fprintf(stderr, "unknown stage\n"); return 2; }
    mat_close();
    return G->viol ? 1 : 0;
}

int main(int argc, char **argv) {
    out_init();
    G = mmap(NULL, sizeof *G, PROT_READ | PROT_WRITE, MAP_SHARED | MAP_ANONYMOUS, -1, 0);
    G->samples_left = 3;
    PROP = arg_str(argc, argv, "--prop", "C10");
    const char *one = arg_str(argc, argv, "--one", NULL);
    colcnt_all = !strcmp(arg_str(argc, argv, "--colcnt", "zfd"), "all");
    if (one) { G->samples_left = 0; int rc = replay_one(one); out_stats(PROP, "\"runs\":%ld,\"judged\":%ld,\"skipped\":%ld,\"violations\":%ld", G->runs, G->judged, G->skipped, G->viol); return rc; }
    const char *family = arg_str(argc, argv, "--family", "sq");
    int N = arg_int(argc, argv, "--n", 3);
    GRID = arg_str(argc, argv, "--grid", "quick");
    permaxis = arg_int(argc, argv, "--permaxis", 1);
    int islice = 0, nslice = 1; sscanf(arg_str(argc, argv, "--slice", "0/1"), "%d/%d", &islice, &nslice);
    int timeout = arg_int(argc, argv, "--timeout", 20);
    double deadline = atof(arg_str(argc, argv, "--deadline", "1e9")); double t0 = now_s();
    diag_only = !strcmp(family, "sqdiag");
    if (N < 1 || N > (strcmp(family, "comp") ? MAXN + diag_only : 8) || nslice < 1 || islice < 0 || islice >= nslice || (strcmp(family, "sq") && strcmp(family, "rect") && strcmp(family, "sqdiag") && strcmp(family, "comp")) || (strcmp(GRID, "quick") && strcmp(GRID, "full"))) {
        fprintf(stderr, "usage: mcorder --family sq|rect|sqdiag --n 1..%d --grid quick|full [--slice i/k] [--deadline s] | --one \"<case>\"\n", MAXN); return 2; }
    build_shapes(family, N);
    /* slice i of k takes the indices i, i+k, i+2k, ... (dense and sparse patterns are spread evenly) */
    unsigned long long cnt = total_idx > (unsigned long long)islice ? (total_idx - islice + nslice - 1) / nslice : 0;
    long done = 0; int complete = 1;
    if (!vf_sh) vf_sh = mmap(NULL, sizeof *vf_sh, PROT_READ | PROT_WRITE, MAP_SHARED | MAP_ANONYMOUS, -1, 0);
#define IDX(t) ((unsigned long long)(t) * nslice + islice)
    for (unsigned long long a = 0; a < cnt; a += 2048) {
        if (now_s() - t0 > deadline) { complete = 0; break; }
        unsigned long long b = a + 2048 < cnt ? a + 2048 : cnt, next = a;
        while (next < b) {
            vf_sh->cur = (long)next; vf_sh->done = 0; vf_sh->where[0] = 0; vf_sh->note[0] = 0; fflush(NULL);
            pid_t pid = fork();
            if (pid == 0) {
                signal(SIGALRM, vf_alarm); vf_install_fault_handlers();
                for (unsigned long long t = next; t < b; t++) { vf_sh->cur = (long)t; vf_case_timer(timeout); case_fn(IDX(t)); G->resume_cfg = 0; G->resumes = 0; G->ncrashed = 0; }
                vf_sh->done = 1; fflush(NULL); _exit(0);
            }
            int st = 0; waitpid(pid, &st, 0); vf_last_child = pid;
            if (WIFEXITED(st) && WEXITSTATUS(st) == 0 && vf_sh->done) break;
            long bad = vf_sh->cur; int kind, code;
            if (WIFSIGNALED(st)) { kind = VF_SIGNAL; code = WTERMSIG(st); } else if (WEXITSTATUS(st) == 99) { kind = VF_ASAN; code = 99; }
            else if (WEXITSTATUS(st) == 97) { kind = VF_TIMEOUT; code = 97; } else if (WEXITSTATUS(st) == 98) { kind = VF_FAULT; code = 98; } else { kind = VF_EXIT; code = WEXITSTATUS(st); }
            death_fn(IDX(bad), kind, code, (const char *)vf_sh->note);
            /* same matrix again, behind the case that died */
            if (G->cfg_no > G->resume_cfg && G->resumes < MAX_RESUMES) { G->resume_cfg = G->cfg_no; G->crashed[G->ncrashed++] = G->cfg_no; G->resumes++; next = (unsigned long long)bad; }
            else { G->resume_cfg = 0; G->resumes = 0; G->ncrashed = 0; next = (unsigned long long)bad + 1; }
        }
        done += (long)(b - a);
    }
    char sigs[3000]; size_t o = 0; sigs[0] = 0;
    for (int k = 0; k < G->nsig && o + 140 < sizeof sigs; k++) o += snprintf(sigs + o, sizeof sigs - o, "%s\"%s\":%ld", k ? "," : "", G->sig[k], G->sigcnt[k]);
    out_stats(PROP, "\"family\":\"%s\",\"n\":%d,\"grid\":\"%s\",\"permaxis\":%d,\"slice\":\"%d/%d\",\"matrices\":%ld,\"matrices_total\":%llu,\"complete\":%s,"
              "\"runs\":%ld,\"judged\":%ld,\"skipped\":%ld,\"violations\":%ld,\"distinct_outcomes\":%ld,\"distinct_is_lower_bound\":%s,\"deaths\":%ld,"
              "\"get_perm_c_calls\":%ld,\"sp_colorder_calls\":%ld,\"sp_coletree_calls\":%ld,"
              "\"skipped_opt2_nonsquare\":%ld,\"skipped_no_input_perm\":%ld,\"bnz0_cases\":%ld,\"bnz0_identity\":%ld,"
              "\"colcnt_judged\":%ld,\"colcnt_outside_hypothesis\":%ld,\"colcnt_outside_hypothesis_not_in_1_n\":%ld,\"reference_selfcheck_failures\":%ld,"
              "\"by_signature\":{%s},\"wall_s\":%.2f",
              family, N, GRID, permaxis, islice, nslice, done, cnt, complete ? "true" : "false",
              G->runs, G->judged, G->skipped, G->viol, G->distinct, G->distinct_dropped ? "true" : "false", G->deaths, G->n_order, G->n_colorder, G->n_coletree,
              G->skip_opt2_nonsquare, G->skip_no_input_perm, G->bnz0_cases, G->bnz0_identity,
              G->colcnt_judged, G->colcnt_outside_hyp, G->colcnt_outside_hyp_bad, G->selfcheck_fail, sigs, now_s() - t0);
    return 0;
}
